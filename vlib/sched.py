"""E3 -- stateless schedule exploration of real Python threads.

One thread is runnable at a time (each thread owns a semaphore: the baton).
Scheduling points are explicit calls of `Sched.point()`: from a `sys.settrace`
line/opcode hook on the code objects under test, from the scheduler-aware lock
`SLock` that replaces the library's real locks, from the C-level lock hook of
the shim backend build, and from the harness bodies (initialisers, __eq__).

Exploration is iterative context bounding (Musuvathi & Qadeer): run the default
schedule, then for every scheduling point whose cost stays within the
preemption bound branch to every other enabled thread.  A schedule is the list
of choice indices into the canonical enabled list (running thread first if it
is still enabled, then ascending thread ids); prefixes are replayed on fresh
objects and an out-of-range choice while replaying is a hard error.
"""
import sys
import threading

from .build import InfraError


class SchedAbort(BaseException):
    pass


class _T(object):
    __slots__ = ("tid", "sem", "thread", "finished", "waiting_for", "label", "started")

    def __init__(self, tid):
        self.tid = tid
        self.sem = threading.Semaphore(0)
        self.thread = None
        self.finished = False
        self.waiting_for = None     # an SLock-like object with .held_by
        self.label = None
        self.started = False


class _PoolThread(object):
    """A persistent OS thread that runs one body per execution (thread creation is
    surprisingly expensive when 16 check processes do it at once)."""

    def __init__(self):
        self.job = None
        self.go = threading.Semaphore(0)
        self.done = threading.Semaphore(0)
        self.thread = threading.Thread(target=self._loop, daemon=True)
        self.thread.start()

    def _loop(self):
        while True:
            self.go.acquire()
            job = self.job
            self.job = None
            try:
                job()
            finally:
                self.done.release()


_IDLE = []


class Sched(object):
    """One execution under a given choice prefix.

    Scheduling decisions are taken by whichever thread reaches a scheduling point
    (the decision procedure is deterministic and only one thread runs at a time,
    so this is equivalent to a central controller but needs no context switch when
    the running thread simply continues)."""

    def __init__(self, prefix=(), horizon=5000, exec_timeout=120, reuse_threads=True):
        self.reuse_threads = reuse_threads
        self.prefix = list(prefix)
        self.threads = []
        self.ctl = threading.Semaphore(0)
        self.current = None
        self.points = []        # per decision: (enabled tids in canonical order, running_still_enabled)
        self.choices = []       # chosen index per decision
        self.log = []           # observation log (events recorded by bodies / monitor)
        self.deadlock = False
        self.aborted = False
        self.horizon = horizon
        self.exec_timeout = exec_timeout
        self.local = threading.local()
        self.errors = []
        self.infra = None

    # ---- thread side ------------------------------------------------------
    def spawn(self, fn, *args):
        t = _T(len(self.threads))
        self.threads.append(t)

        def body():
            self.local.t = t
            t.sem.acquire()                    # wait for the first grant
            try:
                if not self.aborted:
                    fn(*args)
            except SchedAbort:
                pass
            except BaseException as e:        # harness bodies must catch what they expect
                self.errors.append((t.tid, repr(e)))
            finally:
                sys.settrace(None)
                t.finished = True
                if not self.aborted:
                    self._handoff(t)
        if self.reuse_threads:
            w = _IDLE.pop() if _IDLE else _PoolThread()
            t.thread = w
            w.job = body
            w.go.release()
        else:
            t.thread = threading.Thread(target=body, daemon=True)
            t.thread.start()
        return t.tid

    def me(self):
        return getattr(self.local, "t", None)

    def point(self, label=None, waiting_for=None):
        """Called by the running thread: a scheduling decision is taken here."""
        t = self.me()
        if t is None or t is not self.current:
            return                              # not one of ours (e.g. the controller itself)
        if self.aborted:
            raise SchedAbort()
        t.label = label
        t.waiting_for = waiting_for
        self._handoff(t)
        t.waiting_for = None
        if self.aborted:
            raise SchedAbort()

    def _handoff(self, t):
        nxt = self._decide(t)
        if nxt is t:
            return
        if nxt is None:
            self.ctl.release()                 # everything finished, deadlock, or infra error
        else:
            nxt.sem.release()
        if not t.finished:
            t.sem.acquire()

    def event(self, *ev):
        t = self.me()
        self.log.append((t.tid if t is not None else -1,) + ev)

    # ---- decisions --------------------------------------------------------
    def _enabled(self, t):
        if t.finished:
            return False
        w = t.waiting_for
        if w is not None and w.held_by is not None:
            return False
        return True

    def _decide(self, cur):
        alive = [t for t in self.threads if not t.finished]
        if not alive:
            self.current = None
            return None
        en = [t for t in alive if self._enabled(t)]
        if not en:
            self.deadlock = True
            self.current = None
            return None
        still = cur is not None and cur in en
        order = ([cur] if still else []) + [t for t in en if t is not cur]
        k = len(self.choices)
        if k < len(self.prefix):
            c = self.prefix[k]
            if c >= len(order):
                self.infra = "replay diverged at decision %d: choice %d of %d enabled" % (k, c, len(order))
                self.current = None
                return None
        else:
            c = 0
        if k >= self.horizon:
            self.infra = "horizon exceeded (%d decisions): unbounded loop in the harness?" % k
            self.current = None
            return None
        self.points.append(([t.tid for t in order], still))
        self.choices.append(c)
        nxt = order[c]
        self.current = nxt
        return nxt

    def run(self):
        first = self._decide(None)
        if first is not None:
            first.sem.release()
            if not self.ctl.acquire(timeout=self.exec_timeout):
                self._abort()
                raise InfraError("lost control: no scheduling point reached for %d s (thread %r)" % (
                    self.exec_timeout, self.current.tid if self.current else None))
        if self.infra:
            self._abort()
            raise InfraError(self.infra)
        if self.deadlock:
            self._abort()
        else:
            for t in self.threads:
                if self.reuse_threads:
                    if not t.thread.done.acquire(timeout=10):
                        raise InfraError("a thread body did not return")
                    _IDLE.append(t.thread)
                else:
                    t.thread.join(5)
        self.current = None
        return self

    def _abort(self):
        self.aborted = True
        for t in self.threads:
            if not t.finished:
                t.sem.release()
        for t in self.threads:
            if self.reuse_threads:
                # a body that comes back is reusable; one that stays stuck is abandoned
                if t.thread.done.acquire(timeout=0.2):
                    _IDLE.append(t.thread)
            else:
                t.thread.join(0.2)

    def preemptions(self):
        """p[i] = number of preemptive switches among decisions < i."""
        out = [0]
        for (order, still), c in zip(self.points, self.choices):
            out.append(out[-1] + (1 if (still and c != 0) else 0))
        return out


class SLock(object):
    """Scheduler-aware replacement for _thread.allocate_lock()."""
    sched = None     # set per execution

    def __init__(self):
        self.held_by = None

    def acquire(self, blocking=True, timeout=-1):
        s = SLock.sched
        t = s.me() if s is not None else None
        if s is None or t is None:
            if self.held_by is not None:
                if not blocking:
                    return False
                raise InfraError("SLock contended outside the scheduler")
            self.held_by = "outside"
            return True
        if not blocking:
            s.point(("try-acquire", id(self)))
            if self.held_by is not None:
                return False
            self.held_by = t.tid
            return True
        s.point(("acquire",), waiting_for=self)
        if self.held_by is not None:
            raise InfraError("scheduler granted a held lock")
        self.held_by = t.tid
        return True

    def release(self):
        if self.held_by is None:
            raise RuntimeError("release unlocked lock")
        self.held_by = None
        s = SLock.sched
        if s is not None and s.me() is not None:
            s.point(("released",))

    def locked(self):
        return self.held_by is not None

    def __enter__(self):
        self.acquire()
        return self

    def __exit__(self, *a):
        self.release()


class CLockTable(object):
    """Model of C-level locks routed through the shim hook (keyed by address)."""

    def __init__(self):
        self.locks = {}

    def get(self, addr):
        l = self.locks.get(addr)
        if l is None:
            l = self.locks[addr] = _CL()
        return l


class _CL(object):
    def __init__(self):
        self.held_by = None


def make_tracer(sched, codes, opcodes=False):
    def local(frame, event, arg):
        if event == ("opcode" if opcodes else "line"):
            sched.point(("at", frame.f_lineno) if not opcodes else ("op", frame.f_lasti))
        return local

    def tracer(frame, event, arg):
        if frame.f_code in codes:
            if opcodes:
                frame.f_trace_opcodes = True
                frame.f_trace_lines = False
            return local
        return None
    return tracer


def explore(run_one, bound, max_exec=None, on_exec=None):
    """run_one(prefix) -> finished Sched.  Enumerates every schedule with at most
    `bound` preemptions (bound=None: all schedules).  Returns stats dict."""
    stack = [[]]
    nexec = 0
    npoints = 0
    maxlen = 0
    capped = False
    while stack:
        prefix = stack.pop()
        s = run_one(prefix)
        nexec += 1
        npoints += len(s.points)
        maxlen = max(maxlen, len(s.points))
        if on_exec is not None:
            stop = on_exec(s)
            if stop:
                break
        pre = s.preemptions()
        for i in range(len(s.points) - 1, len(prefix) - 1, -1):
            order, still = s.points[i]
            if len(order) < 2:
                continue
            cost = pre[i] + (1 if still else 0)
            if bound is not None and cost > bound:
                continue
            for alt in range(1, len(order)):
                stack.append(s.choices[:i] + [alt])
        if max_exec is not None and nexec >= max_exec and stack:
            capped = True
            break
    return {"executions": nexec, "decisions": npoints, "max_decisions": maxlen, "capped": capped}
