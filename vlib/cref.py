"""The independent authority: gcc on this machine.

`run_c(src)` compiles a generated program and returns its stdout;
`load_c(src)` compiles a shared object and loads it with ctypes.  cffi is never
involved on this side.
"""
import ctypes
import itertools
import os
import subprocess

from . import build
from .build import InfraError

_counter = itertools.count()


def _name(prefix):
    return os.path.join(build.scratch(), "%s_%d_%d" % (prefix, os.getpid(), next(_counter)))


def run_c(src, flags=(), keep=False):
    exe = _name("ref")
    build.cc(src, exe, flags=flags, shared=False)
    p = subprocess.run([exe], stdout=subprocess.PIPE, stderr=subprocess.PIPE, text=True)
    if p.returncode != 0:
        raise InfraError("reference program failed (%d): %s" % (p.returncode, p.stderr[-2000:]))
    if not keep:
        for fn in (exe, exe + ".c"):
            try:
                os.unlink(fn)
            except OSError:
                pass
    return p.stdout


def compile_so(src, flags=(), name="lib"):
    so = _name(name) + ".so"
    build.cc(src, so, flags=flags, shared=True)
    return so


def load_c(src, flags=()):
    so = compile_so(src, flags)
    return ctypes.CDLL(so)


# integer type facts, measured once by gcc -----------------------------------------

INT_TYPES = ["signed char", "unsigned char", "short", "unsigned short", "int", "unsigned int",
             "long", "unsigned long", "long long", "unsigned long long"]

_facts = None


def int_facts(extra_types=(), headers=("stdint.h", "stddef.h", "sys/types.h", "wchar.h", "uchar.h", "stdbool.h")):
    """{type name: (size, signed, align)} as printed by gcc."""
    global _facts
    key = tuple(extra_types)
    if _facts is not None and _facts[0] == key:
        return _facts[1]
    types = list(INT_TYPES) + ["char", "_Bool"] + list(extra_types)
    src = "".join("#include <%s>\n" % h for h in headers) + "#include <stdio.h>\nint main(void){\n"
    for t in types:
        src += 'printf("%%s|%%d|%%d|%%d\\n", "%s", (int)sizeof(%s), (int)(((%s)-1) < (%s)0), (int)_Alignof(%s));\n' % (
            t, t, t, t, t)
    src += "return 0;}\n"
    out = run_c(src)
    res = {}
    for line in out.splitlines():
        n, s, sg, al = line.split("|")
        res[n] = (int(s), bool(int(sg)), int(al))
    _facts = (key, res)
    return res


def int_range(size, signed, is_bool=False):
    if is_bool:
        return (0, 1)
    if signed:
        return (-(1 << (8 * size - 1)), (1 << (8 * size - 1)) - 1)
    return (0, (1 << (8 * size)) - 1)


def boundary_values(lo, hi):
    """B(T): straddles every comparison the conversion code makes."""
    s = {lo - 1, lo, lo + 1, -2, -1, 0, 1, 2, hi - 1, hi, hi + 1}
    for k in (7, 8, 15, 16, 31, 32, 63, 64, 65, 127, 128):
        for sign in (1, -1):
            for d in (-1, 0, 1):
                s.add(sign * (1 << k) + d)
    s.add(10 ** 30)
    s.add(-10 ** 30)
    return sorted(s)
