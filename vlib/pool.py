"""A small crash-containing process pool.

Workers are forked from the (already set up) check process and are long-lived.
The driver hands out *blocks* (lists of items).  Before running an item the
worker stores its index in a shared integer; if the worker dies the driver
attributes the death to that item, confirms by re-running the item alone in a
fresh process, reports `Crash(...)` as that item's result, and continues with
the rest of the block in a new worker.
"""
import multiprocessing as mp
import os
import signal
import time
import traceback

from .build import InfraError

NPROC = int(os.environ.get("VERIF_JOBS", "0")) or min(16, os.cpu_count() or 4)


class Crash(object):
    def __init__(self, exitcode, confirmed):
        self.exitcode = exitcode
        self.confirmed = confirmed

    def __repr__(self):
        return "Crash(exit=%r, confirmed=%r)" % (self.exitcode, self.confirmed)

    def describe(self):
        ec = self.exitcode
        if ec is not None and ec < 0:
            try:
                return "killed by %s" % signal.Signals(-ec).name
            except ValueError:
                return "killed by signal %d" % -ec
        return "exit status %r" % (ec,)


class WorkerError(object):
    def __init__(self, tb):
        self.tb = tb

    def __repr__(self):
        return "WorkerError(%s)" % self.tb


def _worker_main(func, init, conn, cur):
    try:
        if init is not None:
            init()
        while True:
            msg = conn.recv()
            if msg is None:
                break
            bid, start, items = msg
            out = []
            for k, it in enumerate(items):
                cur.value = start + k
                try:
                    out.append(func(it))
                except InfraError as e:
                    out.append(WorkerError("InfraError: %s" % e))
                except BaseException:
                    out.append(WorkerError(traceback.format_exc()))
            cur.value = -1
            conn.send((bid, start, out))
    except (EOFError, KeyboardInterrupt):
        pass
    finally:
        os._exit(0)


class _W(object):
    def __init__(self, ctx, func, init):
        self.cur = ctx.Value("q", -1, lock=False)
        self.conn, child = ctx.Pipe()
        self.proc = ctx.Process(target=_worker_main, args=(func, init, child, self.cur))
        self.proc.daemon = True
        self.proc.start()
        child.close()
        self.job = None      # (bid, start, items)
        self.t0 = None

    def send(self, job):
        self.job = job
        self.t0 = time.time()
        self.conn.send(job)

    def stop(self):
        try:
            self.conn.send(None)
        except Exception:
            pass
        self.proc.join(1)
        if self.proc.is_alive():
            self.proc.kill()
            self.proc.join()


def _run_alone(ctx, func, init, item, timeout):
    """Re-run one item in a fresh process.  Returns ('ok', result) or ('dead', exitcode)."""
    w = _W(ctx, func, init)
    w.send((0, 0, [item]))
    try:
        if w.conn.poll(timeout):
            try:
                _, _, out = w.conn.recv()
                return ("ok", out[0])
            except EOFError:
                pass
        w.proc.join(1)
        if w.proc.is_alive():
            w.proc.kill()
            w.proc.join()
            return ("dead", "timeout")
        return ("dead", w.proc.exitcode)
    finally:
        w.stop()


def pmap(func, blocks, init=None, nproc=None, item_timeout=300, contain_crashes=True):
    """Yield (item, result) for every item of every block (unordered across blocks).

    result is func(item), or Crash, or WorkerError (an exception escaped func:
    a harness bug, callers should treat it as infrastructure failure).
    """
    ctx = mp.get_context("fork")
    blocks = [list(b) for b in blocks if len(b)]
    if not blocks:
        return
    nproc = min(nproc or NPROC, len(blocks))
    pending = list(enumerate(blocks))
    pending.reverse()
    workers = [_W(ctx, func, init) for _ in range(nproc)]
    active = 0
    try:
        for w in workers:
            if pending:
                bid, b = pending.pop()
                w.send((bid, 0, b))
                active += 1
        while active:
            ready = mp.connection.wait([w.conn for w in workers if w.job is not None], timeout=5)
            now = time.time()
            for w in workers:
                if w.job is None:
                    continue
                dead = False
                if w.conn in ready:
                    try:
                        bid, start, out = w.conn.recv()
                    except (EOFError, ConnectionResetError):
                        dead = True
                    else:
                        items = w.job[2]
                        for it, r in zip(items, out):
                            yield it, r
                        w.job = None
                        active -= 1
                        if pending:
                            nb, b = pending.pop()
                            w.send((nb, 0, b))
                            active += 1
                        continue
                elif not w.proc.is_alive():
                    dead = True
                elif now - w.t0 > item_timeout * max(1, len(w.job[2])):
                    w.proc.kill()
                    w.proc.join()
                    raise InfraError("worker timeout in block %r" % (w.job[0],))
                if dead:
                    w.proc.join()
                    ec = w.proc.exitcode
                    bid, start, items = w.job
                    idx = w.cur.value
                    if not contain_crashes or idx < 0:
                        raise InfraError("worker died (exit %r) outside an item (block %r)" % (ec, bid))
                    k = idx - start
                    # items before k completed but their results were lost with the
                    # worker: re-run them (they are deterministic).
                    bad = items[k]
                    st, r = _run_alone(ctx, func, init, bad, item_timeout)
                    if st == "ok":
                        res = Crash(ec, False)   # died in the block but not alone
                        res.alone_result = r
                    else:
                        res = Crash(ec if r == "timeout" or r is None else r, True)
                    yield bad, res
                    rest = items[:k] + items[k + 1:]
                    # replace the worker
                    i = workers.index(w)
                    nw = _W(ctx, func, init)
                    workers[i] = nw
                    active -= 1
                    if rest:
                        nw.send((bid, 0, rest))
                        active += 1
                    elif pending:
                        nb, b = pending.pop()
                        nw.send((nb, 0, b))
                        active += 1
    finally:
        for w in workers:
            w.stop()


def chunks(seq, n):
    seq = list(seq)
    for i in range(0, len(seq), n):
        yield seq[i:i + n]
