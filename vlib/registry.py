"""Static per-property configuration needed *before* the check process starts
(which backend build to put on PYTHONPATH, which hash seed)."""

PROPS = {}


def _p(pid, **kw):
    PROPS[pid] = kw


for _i in range(1, 38):
    _p("C%02d" % _i)

PROPS["C26"]["variant"] = "shim"
