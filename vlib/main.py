"""Stage 2 of bin/check: runs inside /venv/bin/python with the fresh backend on
PYTHONPATH.  usage: python -m vlib.main <ID> --tier quick|thorough [--replay f]"""
import argparse
import importlib
import json
import os
import sys
import traceback


def main(argv=None):
    ap = argparse.ArgumentParser()
    ap.add_argument("pid")
    ap.add_argument("--tier", default=os.environ.get("VERIF_TIER") or "quick", choices=["quick", "thorough"])
    ap.add_argument("--replay")
    ap.add_argument("--opt", action="append", default=[])
    a = ap.parse_args(argv)
    from . import build, runner
    try:
        seed = int(os.environ.get("VERIF_SEED", "0") or 0)
    except ValueError:
        seed = 0
    try:
        build.assert_fresh()
        mod = importlib.import_module("vlib.props.%s" % a.pid.lower())
        if a.replay:
            with open(a.replay) as f:
                obj = json.load(f)
            rc = mod.replay(runner.unjson(obj["detail"]))
            return rc or 0
        ctx = runner.Ctx(a.pid, a.tier, seed, mod.LEVEL)
        ctx.opts = dict(o.split("=", 1) if "=" in o else (o, "1") for o in a.opt)
        rc = mod.run(ctx)
        return rc
    except build.InfraError as e:
        sys.stderr.write("INFRASTRUCTURE ERROR (%s): %s\n" % (a.pid, e))
        return 2
    except Exception:
        traceback.print_exc()
        sys.stderr.write("INFRASTRUCTURE ERROR (%s): unexpected exception in the harness\n" % a.pid)
        return 2


if __name__ == "__main__":
    sys.stdout.flush()
    rc = main()
    sys.stdout.flush()
    sys.stderr.flush()
    try:
        from . import build as _b
        _b.cleanup_scratch()
    except Exception:
        pass
    os._exit(rc if isinstance(rc, int) else 0)
