"""C16 -- array and pointer indexing, slicing and arithmetic follow the C model.

Engine E2 (vlib/hist.py): every history up to a depth over an alphabet of
index / slice / slice-assign / add / sub / pointer-difference / addressof /
offsetof / derive-a-view operations, starting from several array and pointer
shapes, stepped in lock-step with a byte model:

    model  = bytearray (the object's bytes, embedded in a larger image whose
             other bytes are canaries) + view = (kind, byte offset, length)
    kind   = 'arr' (bounds-checked array of `length` items), 'ptr' (plain
             pointer, no bounds), 'own' (owning pointer from ffi.new("T *"))

The arrays are carved out of a larger Python bytearray (ffi.from_buffer), so
after *every* step the whole image -- object bytes and canaries -- is read
straight from the bytearray (no cffi involved) and compared with the model.

Families added after the audit (.cache/audit/C16.md), all inside the same alphabets / oracle:
    * slices and slice assignments of POINTER views: a plain pointer accepts every well-formed slice (only the
      ones inside the model's bytes are offered, negative start included) and the result aliases; an owning
      pointer from ffi.new("T *") accepts exactly p[0:0], p[0:1], p[1:1]; malformed slices raise IndexError;
    * slice assignments whose source OVERLAPS the target (x[i:j] = x[i+1:j+1], x[i-1:j-1], and iter(...) of them);
    * a second shape list (SHAPES2): int[3][2] (x[i] is a view: a read descends into the row), int *[3], double[3],
      unsigned char[4] (bytes sources), wchar_t[3] (str sources), int[0] three ways, void * arithmetic, and int[4]
      arrays of other provenance (struct field with real neighbours, ffi.gc(), new_allocator());
    * indices / slice bounds -2**63, -2**63-1, -2**64; reflected arithmetic i + x (== x + i) and i - x (TypeError).

Passes (alphabets nest: core < narrow < wide; sizes on int[4]: 32 / 54 / 255):
    quick    wide  : all histories of length <= 2 with at most one op outside the core alphabet (no merging)
             core  : core alphabet to depth 3, merging by key() beyond depth 1
    thorough wide2 : all histories of length <= 2 over the wide alphabet (no merging)
             wide3 : length <= 3, at most one op outside the core alphabet, the six shapes of DESIGN.md (no merging)
             narrow: all histories of length <= 3 over the narrow alphabet (no merging)
             deep  : core alphabet to depth 5, merging by key() beyond depth 2
"""
import struct

from .. import build, hist, pool
from ..build import InfraError

ID = "C16"
LEVEL = "model_checking"
META = dict(
    engine="E2-hist", level="model_checking",
    technique="explicit-state search over all operation histories (index, slice, slice-assign, pointer arithmetic, "
              "addressof/offsetof, derived views) of real cdata objects in lock-step with a byte model, canaries "
              "around the storage",
    text="From 23 array/pointer shapes (int[4], char[5], struct[3], long long[] n=3, owned and from_buffer-backed, "
         "owning pointers, a pointer into the middle of an array; second list: int[3][2] whose items are views, "
         "int *[3], double[3], unsigned char[4], wchar_t[3], int[0] cast/new/open, a void * into 8 bytes, an int[4] that "
         "is a struct field between two other fields, an ffi.gc() array, a custom-allocator array) x both FFI "
         "front ends: quick = every history of "
         "length <= 2 with at most one operation outside a 32-operation core alphabet (255-operation wide alphabet, "
         "no merging) and the core alphabet to depth 3 (merging beyond depth 1); thorough = all pairs over the wide "
         "alphabet, all triples over a 54-operation alphabet and all triples with one wide operation (no merging), "
         "core alphabet to depth 5 with merging beyond depth 2.  Indices straddle every comparison of "
         "_cdata_get_indexed_ptr / _cdata_getslicearg (-2**64, -2**63-1, -2**63, -1, 0, 1, n-1, n, n+1, 2**63-1, "
         "2**63, None, step).  Pointer views are sliced too: a plain pointer accepts every well-formed slice inside "
         "the model's bytes (negative start included, result aliases), an owning pointer exactly [0:0], [0:1], [1:1] "
         "(IndexError otherwise, memory untouched).  Slice assignment also from sources that overlap the target "
         "(neighbouring slice of the same object, as cdata = memmove semantics, and as iterator), also on 65537- and "
         "70001-item arrays.  Reflected i + p equals p + i, i - p is a TypeError.  After "
         "each step: acceptance (IndexError exactly when the statement says), value/address/length of the result, "
         "and the complete memory image including canaries, read from the backing bytearray, against the model.",
    note="the byte model is the oracle; indices whose byte offset does not fit a Py_ssize_t are outside C's pointer "
         "arithmetic and are executed but not compared (counted); plain pointers are only dereferenced / sliced inside "
         "the model's bytes; x[i:j] = iter(x[i-1:j-1]) may give the lazy or the materialised result (the statement "
         "does not say when an iterator is drained), nothing else")

MAXS = 2 ** 63 - 1
BIG = 2 ** 63
PRE = 16            # canary bytes before / after the object
POST = 16

ELEMS = {
    "int": ("int", 4),
    "char": ("char", 1),
    "llong": ("long long", 8),
    "S": ("struct S", 4),
    # element kinds of the second shape list (SHAPES2)
    "row": ("int[2]", 8),          # item is itself an array: x[i] is a VIEW, not a copy
    "pp": ("int *", 8),
    "dbl": ("double", 8),
    "uchar": ("unsigned char", 1),  # bytes sources go through the iterator path (no char fast path)
    "wchar": ("wchar_t", 4),        # str sources
    "void": ("void", 1),            # void * arithmetic only (item size 1); never indexed
}
_INTV = [305419896, -2, 65537, -1234567, 7, 2 ** 31 - 1, -2 ** 31, 99]
_LLV = [2 ** 40 + 5, -3, 2 ** 62 + 1, -2 ** 63, 11, 2 ** 63 - 1, 77, -2 ** 33]
_SA = [258, -2, 1000, -32768, 7, 32767, 513, 99]
_DBL = [1.5, -2.25, 1e300, 5e-324, -1.0, 3.141592653589793, 65536.0, -1e-300]
_UCH = [0x80, 0xFF, 0x01, 0x7F, 0xC3, 0x00, 0x41, 0xFE]
_WCH = [0x20AC, 0x41, 0x1F600, 0xE9, 0x7A, 0x100, 0xFFFD, 0x30]
_PPV = [0x10000, 0x7FFF0040, 0x10080, 0x100C0, 8, 0x10140, 0, 0x7FFFFFFFFFF0]      # never dereferenced

# (elem, n, how)
SHAPES = [
    ("int", 4, "cast"),        # <cdata 'int[4]'> : *(int(*)[4])(base+16)      -> cdata_subscript
    ("char", 5, "frombuf"),    # from_buffer('char[5]', memoryview slice)
    ("S", 3, "cast"),          # struct S[3]
    ("llong", 3, "fbopen"),    # from_buffer('long long[]', 24-byte slice): open array, run-time length 3
    ("int", 1, "ownptr"),      # ffi.new("int *")
    ("int", 4, "midptr"),      # int[4] carved as above, start from x + 2
    ("int", 4, "new"),         # ffi.new("int[4]")                              -> cdataowning_subscript
    ("llong", 3, "newopen"),   # ffi.new("long long[]", 3)
    ("S", 1, "ownptr"),        # ffi.new("struct S *")  (CT_IS_PTR_TO_OWNED path)
    ("char", 5, "new"),        # ffi.new("char[5]")
]
# further element kinds and degenerate lengths (audit gap 2).  Explored by the passes listed in _passes().
SHAPES2 = [
    ("row", 3, "cast"),        # int[3][2]: x[i] is an int[2] view into the parent (rd descends into it)
    ("row", 3, "new"),
    ("int", 0, "cast"),        # int[0] between canaries: every index raises, [0:0] is valid, x+0 is valid
    ("int", 0, "new"),         # ffi.new("int[0]")
    ("int", 0, "newopen"),     # ffi.new("int[]", 0)
    ("uchar", 4, "frombuf"),
    ("wchar", 3, "new"),
    ("dbl", 3, "cast"),
    ("pp", 3, "new"),          # int *[3]
    ("void", 8, "midptr"),     # void * into the middle of 8 bytes: arithmetic with item size 1
    # arrays of other provenance / Python type (audit gap 6)
    ("int", 4, "field"),       # p.a of struct F { int pre[4]; int a[4]; int post[4]; }: the neighbours are real fields
    ("int", 4, "gc"),          # ffi.gc(ffi.new("int[4]"), destructor)             -> CDataGCP, cdata_subscript
    ("int", 4, "alloc"),       # ffi.new_allocator(alloc, free)("int[4]")
]
FFIKINDS = ("inline", "ool")


def arr_t(elem, n):
    return "int[%d][2]" % n if elem == "row" else "%s[%d]" % (ELEMS[elem][0], n)


def open_t(elem):
    return "int[][2]" if elem == "row" else "%s[]" % ELEMS[elem][0]


def ptr_t(elem):
    return "int(*)[2]" if elem == "row" else "%s *" % ELEMS[elem][0]


def ptrarr_t(elem, n):
    return "int(*)[%d][2]" % n if elem == "row" else "%s(*)[%d]" % (ELEMS[elem][0], n)


# ---------------------------------------------------------------------------
# values

def enc(elem, t):
    """[(relative offset, bytes)] written by storing value #t into one item."""
    t %= 8
    if elem == "int":
        return [(0, struct.pack("<i", _INTV[t]))]
    if elem == "char":
        return [(0, bytes([0x41 + t]))]
    if elem == "llong":
        return [(0, struct.pack("<q", _LLV[t]))]
    if elem == "row":
        return [(0, struct.pack("<ii", _INTV[t], _INTV[(t + 3) % 8]))]
    if elem == "pp":
        return [(0, struct.pack("<Q", _PPV[t]))]
    if elem == "dbl":
        return [(0, struct.pack("<d", _DBL[t]))]
    if elem == "uchar":
        return [(0, bytes([_UCH[t]]))]
    if elem == "wchar":
        return [(0, struct.pack("<I", _WCH[t]))]
    return [(0, struct.pack("<h", _SA[t])), (2, bytes([0x61 + t]))]     # padding byte 3 is not written


def pyval(elem, t, ffi=None):
    t %= 8
    if elem == "int":
        return _INTV[t]
    if elem == "char":
        return bytes([0x41 + t])
    if elem == "llong":
        return _LLV[t]
    if elem == "row":
        v = [_INTV[t], _INTV[(t + 3) % 8]]
        return v if t % 2 == 0 else tuple(v)
    if elem == "pp":
        return ffi.NULL if _PPV[t] == 0 else ffi.cast("int *", _PPV[t])
    if elem == "dbl":
        return _DBL[t]
    if elem == "uchar":
        return _UCH[t]
    if elem == "wchar":
        return chr(_WCH[t])
    if t % 2 == 0:
        return {"a": _SA[t], "b": bytes([0x61 + t])}
    return [_SA[t], bytes([0x61 + t])]


def dec(elem, img, o):
    if elem == "int":
        return struct.unpack_from("<i", img, o)[0]
    if elem == "char":
        return bytes(img[o:o + 1])
    if elem == "llong":
        return struct.unpack_from("<q", img, o)[0]
    if elem == "row":
        return list(struct.unpack_from("<ii", img, o))
    if elem == "pp":
        return struct.unpack_from("<Q", img, o)[0]
    if elem == "dbl":
        return struct.unpack_from("<d", img, o)[0]
    if elem == "uchar":
        return img[o]
    if elem == "wchar":
        return chr(struct.unpack_from("<I", img, o)[0])
    return (struct.unpack_from("<h", img, o)[0], bytes(img[o + 2:o + 3]))


# ---------------------------------------------------------------------------
# FFI objects (one per process and kind)

_FFI = {}


def get_ffi(kind):
    if kind in _FFI:
        return _FFI[kind]
    import cffi
    f = cffi.FFI()
    f.cdef("struct S { short a; char b; }; struct F { int pre[4]; int a[4]; int post[4]; };")
    if kind == "ool":
        import contextlib
        import importlib.util
        import os
        import sys
        name = "_c16_ool_%d" % os.getpid()
        f.set_source(name, None)
        path = os.path.join(build.scratch(), name + ".py")
        with contextlib.redirect_stdout(sys.stderr):
            f.emit_python_code(path)
        spec = importlib.util.spec_from_file_location(name, path)
        m = importlib.util.module_from_spec(spec)
        spec.loader.exec_module(m)
        f = m.ffi
    if f.sizeof("struct S") != 4 or f.sizeof("long long") != 8 or f.sizeof("int") != 4 or \
            f.sizeof("wchar_t") != 4 or f.sizeof("double") != 8 or f.sizeof("void *") != 8:
        raise InfraError("unexpected sizes on this platform")
    _FFI[kind] = f
    return f


# ---------------------------------------------------------------------------
# alphabet

def _dedupe(seq):
    out = []
    for x in seq:
        if x not in out:
            out.append(x)
    return out


_OPS_CACHE = {}


def ops_for(elem, total, view, lvl):
    """The enabled operations: a function of the model's view only.
    lvl 0 = core alphabet, 1 = narrow, 2 = wide (each a superset of the previous)."""
    key = (elem, total, view, lvl)
    r = _OPS_CACHE.get(key)
    if r is None:
        r = [op for (l, op) in _gen_ops(elem, total, view) if l <= lvl]
        if len(set(r)) != len(r):
            raise InfraError("duplicate ops for %r" % (key,))
        _OPS_CACHE[key] = r
    return r


def slice_ok(i, j, step, n):
    return (step is None and isinstance(i, int) and isinstance(j, int) and 0 <= i <= j <= n)


def ptr_slice_ok(i, j, step):
    """Plain (non-owning) pointer: no bounds at all, only the forms every slice needs."""
    return (step is None and isinstance(i, int) and isinstance(j, int) and i <= j and _fits(i) and _fits(j))


def _fits(v):
    return -2 ** 63 <= v <= 2 ** 63 - 1


# sources of a slice assignment that OVERLAP the target (audit gap 3): the neighbouring slice of the same object
SELF_SRCS = ("self+1", "self-1", "iterself+1", "iterself-1")


def _bytes_srcs(elem):
    if elem == "char":
        return ["bytes", "bytesshort", "byteslong", "bytearray"]
    if elem == "uchar":
        return ["bytes", "byteslong", "bytearray"]          # iterator path: bytes iterate as ints
    if elem == "wchar":
        return ["str", "strshort", "strlong"]
    return []


def _gen_ops(elem, total, view):
    kind, off, n = view
    size = ELEMS[elem][1]
    out = []
    if elem == "void":
        # void *: arithmetic only (the statement's p[i] / sizeof(T) clauses do not apply)
        if kind != "ptr":
            raise InfraError("bad view %r for void" % (view,))
        for i in (0, 1, -1, 2, 5, -2, MAXS):
            out.append((0 if i in (0, 1, -1) else 1, ("add", i)))
        for i in (1, -1, 2, MAXS):
            out.append((0 if i == 1 else 1, ("sub", i)))
        for (i, j) in ((1, -1), (0, 5), (-2, 1)):
            out.append((0 if (i, j) == (1, -1) else 1, ("diff", i, j)))
        for i in (1, 0, -1):
            out.append((1 if i == 1 else 2, ("radd", i)))
        out.append((2, ("rsub", 1)))
        return out
    if kind == "arr":
        def lv(core, narrow):
            return 0 if core else 1 if narrow else 2
        idx = _dedupe([0, -1, 1, n - 1, n, n + 1, MAXS, BIG])
        for i in idx:
            out.append((lv(i in (0, -1, n - 1, n), True), ("rd", i)))
        for i in idx:
            if 0 <= i < n:
                out.append((lv(i in (0, n - 1), False), ("wr", i, 0)))
                out.append((lv(i == 0, False), ("wr", i, 1)))
            else:
                out.append((lv(i in (-1, n), False), ("wr", i, 2)))
        # audit gap 4: large negative indices (-2**63 fits a Py_ssize_t, -2**63-1 and -2**64 do not)
        for i in (-BIG, -BIG - 1, -2 * BIG):
            out.append((2, ("rd", i)))
            out.append((2, ("wr", i, 2)))
        base = _dedupe([0, 1, n - 1, n, -1, n + 1])
        core_sl = [(0, n, None), (1, n - 1, None), (1, 1, None), (n, n, None), (-1, 1, None), (0, n + 1, None),
                   (n - 1, 1, None)]
        narrow_sl = core_sl + [(0, 1, None), (None, 1, None), (0, n, 1)]
        sls = [(i, j, None) for i in base for j in base]
        sls += [(0, MAXS, None), (MAXS, MAXS, None), (MAXS, 0, None), (0, BIG, None), (BIG, BIG, None),
                (BIG, 0, None), (None, 1, None), (1, None, None), (None, None, None), (0, n, 1), (0, min(n, 2), 2),
                (None, None, 2), (-BIG - 1, 0, None), (0, -BIG - 1, None), (-BIG, 0, None)]
        sls = _dedupe(sls)
        for s in sls:
            out.append((lv(s in core_sl, s in narrow_sl), ("sl",) + s))
        srcs = ["list", "short", "long", "cdata", "iter", "itershort", "iterlong", "cdshort", "cdlong"]
        srcs += _bytes_srcs(elem)
        narrow_src = ("list", "short", "long", "cdata", "bytes", "byteslong")
        for s in sls:
            i, j, step = s
            if slice_ok(i, j, step, n):
                L = j - i
                for src in srcs:
                    if L == 0 and src in ("short", "itershort", "cdshort", "bytesshort", "strshort"):
                        continue
                    nar = (s in ((0, n, None), (1, n - 1, None)) and src in narrow_src) or \
                          (s == (1, 1, None) and src in ("list", "long"))
                    core = (s == (0, n, None) and src in ("list", "long", "cdata", "bytes")) or \
                           (s == (1, n - 1, None) and src in ("list", "short", "cdata", "byteslong"))
                    out.append((lv(core, nar), ("ss", i, j, step, src)))
                # overlapping sources: x[i:j] = x[i+1:j+1] / x[i-1:j-1] and the iterator spellings
                if L >= 1:
                    mid = (i, j) == (1, n - 1)
                    for src in SELF_SRCS:
                        d = 1 if src.endswith("+1") else -1
                        if 0 <= i + d and j + d <= n:
                            out.append((lv(mid and src == "self-1", mid and src in ("self+1", "iterself-1")),
                                        ("ss", i, j, step, src)))
            else:
                for src in ("list", "cdata"):
                    nar = n >= 2 and (s, src) in (((0, n + 1, None), "list"), ((-1, 1, None), "list"),
                                                  ((n - 1, 1, None), "cdata"), ((None, 1, None), "cdata"))
                    core = nar and s in ((0, n + 1, None), (n - 1, 1, None))
                    wide_too = src == "list" or s in narrow_sl or BIG in s or MAXS in s
                    if nar or wide_too:
                        out.append((lv(core, nar), ("ss", i, j, step, src)))
        for i in _dedupe([0, 1, -1, n, n - 1, n + 1, MAXS]):
            out.append((lv(i in (1, -1, n), i == 0), ("add", i)))
        for i in _dedupe([1, -1, 0, n, -n, MAXS]):
            out.append((lv(i == 1, i == -1), ("sub", i)))
        for (i, j) in _dedupe([(1, 0), (0, n), (n, 1), (-1, 1), (0, 0), (n + 1, -1)]):
            out.append((lv((i, j) == (1, 0), (i, j) == (0, n)), ("diff", i, j)))
        for i in _dedupe([0, 1, n, -1, n - 1, n + 1, MAXS, BIG]):
            out.append((lv(i == 1, i in (0, n)), ("addressof", i)))
        for i in _dedupe([1, MAXS, 0, -1, n, BIG]):
            out.append((lv(i == 1, i == MAXS), ("offsetof", i)))
        # audit gap 5: reflected arithmetic  i + x == x + i,  i - x is a TypeError
        for i in _dedupe([1, n, -1]):
            out.append((lv(False, i == 1), ("radd", i)))
        out.append((2, ("rsub", 1)))
    elif kind == "ptr":
        def inb(i, j):
            return 0 <= off + i * size and off + j * size <= total
        for i in (0, -1, 1, -2, 2):
            if inb(i, i + 1):
                out.append((0, ("rd", i)))
                out.append((0 if i in (0, -1) else 1, ("wr", i, 3)))
                out.append((1, ("wr", i, 4)))
        for i in (0, 1, -1, 2, -2, MAXS):
            out.append((0 if i in (0, 1, -1) else 1, ("add", i)))
        for i in (1, -1, 2, MAXS):
            out.append((0 if i == 1 else 1, ("sub", i)))
        for (i, j) in ((1, -1), (0, 2), (-2, 1)):
            out.append((0 if (i, j) == (1, -1) else 1, ("diff", i, j)))
        for i in (0, 1, -1, MAXS):
            out.append((0 if i in (1, -1) else 1, ("addressof", i)))
        out.append((1, ("offsetof", 2)))
        # audit gap 1: slices of a plain pointer are unchecked C: every slice inside the model's bytes is
        # accepted (negative start included) and aliases; the malformed forms raise IndexError as for arrays
        pairs = [(i, j) for i in (0, -1, 1, -2, 2) for j in (0, -1, 1, -2, 2) if i <= j and inb(i, j)]

        def pick(cands):
            for c in cands:
                if c in pairs:
                    return c
            return None
        # the preferred empty / 1-item / 2-item slice of this view (negative start where possible)
        first = {0: pick([(0, 0)]), 1: pick([(0, 1), (-1, 0)]), 2: pick([(-1, 1), (-2, 0), (0, 2)])}
        # core: the preferred 1-item and 2-item slice; narrow: the empty one
        for (i, j) in pairs:
            c = first.get(j - i) == (i, j)
            out.append((0 if c and j - i in (1, 2) else 1 if c else 2, ("sl", i, j, None)))
        bad = [(1, 0, None), (2, -2, None), (None, 1, None), (0, None, None), (None, None, None), (0, 1, 1),
               (None, None, 2), (0, BIG, None), (BIG, BIG, None), (-BIG - 1, 0, None), (0, -BIG - 1, None)]
        for s in bad:
            out.append((1 if s in ((1, 0, None), (0, 1, 1)) else 2, ("sl",) + s))
        psrcs = ["list", "cdata", "short", "long", "iter", "cdlong"] + _bytes_srcs(elem)
        for (i, j) in pairs:
            L = j - i
            c = first.get(L) == (i, j)
            for src in psrcs:
                if L == 0 and src in ("short", "bytesshort", "strshort"):
                    continue
                if src in ("list", "cdata") or c:
                    out.append((0 if c and L == 1 and src == "list" else
                                1 if c and L in (1, 2) and src in ("list", "cdata", "long") else 2,
                                ("ss", i, j, None, src)))
            if L >= 1:
                for src in SELF_SRCS:
                    d = 1 if src.endswith("+1") else -1
                    if inb(i + d, j + d):
                        out.append((1 if c and L == 2 and src == "self-1" else 2, ("ss", i, j, None, src)))
        for s in bad:
            out.append((1 if s == (1, 0, None) else 2, ("ss",) + s + ("list",)))
            if s in ((1, 0, None), (0, 1, 1), (0, BIG, None)):
                out.append((2, ("ss",) + s + ("cdata",)))
        out.append((1, ("radd", 1)))
        out.append((2, ("radd", -1)))
        out.append((2, ("rsub", 1)))
    elif kind == "own":
        for i in (0, 1, -1, MAXS, BIG):
            out.append((0, ("rd", i)))
        for i in (0, 1, -1, MAXS, BIG):
            out.append((0 if i in (0, 1, -1) else 1, ("wr", i, 5 if i else 6)))
        out.append((1, ("wr", 0, 7)))
        for i in (0, 1, -1):
            out.append((0 if i == 0 else 1, ("add", i)))
        out.append((1, ("sub", 0)))
        for i in (0, 1, -1):
            out.append((0 if i == 0 else 1, ("addressof", i)))
        out.append((1, ("diff", 1, 0)))
        out.append((1, ("offsetof", 1)))
        # audit gap 1: an owning pointer owns the single item 0: its slices must lie within [0:1]
        # (p[0:0], p[0:1], p[1:1]); everything else raises IndexError without touching memory
        osl = [(0, 1, None), (0, 2, None), (-1, 0, None), (1, 2, None), (0, 0, None), (1, 1, None),
               (-1, 1, None), (1, 0, None), (-1, -1, None), (2, 2, None), (0, MAXS, None), (MAXS, MAXS, None),
               (0, BIG, None), (-BIG - 1, 0, None), (-BIG, 0, None), (None, 1, None), (0, None, None),
               (0, 1, 1), (None, None, None)]
        core_o = osl[:4]
        narrow_o = osl[:8]
        for s in osl:
            out.append((0 if s in core_o else 1 if s in narrow_o else 2, ("sl",) + s))
        osrcs = ["list", "short", "long", "cdata", "iter", "iterlong", "cdshort", "cdlong"]
        for s in osl:
            i, j, step = s
            if slice_ok(i, j, step, 1):
                for src in osrcs:
                    if j - i == 0 and src in ("short", "cdshort"):
                        continue
                    out.append((0 if s == (0, 1, None) and src == "list" else
                                1 if src in ("list", "long", "cdata") else 2, ("ss", i, j, step, src)))
            else:
                for src in ("list", "cdata"):
                    out.append((0 if s in ((0, 2, None), (1, 2, None)) and src == "list" else
                                1 if s in narrow_o else 2, ("ss", i, j, step, src)))
        out.append((2, ("radd", 0)))
        out.append((2, ("rsub", 1)))
    else:
        raise InfraError("bad view %r" % (view,))
    return out


# ---------------------------------------------------------------------------
# class histogram plumbing (see CONTRIBUTING: counts must be measured).  A Sys
# instance lives for exactly one *explored* transition: hist.build() replays the
# prefix, then exactly one new op is applied.  So the class of the last op applied
# to an instance is the class of one explored transition.

_COUNTS = {}
_CUR = [None]


def _flush():
    s = _CUR[0]
    if s is not None and s.last_class is not None:
        _COUNTS[s.last_class] = _COUNTS.get(s.last_class, 0) + 1
        if tuple(s.cfg[3:]) in SHAPES2:
            k = "shape2/%s/%s" % (arr_t(s.cfg[3], s.cfg[4]), s.cfg[5])
            _COUNTS[k] = _COUNTS.get(k, 0) + 1
    _CUR[0] = None


def _no_destructor(p):
    return None


class Sys(object):
    def __init__(self, cfg):
        _flush()
        _CUR[0] = self
        self.last_class = None
        lvl, budget, ffikind, elem, n, how = cfg
        self.cfg = cfg
        self.lvl, self.how = lvl, how
        self.budget = budget        # how many ops outside the core alphabet one history may contain
        self.noncore = 0
        self.ffi = ffi = get_ffi(ffikind)
        self._set_elem(elem)
        size = self.size
        self.total = total = n * size
        self.keep = []
        init = bytearray((k * 7 + 3) & 0xFF for k in range(PRE + total + POST))
        if elem in ("wchar", "dbl"):
            # arbitrary bytes are not values of these types (code points > 0x10FFFF, NaNs): start from values
            for k in range(n):
                for rel, b in enc(elem, 5 + k):
                    init[PRE + k * size + rel:PRE + k * size + rel + len(b)] = b
        if how in ("cast", "frombuf", "fbopen", "midptr"):
            self.backing = backing = init
            self.lo = PRE
            import ctypes
            hold = (ctypes.c_char * len(backing)).from_buffer(backing)
            self.keep.append(hold)
            self.base_addr = ctypes.addressof(hold) + PRE       # address of the object, not obtained through cffi
            if how in ("cast", "midptr"):
                whole = ffi.from_buffer("char[]", backing)
                self.keep.append(whole)
                if elem == "void":
                    x = ffi.cast("void *", whole + PRE)
                else:
                    x = ffi.cast(ptrarr_t(elem, n), whole + PRE)[0]
            else:
                # a window of exactly the object's bytes.  (A ctypes window rather than a memoryview slice:
                # CPython 3.12.1 crashes in memoryview.tp_clear when a memoryview with live exports is part of
                # a garbage cycle, which has nothing to do with the property.)
                win = (ctypes.c_char * total).from_buffer(backing, PRE)
                if how == "frombuf":
                    x = ffi.from_buffer(arr_t(elem, n), win)
                else:
                    x = ffi.from_buffer(open_t(elem), win)
            self.root = x
            if how == "midptr":
                self.cur = x + 2
                self.view = ("ptr", 2 * size, None)
            else:
                self.cur = x
                self.view = ("arr", 0, n)
        else:
            self.backing = None
            self.lo = 0
            if how == "new":
                x = ffi.new(arr_t(elem, n))
                self.view = ("arr", 0, n)
            elif how == "newopen":
                x = ffi.new(open_t(elem), n)
                self.view = ("arr", 0, n)
            elif how == "ownptr":
                x = ffi.new(ptr_t(elem))
                self.view = ("own", 0, None)
            elif how == "field":
                if (elem, n) != ("int", 4) or PRE != 16 or POST != 16:
                    raise InfraError("struct F is declared for int[4] between 16-byte neighbours")
                holder = ffi.new("struct F *")
                self.keep.append(holder)
                x = holder.a
                self.view = ("arr", 0, n)
                self.lo = PRE                   # the image includes the neighbouring fields as canaries
            elif how == "gc":
                owner = ffi.new(arr_t(elem, n))
                self.keep.append(owner)
                x = ffi.gc(owner, _no_destructor)
                self.view = ("arr", 0, n)
            elif how == "alloc":
                store = self.keep

                def alloc(size):
                    b = ffi.new("char[]", size)
                    store.append(b)
                    return b
                x = ffi.new_allocator(alloc=alloc, free=_no_destructor, should_clear_after_alloc=False)(arr_t(elem, n))
                self.view = ("arr", 0, n)
            else:
                raise InfraError("bad how %r" % (how,))
            self.root = self.cur = x
            self.base_addr = int(ffi.cast("uintptr_t", x))
            # give owned memory the same distinctive initial content (through ctypes, not cffi)
            import ctypes
            if self.lo:
                ctypes.memmove(self.base_addr - PRE, bytes(init), len(init))
            else:
                ctypes.memmove(self.base_addr, bytes(init[PRE:PRE + total]), total)
        # the model's image: the complete backing (canaries included) or just the owned bytes
        if self.backing is not None:
            self.M = bytearray(self.backing)
        else:
            self.M = bytearray(self.actual())

    def _set_elem(self, elem):
        """The element kind of the CURRENT view (changes when a read of an int[3][2] descends into a row)."""
        self.elem = elem
        self.cname, self.size = ELEMS[elem]
        self.ptr_t, self.open_t = ptr_t(elem), open_t(elem)

    # -- observation channels that do not go through cffi indexing -------------
    def actual(self):
        if self.backing is not None:
            return bytes(self.backing)
        import ctypes
        if self.lo:
            return ctypes.string_at(self.base_addr - PRE, PRE + self.total + POST)
        return ctypes.string_at(self.base_addr, self.total)

    def addr(self, c):
        return int(self.ffi.cast("uintptr_t", c))

    def enabled(self):
        return ops_for(self.elem, self.total, self.view, self.lvl if self.noncore < self.budget else 0)

    def key(self):
        c = self.cur
        t = self.ffi.typeof(c)
        return (self.view, bytes(self.M), t.cname, len(c) if t.kind == "array" else -1,
                min(self.noncore, self.budget))

    # -- helpers ---------------------------------------------------------------
    def _bad(self, kind, **kw):
        d = {"kind": kind, "view": self.view}
        d.update(kw)
        return d

    def _memcheck(self, what):
        a = self.actual()
        if a != bytes(self.M):
            diff = [k for k in range(len(a)) if a[k] != self.M[k]]
            lo, hi = self.lo, self.lo + self.total
            where = "canary" if any(k < lo or k >= hi for k in diff) else "object"
            return self._bad("memory-" + what, where=where, offsets=[k - lo for k in diff][:16],
                             actual=a.hex(), model=bytes(self.M).hex())
        return None

    def _store_model(self, byteoff, t, whole=False):
        """whole=True: the item is copied from a zero-initialised cdata item (struct padding included)."""
        if whole:
            o = self.lo + byteoff
            self.M[o:o + self.size] = bytes(self.size)
        for rel, b in enc(self.elem, t):
            o = self.lo + byteoff + rel
            self.M[o:o + len(b)] = b

    def _check_item(self, r, byteoff, what):
        """r = result of reading one item that the model places at byteoff."""
        want = dec(self.elem, self.M, self.lo + byteoff)
        if self.elem == "S":
            ffi = self.ffi
            try:
                got = (r.a, r.b)
                a = self.addr(ffi.addressof(r))
            except Exception as e:
                return self._bad("read-result", what=what, error=repr(e))
            if got != want or a != self.base_addr + byteoff:
                return self._bad("read-value", what=what, got=repr(got), want=repr(want),
                                 addr_delta=a - self.base_addr, want_delta=byteoff)
            return None
        if self.elem == "row":
            # the item is an array: the result must be an int[2] VIEW of the parent's bytes
            ffi = self.ffi
            try:
                t = ffi.typeof(r)
                got = [r[0], r[1]] if t is ffi.typeof("int[2]") else None
                a = self.addr(r)
            except Exception as e:
                return self._bad("read-result", what=what, error=repr(e))
            if got != want or a != self.base_addr + byteoff:
                return self._bad("read-value", what=what, got=repr(got), want=repr(want), type=t.cname,
                                 addr_delta=a - self.base_addr, want_delta=byteoff)
            return None
        if self.elem == "pp":
            ffi = self.ffi
            try:
                t = ffi.typeof(r)
                got = self.addr(r)
            except Exception as e:
                return self._bad("read-result", what=what, error=repr(e))
            if t is not ffi.typeof("int *") or got != want:
                return self._bad("read-value", what=what, got=got, want=want, type=t.cname)
            return None
        if r != want or type(r) is not type(want):
            return self._bad("read-value", what=what, got=repr(r), want=repr(want))
        return None

    def _make_src(self, src, L):
        """-> (source object, number of values it holds, value index base)"""
        ffi, elem = self.ffi, self.elem
        if src in ("list", "iter", "cdata", "bytes", "bytearray", "str"):
            cnt = L
        elif src in ("short", "itershort", "cdshort", "bytesshort", "strshort"):
            cnt = L - 1
        else:
            cnt = L + 1
        tb = {"list": 0, "short": 0, "long": 0, "iter": 1, "itershort": 1, "iterlong": 1,
              "cdata": 2, "cdshort": 2, "cdlong": 2, "bytes": 3, "bytesshort": 3, "byteslong": 3, "bytearray": 4,
              "str": 3, "strshort": 3, "strlong": 3}[src]
        vals = [pyval(elem, tb + k, ffi) for k in range(cnt)]
        if src in ("list", "short", "long"):
            o = vals
        elif src.startswith("iter"):
            o = iter(vals)
        elif src.startswith("cd"):
            o = ffi.new(self.open_t, vals)
        elif src.startswith("str"):
            o = "".join(vals)
        else:
            b = bytes(vals) if elem == "uchar" else b"".join(vals)
            o = b if src.startswith("bytes") else bytearray(b)
        return o, cnt, tb

    # -- the step ----------------------------------------------------------------
    def apply(self, op):
        if self.lvl and op not in ops_for(self.elem, self.total, self.view, 0):
            self.noncore += 1
        elem0 = self.elem
        info = self._apply(op)
        if info is None:
            info = self._memcheck("after-" + op[0])
        if info is not None:
            info["op"] = list(op)
            info["cfg"] = list(self.cfg)
            info["elem"] = elem0
        return info

    def _apply(self, op):
        ffi = self.ffi
        kind, off, n = self.view
        size = self.size
        cur = self.cur
        name = op[0]
        total = self.total

        if name in ("rd", "wr"):
            i = op[1]
            if kind == "arr":
                ok = 0 <= i < n
            elif kind == "own":
                ok = i == 0
            else:
                ok = True           # plain pointer: enabled() only offers in-bounds indices
                if not (0 <= off + i * size and off + (i + 1) * size <= total):
                    raise InfraError("pointer index outside the model: %r %r" % (self.view, op))
            cls = "%s/%s/%s" % (name, kind, "ok" if ok else ("neg-beyond-ssize_t" if i < -BIG else "neg" if i < 0
                                                              else "big" if i >= MAXS else "high"))
            if self.elem not in ("int", "char", "llong", "S"):
                cls += "/" + self.elem
            self.last_class = cls
            try:
                if name == "rd":
                    r = cur[i]
                else:
                    cur[i] = pyval(self.elem, op[2], ffi)
                exc = None
            except Exception as e:
                exc = e.with_traceback(None)
            if ok:
                if exc is not None:
                    return self._bad("rejects-valid-index", i=i, error=repr(exc))
                if name == "rd":
                    bad = self._check_item(r, off + i * size, "x[i]")
                    if bad is None and self.elem == "row":
                        # x[i] of an int[n][2] is an int[2] view of the parent: continue INSIDE that view
                        self.cur = r
                        self._set_elem("int")
                        self.view = ("arr", off + i * size, 2)
                    return bad
                self._store_model(off + i * size, op[2])
                return None
            if exc is None:
                return self._bad("accepts-bad-index", i=i, n=n)
            if not isinstance(exc, IndexError):
                return self._bad("wrong-exception-index", i=i, n=n, error=repr(exc),
                                 cls="beyond-ssize_t" if abs(i) > MAXS else "in-ssize_t")
            return None

        if name in ("sl", "ss"):
            i, j, step = op[1], op[2], op[3]
            if kind == "arr":
                ok = slice_ok(i, j, step, n)
                pfx = ""
            elif kind == "own":
                ok = slice_ok(i, j, step, 1)        # an owning pointer owns exactly item 0
                pfx = "own/"
            else:
                ok = ptr_slice_ok(i, j, step)       # no bounds; enabled() only offers slices inside the model
                pfx = "ptr/"
                if ok and not (0 <= off + i * size and off + j * size <= total):
                    raise InfraError("pointer slice outside the model: %r %r" % (self.view, op))
            if ok:
                scl = "ok-empty" if i == j else "ok-full" if kind == "arr" and (i, j) == (0, n) else \
                    "ok-negstart" if i < 0 else "ok-part"
            elif step is not None:
                scl = "step"
            elif i is None or j is None:
                scl = "none"
            elif max(abs(i), abs(j)) > MAXS:
                scl = "beyond-ssize_t"
            elif i > j:
                scl = "start>stop"
            elif i < 0:
                scl = "neg"
            else:
                scl = "stop>n"
            scl = pfx + scl
            key = slice(i, j, step)
            if name == "sl":
                self.last_class = "sl/" + scl
                try:
                    r = cur[key]
                    exc = None
                except Exception as e:
                    exc = e.with_traceback(None)
                if not ok:
                    if exc is None:
                        return self._bad("accepts-bad-slice", slice=[i, j, step], n=n, vkind=kind)
                    if not isinstance(exc, IndexError):
                        return self._bad("wrong-exception-slice", slice=[i, j, step], n=n, error=repr(exc), cls=scl)
                    return None
                if exc is not None:
                    return self._bad("rejects-valid-slice", slice=[i, j, step], n=n, error=repr(exc), vkind=kind)
                t = ffi.typeof(r)
                if t.kind != "array" or t.item is not ffi.typeof(self.cname) or len(r) != j - i or \
                        self.addr(r) != self.base_addr + off + i * size:
                    return self._bad("slice-result", slice=[i, j], type=t.cname, length=len(r) if t.kind == "array" else None,
                                     addr_delta=self.addr(r) - self.base_addr, want_delta=off + i * size, want_len=j - i,
                                     vkind=kind)
                # reading through the fresh view sees the model's elements i..j-1
                for k in _dedupe([0, j - i - 1]):
                    if 0 <= k < j - i:
                        bad = self._check_item(r[k], off + (i + k) * size, "x[i:j][k]")
                        if bad:
                            return bad
                self.cur = r
                self.view = ("arr", off + i * size, j - i)
                return None
            # slice assignment
            src = op[4]
            L = (j - i) if ok else 2
            if src in SELF_SRCS:
                return self._ass_overlap(i, j, src, scl)
            o, cnt, tb = self._make_src(src, L)
            self.keep.append(o)
            self.last_class = "ss/%s/%s" % (scl, src if ok else "-")
            try:
                cur[key] = o
                exc = None
            except Exception as e:
                exc = e.with_traceback(None)
            if not ok:
                if exc is None:
                    return self._bad("accepts-bad-slice-assign", slice=[i, j, step], n=n, vkind=kind)
                if not isinstance(exc, IndexError):
                    return self._bad("wrong-exception-slice", slice=[i, j, step], n=n, error=repr(exc), cls=scl)
                return None
            if cnt == L:
                if exc is not None:
                    return self._bad("rejects-valid-slice-assign", slice=[i, j], src=src, error=repr(exc), vkind=kind)
                for k in range(L):
                    self._store_model(off + (i + k) * size, tb + k, whole=src.startswith("cd"))
                return None
            if exc is None:
                return self._bad("slice-assign-wrong-count-accepted", slice=[i, j], src=src, given=cnt, need=L,
                                 vkind=kind)
            # The statement requires the error; it does not say the target items are left alone.
            # Bytes outside the target items must be untouched; inside, adopt what is there.
            a = self.actual()
            lo = self.lo + off + i * size
            hi = self.lo + off + j * size
            self.M[lo:hi] = a[lo:hi]
            return None

        if name in ("add", "sub", "radd"):
            i = op[1]
            d = -i if name == "sub" else i
            fits = _fits(d * size) and _fits(i)
            self.last_class = "%s/%s%s" % (name, "fits" if fits else "offset-overflow(excluded)",
                                           "/void" if self.elem == "void" else "")
            try:
                r = (cur + i) if name == "add" else (cur - i) if name == "sub" else (i + cur)
            except Exception as e:
                if fits:
                    return self._bad("arith-raises", op=name, i=i, error=repr(e))
                return None
            if not fits:
                return None      # C has no answer for an offset that overflows ptrdiff_t: executed, not compared
            t = ffi.typeof(r)
            if t is not ffi.typeof(self.ptr_t):
                return self._bad("arith-type", op=name, i=i, type=t.cname)
            want = (self.base_addr + off + d * size) % 2 ** 64
            if self.addr(r) != want:
                return self._bad("arith-address", op=name, i=i, delta=self.addr(r) - self.base_addr, want_delta=off + d * size)
            # (p+i) - p == i      (p may be an array only on the right-hand side: ptr - array is allowed)
            try:
                back = r - cur
            except Exception as e:
                return self._bad("ptrdiff-raises", i=i, error=repr(e))
            if back != d:
                return self._bad("ptrdiff-value", got=back, want=d)
            if 0 <= off + d * size <= self.total:
                self.cur = r
                self.view = ("ptr", off + d * size, None)
            return None

        if name == "rsub":
            # int - pointer has no meaning in C: TypeError, and nothing else happens
            self.last_class = "rsub"
            try:
                r = op[1] - cur
            except TypeError:
                return None
            except Exception as e:
                return self._bad("rsub-wrong-exception", error=repr(e))
            return self._bad("rsub-accepted", got=repr(r))

        if name == "diff":
            i, j = op[1], op[2]
            self.last_class = "diff" + ("/void" if self.elem == "void" else "")
            try:
                got = (cur + i) - (cur + j)
            except Exception as e:
                return self._bad("ptrdiff-raises", i=i, j=j, error=repr(e))
            if got != i - j:
                return self._bad("ptrdiff-value", i=i, j=j, got=got, want=i - j)
            return None

        if name == "addressof":
            i = op[1]
            fits = _fits(i) and _fits(i * size)
            self.last_class = "addressof/%s" % ("fits" if fits else "offset-overflow(excluded)")
            try:
                r = ffi.addressof(cur, i)
            except Exception as e:
                if fits:
                    return self._bad("addressof-raises", i=i, error=repr(e))
                return None
            if not fits:
                return self._bad("addressof-overflow-accepted", i=i)
            t = ffi.typeof(r)
            same = (r == cur + i)
            if t is not ffi.typeof(self.ptr_t) or not same or \
                    self.addr(r) != (self.base_addr + off + i * size) % 2 ** 64:
                return self._bad("addressof-value", i=i, type=t.cname, equal=same,
                                 delta=self.addr(r) - self.base_addr, want_delta=off + i * size)
            return None

        if name == "offsetof":
            i = op[1]
            fits = _fits(i) and _fits(i * size)
            self.last_class = "offsetof/%s" % ("fits" if fits else "overflow")
            try:
                r = ffi.offsetof(self.open_t, i)
            except Exception as e:
                if fits:
                    return self._bad("offsetof-raises", i=i, error=repr(e))
                return None
            if r != i * size or i * size != i * ffi.sizeof(self.cname):
                return self._bad("offsetof-value", i=i, got=r, want=i * size)
            return None

        raise InfraError("unknown op %r" % (op,))

    def _ass_overlap(self, i, j, src, scl):
        """x[i:j] = x[i+d:j+d] (same item type and length: one memmove) and x[i:j] = iter(x[i+d:j+d])
        (items are read one by one while the target is being written), d = +1 / -1.  The source is a
        live view of the same bytes, so the expected result follows from aliasing alone."""
        kind, off, n = self.view
        size = self.size
        L = j - i
        d = 1 if src.endswith("+1") else -1
        self.last_class = "ss/%s/%s/%s" % (scl, src, "overlap" if L >= 2 else "adjacent")
        lo = self.lo + off + i * size
        slo = self.lo + off + (i + d) * size
        old = bytes(self.M)
        snapshot = old[slo:slo + L * size]                      # what a memmove / a materialised source gives
        try:
            o = self.cur[i + d:j + d]
            if src.startswith("iter"):
                o = iter(o)
            self.keep.append(o)
            self.cur[i:j] = o
        except Exception as e:
            return self._bad("rejects-valid-slice-assign", slice=[i, j], src=src, error=repr(e), vkind=kind)
        want = [snapshot]
        if src == "iterself-1":
            # lazily reading x[i-1], x[i], ... while writing x[i], x[i+1], ... propagates the first item.
            # The statement does not say whether an iterator is drained before the first store, so both
            # the lazy and the materialised result are accepted (and nothing else).
            want.append(old[slo:slo + size] * L)
        a = self.actual()
        got = a[lo:lo + L * size]
        if got not in want:
            return self._bad("overlap-assign-result", slice=[i, j], src=src, vkind=kind, got=got.hex(),
                             want=[w.hex() for w in want])
        if src == "iterself-1" and L >= 2:
            self.last_class = "ss/%s/%s(%s)/overlap" % (scl, src, "materialised" if got == snapshot else "lazy")
        self.M[lo:lo + L * size] = got
        return None

    def close(self):
        return None


# ---------------------------------------------------------------------------
# driver

class MemJournal(object):
    """Drop-in for the file hist._note() writes to (seek/write/truncate/flush), backed by a
    shared file mapping: no system call per transition, and the driver can still read the last
    history after the worker died."""

    SIZE = 8192

    def __init__(self, path):
        import mmap
        with open(path, "wb") as f:
            f.write(b"\0" * self.SIZE)
        self.f = open(path, "r+b")
        self.m = mmap.mmap(self.f.fileno(), self.SIZE)

    def seek(self, pos):
        pass

    def write(self, s):
        b = s.encode()[:self.SIZE - 1]
        self.m[0:len(b) + 1] = b + b"\0"

    def truncate(self):
        pass

    def flush(self):
        pass

    def close(self):
        self.m.close()
        self.f.close()

    @staticmethod
    def read(path):
        try:
            with open(path, "rb") as f:
                return f.read().split(b"\0", 1)[0].decode().strip() or None
        except OSError:
            return None


def _work(item):
    """Runs in a pool worker: explore one (cfg, prefix) sub-tree with hist.explore."""
    pname, cfg, prefix, depth, d0 = item
    _COUNTS.clear()
    _CUR[0] = None
    hist._journal = MemJournal(hist._journal_path(item))
    try:
        st = hist.explore(Sys, cfg, depth, d0, prefix, True)
    finally:
        hist._journal.close()
        hist._journal = None
    _flush()
    return st, dict(_COUNTS)


def run_contained(jobs, split):
    """hist.run_parallel for several passes at once.  jobs = [(pass name, cfg, depth, d0)].  Differences:
    (a) the shallow part (histories no longer than `split`) is also executed inside pool workers, so a crash
    at depth 1 is contained and reported; (b) a violation on one shallow history does not stop the exploration
    below the other prefixes; (c) the passes share the two pool start-ups (shallow stage, deep stage).
    Returns {pass name: (Stats, class counts, crashes, samples)}."""
    res = {}
    for pname, cfg, depth, d0 in jobs:
        res.setdefault(pname, (hist.Stats(), {}, [], []))

    def drain(items):
        done = {}
        # a few blocks per worker (interleaved): one pipe round trip per block, not per sub-tree
        nb = max(1, min(len(items), pool.NPROC * 4))
        for item, r in pool.pmap(_work, [items[k::nb] for k in range(nb)]):
            total, counts, crashes, samples = res[item[0]]
            if isinstance(r, pool.WorkerError):
                raise InfraError(r.tb)
            if isinstance(r, pool.Crash):
                crashes.append((item, r, MemJournal.read(hist._journal_path(item))))
                continue
            st, cnt = r
            total.merge(st)
            if st.samples and len(samples) < 200:
                samples.append((list(item[1]), st.samples[-1]))
            for k, v in cnt.items():
                counts[k] = counts.get(k, 0) + v
            done.setdefault((item[0], item[1]), set()).update(h for h, info in st.violations)
        return done

    done = drain([(pname, cfg, (), min(split, depth), min(d0, split, depth)) for pname, cfg, depth, d0 in jobs])
    items = []
    for pname, cfg, depth, d0 in jobs:
        sd = min(split, depth)
        if depth > sd and (pname, cfg) in done:
            # replaying these prefixes in the driver is safe: the same executions just ran in a worker
            for p in hist.prefixes(Sys, cfg, sd):
                if not any(p[:k] in done[(pname, cfg)] for k in range(1, len(p) + 1)):
                    items.append((pname, cfg, p, depth, d0))
    _flush()
    if items:
        drain(items)
    return res


ANY = 99


def _passes(ctx):
    # (name, alphabet level, max ops outside the core alphabet per history, depth, d0)
    if ctx.quick:
        return [("wide", 2, 1, 2, 2), ("core", 0, 0, 3, 1)]
    return [("wide2", 2, ANY, 2, 2), ("wide3", 2, 1, 3, 3), ("narrow", 1, ANY, 3, 3), ("deep", 0, 0, 5, 2)]


def run(ctx):
    from . import _large
    _large.c16(ctx)           # lengths on both sides of 2**8, 2**12, 2**16 (see _large.py)
    for k in FFIKINDS:
        get_ffi(k)          # build both FFI objects before forking the workers
    cov_pass = {}
    tot_states = tot_trans = 0
    maxd = 0
    jobs = []
    ncfg = {}
    for pname, lvl, budget, depth, d0 in _passes(ctx):
        # wide3: the six shapes of DESIGN.md only (cost); every other pass: both shape lists
        shapes = SHAPES[:6] if pname == "wide3" else SHAPES + SHAPES2
        for fk in FFIKINDS:
            for sh in shapes:
                jobs.append((pname, (lvl, budget, fk) + sh, depth, d0))
        ncfg[pname] = len(FFIKINDS) * len(shapes)
    res = run_contained(jobs, split=1)
    for pname, lvl, budget, depth, d0 in _passes(ctx):
        st, counts, crashes, samples = res[pname]
        ctx.log("pass %s: depth=%d d0=%d states=%d transitions=%d merged=%d violations=%d crashes=%d" % (
            pname, depth, d0, st.states, st.transitions, st.merged, len(st.violations), len(crashes)))
        for k, v in sorted(counts.items()):
            ctx.count(k, v)
            # the families added after the audit, summed over their classes
            parts = k.split("/")
            if parts[0] in ("sl", "ss") and parts[1] == "ptr":
                ctx.count("family/plain-pointer-slice-transitions", v)
            if parts[0] in ("sl", "ss") and parts[1] == "own":
                ctx.count("family/owning-pointer-slice-transitions", v)
            if parts[0] == "ss" and parts[-1] in ("overlap", "adjacent"):
                ctx.count("family/self-overlapping-slice-assign-transitions", v)
            if parts[0] == "shape2":
                ctx.count("family/second-shape-list-transitions", v)
            if parts[0] in ("radd", "rsub"):
                ctx.count("family/reflected-arithmetic-transitions", v)
        for h, info in st.violations:
            ctx.violation(_sig(info), {"history": [list(o) for o in h], "info": info, "cfg": info.get("cfg")})
        for item, cr, last in crashes:
            ctx.violation({"kind": "crash", "pass": pname}, {"cfg": list(item[1]), "prefix": [list(o) for o in item[2]],
                                                             "last_history": last, "how": cr.describe(),
                                                             "confirmed": cr.confirmed})
        for c, h in samples:
            ctx.sample({"pass": pname, "cfg": c, "history": h})
        cov_pass[pname] = {"alphabet": ["core", "narrow", "wide"][lvl], "max_depth": depth, "unmerged_depth_d0": d0,
                           "max_noncore_ops_per_history": "unbounded" if budget == ANY else budget,
                           "states": st.states, "transitions": st.transitions, "merged": st.merged,
                           "replayed_op_applications": st.replayed, "configs": ncfg[pname],
                           "by_depth": {str(k): v for k, v in sorted(st.by_depth.items())},
                           "ops": dict(sorted(st.op_hist.items()))}
        tot_states += st.states
        tot_trans += st.transitions
        maxd = max(maxd, st.max_depth)
    asz = {nm: len(ops_for("int", 16, ("arr", 0, 4), l)) for l, nm in enumerate(["core", "narrow", "wide"])}
    cov = {
        "states": tot_states,
        "transitions": tot_trans,
        "traces_validated_against_impl": tot_trans,
        "max_depth": maxd,
        "unmerged_depth_d0": {k: v["unmerged_depth_d0"] for k, v in cov_pass.items()},
        "exhaustive": True,
        "passes": cov_pass,
        "alphabet_sizes_on_int4": asz,
        "shapes": [list(s) for s in SHAPES],
        "shapes2": [list(s) for s in SHAPES2],
        "ffi_kinds": list(FFIKINDS),
        "rule": "every history of length <= depth over the enabled-op alphabet of each pass, for every shape x FFI "
                "kind; every transition executes the real cdata operation and compares acceptance, result and the "
                "whole memory image with the model; histories are never merged up to d0.  The alphabet of a pointer "
                "view contains its slices and slice assignments (class_histogram sl/ptr/*, ss/ptr/*, sl/own/*, "
                "ss/own/*), the alphabet of an array the self-overlapping sources (ss/*/self+1, self-1, iterself+1, "
                "iterself-1); the shapes of `shapes2` run in every pass except wide3 (shape2/* counts transitions "
                "per shape; family/* sums the added families)",
    }
    return ctx.finish(cov, [
        "byte model + view (kind, offset, length) is the reference; memory is observed through the backing "
        "bytearray (or ctypes.string_at for ffi.new storage), never through cffi indexing",
        "x+i, x-i, addressof(x, i) with an i*sizeof(T) that does not fit Py_ssize_t are executed but not compared "
        "(C pointer arithmetic is undefined there); offsetof must then raise rather than return a wrapped number",
        "after a slice assignment rejected for a wrong number of values, the target items x[i:j] may hold anything "
        "(the statement only requires the error); every other byte must be unchanged",
        "beyond d0 two histories with equal key() = (view, all model bytes, ctype name, length) are assumed to have "
        "the same futures in the implementation",
        "x[i:j] = iter(x[i-1:j-1]) (source read lazily while the target is written): both the lazily propagated "
        "and the materialised (memmove-like) result are accepted; the cdata spelling must give the memmove result",
        "owning-pointer slices follow the fix 3f358bb: within [0:1] only; plain pointers are unchecked, so only "
        "slices inside the model's bytes are executed",
    ])


def _sig(info):
    s = {"kind": info.get("kind")}
    if "cls" in info:
        s["cls"] = info["cls"]
    if "where" in info:
        s["where"] = info["where"]
    if info.get("op"):
        s["op"] = info["op"][0]
        if info["op"][0] == "ss" and info["op"][-1] in SELF_SRCS:
            s["src"] = info["op"][-1]
    # the families added after the audit carry the view kind / element kind, so that a finding on
    # pointer slices or on the second shape list is listed (and matched) separately
    if info.get("view") and info["view"][0] != "arr":
        s["vkind"] = info["view"][0]
    if info.get("elem") not in (None, "int", "char", "llong", "S"):
        s["elem"] = info["elem"]
    return s


def replay(detail):
    if detail.get("large"):
        from . import _large

        class _C(object):
            n = 0

            def count(self, *a):
                pass

            def violation(self, sig, d):
                _C.n += 1
                print("VIOLATED", sig, d)
        _large.c16(_C())
        return 1 if _C.n else 0
    if "history" not in detail or detail.get("cfg") is None:
        print("crash record (no single history to replay):", detail)
        return 1
    cfg = tuple(detail["cfg"])
    s = Sys(cfg)
    rc = 0
    print("cfg", cfg)
    for op in detail["history"]:
        op = tuple(op)
        if op not in s.enabled():
            print("op", op, "not enabled (diverged)")
            return 0
        info = s.apply(op)
        print("op", op, "->", "ok" if info is None else info, " view now", s.view)
        if info is not None:
            rc = 1
            break
    return rc
