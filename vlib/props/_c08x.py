"""C08 helpers: the declarator interpreter (the oracle of the extended suffix alphabet) and the
side families of ctypes that the C07 grammar does not reach.

The interpreter reads a declarator text x (abstract, or declaring the object `v`) the way C does
-- pointer prefixes, then the direct declarator with its postfixes, inside-out through grouping
parentheses -- and builds the denoted ctype from T with _cffi_backend.new_pointer_type /
new_array_type / new_function_type only.  It never looks at a type *name*.

Side families (all finite, fully enumerated; `spec` is a small constructor term that resolve()
turns into a ctype of one FFI, so that every case can be replayed):

  unnamed   ctypes whose struct/union/enum has neither a tag nor a typedef name of its own
            (`typedef struct {..} *p;`, `typedef struct {..} *p, n;`, the types of fields declared
            with an anonymous aggregate), plus controls that do have a name (`typedef struct
            {..} n;`, `typedef struct {..} n, *p;`, `typedef enum {..} n;`);
  prim      every key of cffi.model.PrimitiveType.ALL_PRIMITIVE_TYPES;
  bigarray  char[n], char(*)[n], char(*[n])(int) for n round 2**8, 2**16, 2**31, 2**32, 2**62;
  fnargs    function pointer types with three and more parameters, nested parameter lists,
            aggregate parameters/results, parameters written as arrays.
"""
import os
import re
import subprocess

from ..build import InfraError
from . import _typegrammar as G


# ---------------------------------------------------------------------------------------
# suffix alphabets

BASE_SUFFIXES = ["", "*", "[3]", "[]", "(*)(int)", "*[2]", "(*)[2]", "v", "*v", "v[2]"]

# white space round and inside the text (the text is stripped, and '[' / '(' as the first character AFTER the
# stripping must still suppress the blank); qualifiers; second level; named forms with grouping parentheses;
# parameter lists (void), (int, ...); for array T `*const` needs the parentheses `int(*const)[3]`
EXT_SUFFIXES = [" *", "* ", "\t*v\n", " [3]", " (*)(int)", " v ", "( * ) ( int )",
                "**", "*const", "* const v", "* volatile*", "*const*volatile v",
                "(*)", "(*v)(int)", "(*v)[2]", "(*const v)(int)", "(*v[2])(int)", "*v[2]", "v[]", "v[2][3]",
                "[2][3]", "[][3]", "(*)(void)", "(*)(int, ...)", "(*)(int, char *)", "*(*)(int)", "(*(*)(int))[2]",
                "(*(*)(int))(void)", "(**)(int)", "(*[2])(int)", "(*(*)[2])[3]"]

ALL_SUFFIXES = BASE_SUFFIXES + EXT_SUFFIXES


# ---------------------------------------------------------------------------------------
# the declarator interpreter

class NoSuchType(Exception):
    """The declarator applied to T denotes no (cffi) type: array of void, function returning an array, a bare
    function type that no pointer completes, ..."""


class InterpError(Exception):
    """The text is outside the interpreter's alphabet (a harness bug, never a statement about cffi)."""


_TOKEN = re.compile(r"\s*(\.\.\.|[A-Za-z_][A-Za-z_0-9]*|[0-9]+|[*()\[\],])")
_QUALS = ("const", "volatile")
_PARAM_BASES = ("int", "char", "double", "void")


def tokens_of(x):
    out = []
    i = 0
    x = x.rstrip()
    while i < len(x):
        m = _TOKEN.match(x, i)
        if not m:
            raise InterpError("cannot tokenize declarator %r at %d" % (x, i))
        out.append(m.group(1))
        i = m.end()
    return out


class _P(object):
    def __init__(self, toks):
        self.t = toks
        self.i = 0

    def peek(self, k=0):
        return self.t[self.i + k] if self.i + k < len(self.t) else None

    def take(self, want=None):
        tok = self.peek()
        if tok is None or (want is not None and tok != want):
            raise InterpError("declarator syntax: expected %r, found %r" % (want, tok))
        self.i += 1
        return tok

    def declarator(self):
        """-> (number of '*', inner declarator or None, [postfix])"""
        nptr = 0
        while self.peek() == "*":
            self.take()
            nptr += 1
            while self.peek() in _QUALS:
                self.take()
        inner = None
        if self.peek() == "(" and self.peek(1) in ("*", "(", "[", "v"):
            self.take("(")
            inner = self.declarator()
            self.take(")")
        elif self.peek() == "v":
            self.take()
            inner = (0, None, [])
        posts = []
        while True:
            if self.peek() == "[":
                self.take()
                n = None
                if self.peek() != "]":
                    n = int(self.take())
                self.take("]")
                posts.append(("array", n))
            elif self.peek() == "(":
                self.take()
                params, ellipsis = [], False
                while True:
                    if self.peek() == "...":
                        self.take()
                        ellipsis = True
                        break
                    base = self.take()
                    if base not in _PARAM_BASES:
                        raise InterpError("parameter base type %r" % (base,))
                    params.append((base, self.declarator()))
                    if self.peek() != ",":
                        break
                    self.take(",")
                self.take(")")
                posts.append(("function", params, ellipsis))
            else:
                break
        return (nptr, inner, posts)


def parse_declarator(x):
    p = _P(tokens_of(x))
    d = p.declarator()
    if p.peek() is not None:
        raise InterpError("declarator syntax: trailing %r in %r" % (p.peek(), x))
    return d


def _apply(B, node, t):
    """t: ('ct', ctype) or ('fn', args, result ctype, ellipsis) -- the latter is C's function type, which cffi only
    has underneath a pointer."""
    nptr, inner, posts = node
    for _ in range(nptr):
        if t[0] == "fn":
            t = ("ct", B.new_function_type(t[1], t[2], t[3]))
        else:
            t = ("ct", B.new_pointer_type(t[1]))
    for post in reversed(posts):
        if t[0] == "fn":
            raise NoSuchType("array of functions / function returning a function")
        if post[0] == "array":
            try:
                t = ("ct", B.new_array_type(B.new_pointer_type(t[1]), post[1]))
            except (ValueError, TypeError, OverflowError) as e:
                raise NoSuchType(str(e))
        else:
            args = []
            for base, decl in post[1]:
                if base == "void":
                    a = _apply(B, decl, ("ct", B.new_void_type()))
                else:
                    a = _apply(B, decl, ("ct", B.new_primitive_type(base)))
                if a[0] != "ct":
                    raise InterpError("parameter of function type: not in the interpreter's alphabet")
                args.append(a[1])
            if len(args) == 1 and not post[2] and args[0].kind == "void":
                args = []                # (void)
            for a in args:
                if a.kind not in ("primitive", "pointer"):
                    raise InterpError("parameter of kind %s: not in the interpreter's alphabet" % a.kind)
            t = ("fn", tuple(args), t[1], post[2])
    if inner is not None:
        t = _apply(B, inner, t)
    return t


_PARSED = {}


def denote(T, x):
    """The ctype that `T x` declares / names.  NoSuchType when there is none."""
    import _cffi_backend as B
    node = _PARSED.get(x)
    if node is None:
        node = _PARSED[x] = parse_declarator(x)
    try:
        t = _apply(B, node, ("ct", T))
        if t[0] != "ct":
            raise NoSuchType("a function type, not a pointer to one")
    except (TypeError, ValueError, OverflowError, NotImplementedError) as e:
        # the backend's constructors refuse: function returning an array, array of an incomplete type, ...
        raise NoSuchType(str(e))
    return t[1]


# ---------------------------------------------------------------------------------------
# the context of the side families

EXTRA_DECLS = """
typedef struct { int x; } *td_np;
typedef union { int u; double w; } *td_up;
typedef enum { Q0, Q1 } *td_ep;
typedef struct { short s; } *td_cp, td_c;
struct SA { struct { int q; } in; enum { A0, B0 } e; union { int a; float b; } un; struct { int z; } *pin; };
typedef struct { short s; char t; } td_b, *td_bp;
typedef enum { R0, R1, R2 } td_e;
"""
XDECLS = G.DECLS + EXTRA_DECLS

HEADERS = ["stdio.h", "stddef.h", "stdint.h", "stdbool.h", "uchar.h", "wchar.h", "sys/types.h"]
# _cffi_float_complex_t / _cffi_double_complex_t are the names under which cffi exports C's complex types (they
# are what cffi's own _cffi_include.h declares, see also C06's GCC_SPELL): the declaration is compiled in a
# context that declares them, as `struct S v;` is compiled next to the declaration of struct S.  What is checked
# is then that the object has the size of C's `float _Complex` / `double _Complex`.
XHEAD = ("".join("#include <%s>\n" % h for h in HEADERS)
         + "typedef float _Complex _cffi_float_complex_t;\ntypedef double _Complex _cffi_double_complex_t;\n"
         + XDECLS + "\n")


def make_pair(directory):
    import cffi
    tag = "%d_%d" % (os.getpid(), next(G._modcount))
    f = cffi.FFI()
    f.cdef(XDECLS)
    g = cffi.FFI()
    g.cdef(XDECLS)
    mod = G._emit_and_import(g, "_c08_x_" + tag, directory)
    return G.Pair("c08x", f, mod.ffi)


def resolve(ffi, spec):
    """Constructor term -> ctype of `ffi`.  Raises when the backend has no such type."""
    import _cffi_backend as B
    op = spec[0]
    if op == "typeof":
        return ffi.typeof(spec[1])
    if op == "item":
        return resolve(ffi, spec[1]).item
    if op == "field":
        return dict(ffi.typeof(spec[1]).fields)[spec[2]].type
    if op == "ptr":
        return B.new_pointer_type(resolve(ffi, spec[1]))
    if op == "arr":
        return B.new_array_type(B.new_pointer_type(resolve(ffi, spec[1])), spec[2])
    if op == "fn":
        return B.new_function_type(tuple(resolve(ffi, a) for a in spec[1]), resolve(ffi, spec[2]), False)
    raise ValueError(spec)


def _wrapped(base):
    i = ["typeof", "int"]
    return [base, ["ptr", base], ["ptr", ["ptr", base]], ["arr", base, 3], ["arr", ["ptr", base], None],
            ["fn", [base], i], ["fn", [i, ["ptr", base]], base], ["ptr", ["arr", base, 2]]]


UNNAMED_BASES = [
    ["typeof", "td_np"], ["item", ["typeof", "td_np"]],
    ["typeof", "td_up"], ["item", ["typeof", "td_up"]],
    ["typeof", "td_ep"], ["item", ["typeof", "td_ep"]],
    ["typeof", "td_cp"], ["typeof", "td_c"],
    ["field", "struct SA", "in"], ["field", "struct SA", "e"], ["field", "struct SA", "un"],
    ["field", "struct SA", "pin"], ["item", ["field", "struct SA", "pin"]],
    # controls: anonymous bodies that do get a name of their own
    ["typeof", "td_a"], ["typeof", "td_b"], ["typeof", "td_bp"], ["typeof", "td_e"], ["typeof", "struct SA"],
]

BIG_LENGTHS = [255, 256, 65535, 65536, 2 ** 31 - 1, 2 ** 31, 2 ** 32 - 1, 2 ** 32 + 1, 2 ** 62, 2 ** 63 - 1]
BIG_FORMS = ["char[%d]", "char(*)[%d]", "char(*[%d])(int)", "short[%d]", "char[2][%d]"]

FNARGS = [
    "int(*)(int, char *, double, struct S)",
    "void(*)(int, int, int, ...)",
    "int(*)(int(*)(int, int), int)",
    "struct S(*)(union U *, enum E, td_a, td_s *, long)",
    "int(*)(int[3], char[], int(*)[2], int(int))",
    "void *(*(*)(int, long, short, char, float, double))(unsigned, ...)",
    "td_p(*)(td_i, td_p, td_s, td_a, struct S *, union U *, enum E *, void *)",
    "int(*(*)(int, int, int))[4]",
]


def families(quick):
    """-> [(family, spec)], every FFI gets all of them."""
    out = []
    for b in UNNAMED_BASES:
        for s in _wrapped(b):
            out.append(("unnamed", s))
    from cffi import model
    for n in sorted(model.PrimitiveType.ALL_PRIMITIVE_TYPES):
        out.append(("prim", ["typeof", n]))
    for n in BIG_LENGTHS:
        for form in BIG_FORMS:
            out.append(("bigarray", ["typeof", form % n]))
    for s in FNARGS:
        out.append(("fnargs", ["typeof", s]))
    return out


# ---------------------------------------------------------------------------------------
# gcc for the side families: nothing is executed, so that objects of any size can be declared

GCC_MAX_DECLS = 400


def gcc_static_sizes(items, workdir, tag, head=XHEAD):
    """items: [(declaration text, expected size)].  Each declaration becomes the only statement of a function of
    its own, followed by a _Static_assert on sizeof(v); gcc's first error on the line classifies the item.
    -> ['ok' | ('rejected', msg) | ('sizeof_differs', msg)]"""
    path = os.path.join(workdir, "s%s.c" % tag)
    nhead = head.count("\n")
    lines = ['void f%d(void) { %s; _Static_assert(sizeof(v) == %dULL, "sizeof"); }\n' % (i, d, size)
             for i, (d, size) in enumerate(items)]
    with open(path, "w") as f:
        f.write(head + "".join(lines))
    p = subprocess.run(["gcc", "-w", "-O0", "-fsyntax-only", path], stdout=subprocess.PIPE,
                       stderr=subprocess.STDOUT, text=True)
    res = ["ok"] * len(items)
    nerr = 0
    for line in p.stdout.splitlines():
        m = re.match(r".*?\.c:(\d+):\d+: error: (.*)", line)
        if not m:
            continue
        nerr += 1
        k = int(m.group(1)) - nhead - 1
        if not 0 <= k < len(items):
            raise InfraError("gcc reports an error outside the declarations:\n" + p.stdout[-1500:])
        if res[k] == "ok":
            if m.group(2).startswith("static assertion failed"):
                res[k] = ("sizeof_differs", m.group(2)[:200])
            else:
                res[k] = ("rejected", m.group(2)[:200])
    if (p.returncode != 0) != (nerr > 0):
        raise InfraError("gcc status %d with %d error lines:\n%s" % (p.returncode, nerr, p.stdout[-1500:]))
    return res
