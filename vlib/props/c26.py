"""C26 -- ffi.init_once under all interleavings (engine E3).

Both implementations (cffi.api.FFI.init_once, pure Python; ffi_init_once in C via
_cffi_backend.FFI of the shim build) are driven by 2-3 real threads under the
baton scheduler of vlib/sched.py; every schedule within the preemption bound is
executed and its event log judged by a monitor transcribed from the statement.
"""
import itertools
import sys
import threading
import time

from .. import pool, sched
from ..build import InfraError

ID = "C26"
LEVEL = "model_checking"
META = dict(
    engine="E3-sched", level="model_checking",
    technique="stateless model checking of the real implementations: all thread schedules up to a preemption bound "
              "(iterative context bounding) under a controlled scheduler, judged by a monitor of the statement's clauses",
    text="2 and 3 real threads call init_once on one FFI object with every combination of succeeding/raising "
         "initialisers, with a shared tag, with distinct-but-equal tags whose __hash__/__eq__ are scheduling points, "
         "with two different tags, and (2 threads) with equal tags whose k-th comparison of the execution raises "
         "(k = 1..4).  The pure-Python implementation is preempted at every source line (thorough: "
         "every bytecode) and at every lock operation; the C implementation at its lock operations (compile-time "
         "interposition) and wherever it calls back into Python.  Every schedule with <= 2 (thorough 3) preemptions "
         "is executed; the 2-thread spaces are explored without bound where feasible.",
    note="sequentially consistent interleavings at the listed scheduling points; under the GIL C code between two "
         "such points is atomic, so for the C implementation the points are complete; a free-running pass with real "
         "locks guards against the scheduler's hand-offs hiding an unsynchronised access")


class InitErr(Exception):
    def __init__(self, owner):
        Exception.__init__(self, owner)
        self.owner = owner


class TagErr(Exception):
    pass


class Tag(object):
    """Distinct-but-equal tags whose hashing and comparison are scheduling points.  With ctl["fail_at"] = k the
    k-th comparison of the execution raises TagErr (a tag whose __eq__ can fail is a tag like any other)."""

    def __init__(self, s, name, ctl=None):
        self.s = s
        self.name = name
        self.ctl = ctl

    def __hash__(self):
        self.s.point(("hash",))
        return 12345

    def __eq__(self, other):
        self.s.point(("eq",))
        if self.ctl is not None:
            self.ctl["n"] += 1
            if self.ctl["n"] == self.ctl["fail_at"]:
                raise TagErr(self.name)
        return isinstance(other, Tag) and other.name == self.name

    def __repr__(self):
        return "Tag(%s)" % self.name


def tag_groups(tagmode, n):
    """tag group index per thread"""
    if tagmode in ("shared", "eq") or tagmode.startswith("eqfail"):
        return [0] * n
    if tagmode == "two":
        return [0] * (n - 1) + [1]
    raise ValueError(tagmode)


def run_one(cfg, prefix):
    impl, n, fs, tagmode, opcodes = cfg
    import cffi
    import cffi.api
    import _cffi_backend
    s = sched.Sched(prefix)
    sched.SLock.sched = s
    groups = tag_groups(tagmode, n)
    if impl == "py":
        cffi.api.allocate_lock = sched.SLock
        ffi = cffi.FFI()
        codes = {cffi.api.FFI.init_once.__code__}
        tracer = sched.make_tracer(s, codes, opcodes=opcodes)
    else:
        ffi = _cffi_backend.FFI()
        tracer = None
        table = sched.CLockTable()

        def hook(what, addr):
            t = s.me()
            if t is None:
                return
            lk = table.get(addr)
            if what == "acquire":
                s.point(("c-acquire",), waiting_for=lk)
                if lk.held_by is not None:
                    raise InfraError("scheduler granted a held C lock")
                lk.held_by = t.tid
            else:
                lk.held_by = None
                s.point(("c-released",))
        sys._cffi_verif_sched = hook
    ctl = None
    if tagmode == "eq":
        tags = [Tag(s, "g0") for _ in range(n)]
    elif tagmode.startswith("eqfail"):
        ctl = {"n": 0, "fail_at": int(tagmode[6:])}
        tags = [Tag(s, "g0", ctl) for _ in range(n)]
    else:
        tags = ["tag%d" % g for g in groups]

    def make_f(i):
        def f():
            s.event("f_start", groups[i])
            s.point(("in-f",))
            if fs[i] == "ok":
                s.event("f_ok", groups[i], "val%d" % i)
                return "val%d" % i
            s.event("f_raise", groups[i])
            raise InitErr(i)
        return f
    fns = [make_f(i) for i in range(n)]

    def body(i):
        if tracer is not None:
            sys.settrace(tracer)
        s.point(("start",))
        try:
            r = ffi.init_once(fns[i], tags[i])
        except InitErr as e:
            sys.settrace(None)
            s.event("call_exc", groups[i], e.owner)
        except TagErr:
            sys.settrace(None)
            s.event("call_tagexc", groups[i])
        except sched.SchedAbort:
            raise
        except BaseException as e:
            sys.settrace(None)
            s.event("call_badexc", groups[i], type(e).__name__)
        else:
            sys.settrace(None)
            s.event("call_ret", groups[i], r)
    for i in range(n):
        s.spawn(body, i)
    try:
        s.run()
    finally:
        sched.SLock.sched = None
        if impl != "py":
            sys._cffi_verif_sched = None
    # sequential probe after all threads are done: is something cached?
    s.probe = {}
    if not s.deadlock:
        for g in sorted(set(groups)):
            ran = []

            def pf():
                ran.append(1)
                return "probe"
            if ctl is not None:
                ctl["fail_at"] = -1           # the probe's comparisons do not fail
            tg = Tag(s, "g0") if (tagmode == "eq" or ctl is not None) else "tag%d" % g
            try:
                r = ffi.init_once(pf, tg)
            except BaseException as e:
                r = "EXC:" + type(e).__name__
            s.probe[g] = (bool(ran), r)
    return s


def monitor(s, cfg):
    """Return list of violated clause names for this execution's event log."""
    impl, n, fs, tagmode, opcodes = cfg
    bad = []
    if s.errors:
        bad.append("harness-exception:%r" % (s.errors,))
    if s.deadlock:
        bad.append("blocks-forever")
        return bad
    active = {}
    done = {}
    done_by = {}
    own = {}       # tid -> 'ok' / 'raise' if its own f ran
    returned = set()
    # a call whose own f completed but which then ends with the tag's exception could not STORE its result (the
    # store compares the tag): that completion cannot count, from the moment it happened
    tagexc_tids = set(ev[0] for ev in s.log if ev[1] == "call_tagexc")
    for ev in s.log:
        tid, kind = ev[0], ev[1]
        g = ev[2]
        if kind == "f_start":
            if active.get(g, 0) > 0:
                bad.append("two-initialisers-active")
            if g in done:
                bad.append("initialiser-started-after-completion")
            active[g] = active.get(g, 0) + 1
            if tid in own:
                bad.append("initialiser-ran-twice-in-one-call")
            own[tid] = "running"
        elif kind == "f_ok" and tid in tagexc_tids:
            active[g] -= 1
            own[tid] = "ok"
        elif kind == "f_ok":
            active[g] -= 1
            if g in done:
                bad.append("two-normal-completions")
            done[g] = ev[3]
            done_by[g] = tid
            own[tid] = "ok"
        elif kind == "f_raise":
            active[g] -= 1
            own[tid] = "raise"
        elif kind == "call_ret":
            returned.add(tid)
            if g not in done:
                bad.append("returned-without-completion")
            elif ev[3] != done[g]:
                bad.append("returned-wrong-value")
            if own.get(tid) == "raise":
                bad.append("own-exception-swallowed")
        elif kind == "call_exc":
            returned.add(tid)
            if own.get(tid) != "raise" or ev[3] != tid:
                bad.append("foreign-exception-propagated")
        elif kind == "call_tagexc":
            # the lookup of this call's tag failed: the call ends with the tag's own exception (whatever its f did);
            # every other clause still holds for the execution.  If it is the STORE of this call's own result
            # that failed, that completion could not be recorded: it does not count (nothing else can be asked)
            returned.add(tid)
        elif kind == "call_badexc":
            returned.add(tid)
            bad.append("unexpected-exception:%s" % ev[3])
    if len(returned) != n:
        bad.append("call-did-not-finish")
    for g, (ran, r) in s.probe.items():
        if g in done:
            if ran or r != done[g]:
                bad.append("result-not-cached")
        else:
            if not ran or r != "probe":
                bad.append("failure-was-cached")
    return bad


def configs(ctx):
    out = []
    for impl in ("py", "c"):
        for n in (2, 3):
            for fs in itertools.product(("ok", "raise"), repeat=n):
                for tagmode in ("shared", "eq", "two"):
                    out.append((impl, n, fs, tagmode, False))
                if n == 2:
                    for k in (1, 2, 3, 4):
                        out.append((impl, n, fs, "eqfail%d" % k, False))
    if not ctx.quick:
        for n in (2, 3):
            for fs in itertools.product(("ok", "raise"), repeat=n):
                out.append(("py", n, fs, "shared", True))
    return out


_BOUND = {}


def work(cfg):
    bound, max_exec = _BOUND["b"](cfg)
    logs = set()
    viol = []
    sample = []

    def on_exec(s):
        bad = monitor(s, cfg)
        key = tuple(s.log)
        logs.add(key)
        if len(sample) < 1:
            sample.append({"cfg": cfg, "choices": list(s.choices), "log": [list(e) for e in s.log]})
        if bad:
            viol.append({"cfg": cfg, "choices": list(s.choices), "bad": sorted(set(bad)),
                         "log": [list(e) for e in s.log]})
            return len(viol) >= 3
        return False
    # determinism: the default schedule twice (opcode-level tracing first needs the adaptive
    # interpreter to settle: the first executions of a code object report other instruction offsets)
    if cfg[4]:
        for _ in range(4):
            run_one(cfg, [])
    a = run_one(cfg, [])
    b = run_one(cfg, [])
    if a.log != b.log or a.points != b.points:
        raise InfraError("non-deterministic replay for %r:\n%r\n%r" % (cfg, a.log, b.log))
    st = sched.explore(lambda p: run_one(cfg, p), bound, max_exec=max_exec, on_exec=on_exec)
    # a violating schedule must fail identically when replayed
    for v in viol:
        r = run_one(cfg, v["choices"])
        if sorted(set(monitor(r, cfg))) != v["bad"]:
            raise InfraError("violation did not reproduce on replay: %r" % (v,))
    st["bound"] = bound
    st["distinct_logs"] = len(logs)
    st["violations"] = viol
    st["sample"] = sample
    return st


def free_running(seconds):
    """Same bodies, real locks, no scheduler: guards against hand-off edges hiding a race."""
    import cffi
    import cffi.api
    import _cffi_backend
    from cffi.lock import allocate_lock as real_lock
    cffi.api.allocate_lock = real_lock
    t_end = time.time() + seconds
    rounds = 0
    bad = []
    while time.time() < t_end and not bad:
        for mk in (cffi.FFI, _cffi_backend.FFI):
            ffi = mk()
            rounds += 1
            n = 6
            lock = threading.Lock()
            state = {"active": 0, "max_active": 0, "ok": 0}
            res = [None] * n
            barrier = threading.Barrier(n)

            def f(i):
                with lock:
                    state["active"] += 1
                    state["max_active"] = max(state["max_active"], state["active"])
                time.sleep(0)
                with lock:
                    state["active"] -= 1
                if (i + rounds) % 3 == 0:
                    raise InitErr(i)
                with lock:
                    state["ok"] += 1
                return "v%d" % i

            def body(i):
                barrier.wait()
                try:
                    res[i] = ("ret", ffi.init_once(lambda: f(i), "t"))
                except InitErr as e:
                    res[i] = ("exc", e.owner)
            ths = [threading.Thread(target=body, args=(i,)) for i in range(n)]
            for t in ths:
                t.start()
            for t in ths:
                t.join(30)
            if any(t.is_alive() for t in ths):
                bad.append("free-running: a call did not return")
                break
            if state["max_active"] > 1:
                bad.append("free-running: two initialisers active")
            if state["ok"] > 1:
                bad.append("free-running: two normal completions")
            rets = set(r[1] for r in res if r[0] == "ret")
            if len(rets) > 1:
                bad.append("free-running: different results returned")
            for i, r in enumerate(res):
                if r[0] == "exc" and r[1] != i:
                    bad.append("free-running: foreign exception")
    return rounds, bad


def run(ctx):
    quick = ctx.quick

    heavy_fs = {("ok", "ok", "ok"), ("raise", "ok", "ok"), ("raise", "raise", "ok"), ("ok", "raise", "raise")}

    def bound_for(cfg):
        impl, n, fs, tagmode, opcodes = cfg
        if opcodes:
            return (2 if n == 2 else 1), None
        if n == 2:
            return (2 if quick else None), (None if quick else 300000)
        if quick:
            if impl == "c":
                return 2, None
            return (2 if (tagmode == "shared" and fs in heavy_fs) else 1), None
        return (3 if impl == "c" else 2), None
    _BOUND["b"] = bound_for
    cfgs = configs(ctx)
    opts = getattr(ctx, "opts", {})
    if "impl" in opts:              # development aid: restrict the configurations
        cfgs = [c for c in cfgs if c[0] == opts["impl"]]
    if "n" in opts:
        cfgs = [c for c in cfgs if c[1] == int(opts["n"])]
    if "tag" in opts:
        cfgs = [c for c in cfgs if c[3] == opts["tag"]]
    # heavy configs first
    cfgs.sort(key=lambda c: (-c[1], c[0]))
    tot_exec = tot_dec = 0
    distinct = 0
    capped = []
    nconf = 0
    for cfg, r in pool.pmap(work, [[c] for c in cfgs], contain_crashes=False, item_timeout=1500):
        if isinstance(r, pool.WorkerError):
            raise InfraError(r.tb)
        nconf += 1
        tot_exec += r["executions"]
        tot_dec += r["decisions"]
        distinct += r["distinct_logs"]
        ctx.count("impl_%s" % cfg[0], r["executions"])
        ctx.count("threads_%d" % cfg[1], r["executions"])
        ctx.count("tag_%s" % cfg[3], r["executions"])
        if r["capped"]:
            capped.append(list(cfg))
        for smp in r["sample"]:
            ctx.sample(smp)
        for v in r["violations"]:
            for clause in v["bad"]:
                ctx.violation({"clause": clause.split(":")[0], "impl": cfg[0]}, v)
    rounds, bad = free_running(3 if quick else 10)
    for b in bad:
        ctx.violation({"clause": b, "impl": "free-running"}, {"free_running": True, "what": b})
    cov = {
        "states": tot_dec,
        "transitions": tot_dec,
        "traces_validated_against_impl": tot_exec,
        "schedules": tot_exec,
        "evaluations": tot_exec,
        "distinct_nontrivial": distinct,
        "rule": "one evaluation = one complete schedule of one configuration (implementation x threads x ok/raise "
                "assignment x tag mode) executed on fresh objects; states = scheduling decisions visited; "
                "distinct_nontrivial = distinct observation logs (f start/end, returns, exceptions) summed over configurations",
        "configurations": nconf,
        "preemption_bound": {"3 threads": "2 (C impl; Python impl with shared tag for 4 of the 8 ok/raise assignments), 1 (Python impl otherwise)" if quick
                             else "3 (C impl), 2 (Python impl)",
                             "2 threads": 2 if quick else "unbounded (cap 300000 executions per configuration, reported if hit)",
                             "opcode level (thorough)": "2 (2 threads) / 1 (3 threads)"},
        "capped_configurations": capped,
        "exhaustive": not capped,
        "max_depth": None,
        "free_running_rounds": rounds,
    }
    del cov["max_depth"]
    return ctx.finish(cov, ["interleavings are sequentially consistent at the scheduling points",
                            "C implementation: lock operations are interposed at compile time (harness/sched_shim.h); "
                            "between scheduling points C code holds the GIL"])


def replay(detail):
    if detail.get("free_running"):
        rounds, bad = free_running(5)
        print(rounds, bad)
        return 1 if bad else 0
    cfg = detail["cfg"]
    cfg = (cfg[0], cfg[1], tuple(cfg[2]), cfg[3], cfg[4])
    s = run_one(cfg, detail["choices"])
    for e in s.log:
        print("  ", e)
    print("probe:", s.probe, "deadlock:", s.deadlock)
    bad = monitor(s, cfg)
    print("violated:", sorted(set(bad)))
    return 1 if bad else 0
