"""C15 -- character arrays and strings round-trip, including the terminator.

E1: every string of length <= n over a code-unit alphabet x the six character
element types x array lengths {len-1, len, len+1, len+3, open} x store paths
{ffi.new initializer (clearing and non-clearing allocator), item assignment of
a nested array, struct field assignment, function-argument conversion}, on
memory pre-filled with a non-zero unit.  Oracle: a unit-level model of C
strings (written units, exactly one terminator when shorter, later units
untouched; string() stops at the first zero within maxlen; unpack() returns
exactly n units), observed through the raw bytes of ffi.buffer.
"""
import itertools
import json
import os

from .. import build, cref, pool
from ..build import InfraError

ID = "C15"
LEVEL = "exploration"
META = dict(
    engine="E1-enum", level="exploration",
    technique="exhaustive enumeration of all short strings over a code-unit alphabet x element types x array "
              "lengths x store paths, compared unit by unit with a model of C strings",
    text="Every bytes/str of length <= 3 (thorough 4; 5 for byte types) over an alphabet that straddles every "
         "comparison of the converters (NUL, ASCII, 0x7F/0x80/0xFF, 0x100, both ends of both surrogate ranges, "
         "0xFFFF/0x10000, 0x10FFFF) is stored into char, signed char, unsigned char, wchar_t, char16_t and char32_t "
         "arrays one shorter (must raise), exactly as long, one and three longer than the string and open-ended, "
         "through ffi.new (zeroing and non-zeroing allocator), item assignment, field assignment and a pointer "
         "argument of a C function.  The raw units of the target and of its neighbours are compared with the model; "
         "ffi.string (array and pointer form, every interesting maxlen) and ffi.unpack are compared with the model "
         "applied to the units that are really in memory; the round trip ffi.string(ffi.new('T[]', s)) == s is "
         "checked for every s without a zero unit.",
    note="trusted: ffi.buffer() exposes the bytes of a cdata; gcc (helper library) for what a callee receives; the "
         "UTF-16 pairing rule of the model is the one the statement names")

ELEMS = [("char", "char", "b"), ("signed char", "schar", "b"), ("unsigned char", "uchar", "b"),
         ("wchar_t", "wchar", "w"), ("char16_t", "char16", "w"), ("char32_t", "char32", "w")]

# alphabets: one representative on each side of every comparison made by
# convert_array_from_object, _my_PyUnicode_AsChar16/32, _my_PyUnicode_FromChar16, b_string
BYTE_ALPH = (0x00, 0x01, 0x61, 0x7F, 0x80, 0xFF)
WIDE_ALPH = (0x0000, 0x0001, 0x0061, 0x00FF, 0x0100, 0xD7FF, 0xD800, 0xDBFF, 0xDC00, 0xDFFF, 0xE000, 0xFFFF,
             0x10000, 0x10FFFF)

FILL = {1: 0x5A, 2: 0x5A5A, 4: 0x05A5A5}      # non-zero in every byte a valid unit can have
FMT = {1: "B", 2: "H", 4: "I"}
MAXL = 13
LSPECS = ("too_short", "exact", "plus1", "plus3", "open")
PATHS = ("new", "new_dirty", "item", "field")


def bounds(quick):
    return {"b": 3 if quick else 5, "w": 3 if quick else 4}


# ---------------------------------------------------------------------------- model

def enc(w, cps):
    """Units that storing the string must write (no terminator)."""
    if w != 2:
        return list(cps)
    out = []
    for cp in cps:
        if cp > 0xFFFF:
            cp -= 0x10000
            out.append(0xD800 | (cp >> 10))
            out.append(0xDC00 | (cp & 0x3FF))
        else:
            out.append(cp)
    return out


def dec(w, cls, units):
    """Python value of a run of units (ffi.string / ffi.unpack on character types)."""
    if cls == "b":
        return bytes(units)
    if w == 2:
        out = []
        i = 0
        n = len(units)
        while i < n:
            u = units[i]
            if 0xD800 <= u <= 0xDBFF and i + 1 < n and 0xDC00 <= units[i + 1] <= 0xDFFF:
                out.append(chr(0x10000 + ((u & 0x3FF) << 10 | (units[i + 1] & 0x3FF))))
                i += 2
            else:
                out.append(chr(u))
                i += 1
        return "".join(out)
    return "".join(map(chr, units))


def dec_unpack(T, w, cls, units):
    if T == "signed char":
        return [u - 256 if u > 127 else u for u in units]
    if T == "unsigned char":
        return list(units)
    return dec(w, cls, units)


def adjacent_lone_pair(cps):
    return any(0xD800 <= a <= 0xDBFF and 0xDC00 <= b <= 0xDFFF for a, b in zip(cps, cps[1:]))


# ---------------------------------------------------------------------------- implementation side

class _St(object):
    pass


_ST = None
_SO = None


def helper_so():
    global _SO
    if _SO is None or not os.path.exists(_SO):
        with open(os.path.join(build.HARNESS, "c15_copy.c")) as f:
            _SO = cref.compile_so(f.read(), name="c15")
    return _SO


def state():
    global _ST
    if _ST is not None and _ST.pid == os.getpid():
        return _ST
    import ctypes
    import cffi
    st = _St()
    st.pid = os.getpid()
    so = helper_so()
    st.width = [1, 1, 1, ctypes.CDLL(so).c15_sizeof_wchar(), 2, 4]     # measured by gcc
    ffi = cffi.FFI()
    decl = []
    for ti, (T, suf, cls) in enumerate(ELEMS):
        decl.append("void c15_copy_%s(const %s *src, %s *dst, long n);" % (suf, T, T))
        for L in range(1, MAXL + 1):
            decl.append("struct c15_%d_%d { %s pre[2]; %s a[%d]; %s post[2]; };" % (ti, L, T, T, L, T))
    ffi.cdef("\n".join(decl))
    st.ffi = ffi
    st.lib = ffi.dlopen(so)
    st.copy = [getattr(st.lib, "c15_copy_" + suf) for _, suf, _ in ELEMS]
    st.fillbytes = b"\x5a"

    def alloc(nbytes):
        b = ffi.new("char[]", max(nbytes, 1))
        fb = st.fillbytes
        ffi.buffer(b)[0:nbytes] = (fb * (nbytes // len(fb) + 1))[:nbytes]
        return b
    st.dirty_new = ffi.new_allocator(alloc=alloc, free=None, should_clear_after_alloc=False)
    st.items = {}
    st.fields = {}
    _ST = st
    return st


def raw_units(ffi, cd, w):
    return memoryview(bytes(ffi.buffer(cd))).cast(FMT[w]).tolist()


def prefill(ffi, cd, w, count):
    ffi.buffer(cd)[:] = FILL[w].to_bytes(w, "little") * count


def exc_name(e):
    return type(e).__name__


def one(st, ti, cps, Lspec, path):
    """Execute one case.  Returns (list of (sig, info), classes)."""
    ffi = st.ffi
    T, suf, cls = ELEMS[ti]
    w = st.width[ti]
    fill = FILL[w]
    pyval = bytes(cps) if cls == "b" else "".join(map(chr, cps))
    units = enc(w, cps)
    n = len(units)
    ecls = "byte" if cls == "b" else "wide"
    probs = []
    L = {"too_short": n - 1, "exact": n, "plus1": n + 1, "plus3": n + 3, "open": n + 1, "pointer": n + 3}[Lspec]
    must_raise = Lspec == "too_short"
    arr = None
    err = None
    whole = None          # cdata whose buffer is the whole observed region
    if path in ("new", "new_dirty"):
        tname = "%s[]" % T if Lspec == "open" else "%s[%d]" % (T, L)
        prior = [0] * L if path == "new" else [fill] * L
        lo = 0
        try:
            if path == "new":
                arr = ffi.new(tname, pyval)
            else:
                st.fillbytes = fill.to_bytes(w, "little")
                arr = st.dirty_new(tname, pyval)
            whole = arr
        except Exception as e:
            err = e
        if arr is not None and Lspec == "open" and len(arr) != n + 1:
            probs.append(({"kind": "open_length", "elem": T, "path": path}, {"len": len(arr), "want": n + 1}))
            return probs          # the model below would index past the real allocation
    elif path == "item":
        key = (ti, L)
        x = st.items.get(key)
        if x is None:
            x = st.items[key] = ffi.new("%s[3][%d]" % (T, L))
        prefill(ffi, x, w, 3 * L)
        prior = [fill] * (3 * L)
        lo = L
        whole = x
        try:
            x[1] = pyval
        except Exception as e:
            err = e
        arr = x[1]
    elif path == "field":
        key = (ti, L)
        p = st.fields.get(key)
        if p is None:
            p = st.fields[key] = ffi.new("struct c15_%d_%d *" % (ti, L))
        prefill(ffi, p, w, L + 4)
        prior = [fill] * (L + 4)
        lo = 2
        whole = p
        try:
            p.a = pyval
        except Exception as e:
            err = e
        arr = p.a
    elif path == "arg":
        dst = ffi.new("%s[]" % T, L)
        prefill(ffi, dst, w, L)
        prior = [fill] * L
        lo = 0
        whole = dst
        try:
            st.copy[ti](pyval, dst, n + 1)
        except Exception as e:
            err = e
        arr = dst
    else:
        raise InfraError("unknown path %r" % (path,))

    base = {"elem": T, "path": path}
    if must_raise:
        if err is None:
            probs.append((dict(base, kind="accepted_too_long", cls=ecls), {"L": L, "units": units}))
        if path in ("item", "field"):
            obs = raw_units(ffi, whole, w)
            out = [i for i in range(len(obs)) if not (lo <= i < lo + L) and obs[i] != prior[i]]
            if out:
                probs.append((dict(base, kind="out_of_bounds_write", cls=ecls, when="rejected"),
                              {"L": L, "obs": obs, "prior": prior}))
        return probs
    if err is not None:
        probs.append((dict(base, kind="unexpected_exception", exc=exc_name(err), cls=ecls),
                      {"L": L, "error": "%s: %s" % (exc_name(err), err)}))
        return probs

    exp = list(prior)
    exp[lo:lo + n] = units
    if n < L:
        exp[lo + n] = 0
    obs = raw_units(ffi, whole, w)
    if len(obs) != len(exp):
        probs.append((dict(base, kind="size", cls=ecls), {"L": L, "obs": obs, "exp": exp}))
        return probs
    if obs != exp:
        diff = [i for i in range(len(exp)) if obs[i] != exp[i]]
        if any(not (lo <= i < lo + L) for i in diff):
            kind = "out_of_bounds_write"
        elif diff == [lo + n] and n < L and (obs[lo + n] == prior[lo + n] or path == "arg"):
            # the unit after the string kept its old value (for "arg": the callee saw a non-zero unit there)
            kind = "no_terminator"
        else:
            kind = "wrong_units"
        sig = {"kind": kind, "elem": ecls, "path": path}
        if kind != "no_terminator":
            sig["ctype"] = T
        probs.append((sig, {"L": L, "obs": obs, "exp": exp, "diff": diff}))

    # string()/unpack() against the units that are really there
    mem = obs[lo:lo + L]
    if max(mem, default=0) > 0x10FFFF:
        # only reachable after a store mismatch reported above: the units in memory are not
        # characters, so the model has no value for string()/unpack()
        return probs
    z = mem.index(0) if 0 in mem else L
    marks = sorted(m for m in {0, 1, n, n + 1, L} if 0 <= m <= L)

    def probe(kind, form, fn, want):
        try:
            got = fn()
        except Exception as e:
            probs.append(({"kind": kind, "form": form, "elem": T, "exc": exc_name(e)},
                          {"L": L, "mem": mem, "error": str(e), "want": want}))
            return
        try:
            same = type(got) is type(want) and got == want
        except Exception:
            same = False
        if not same:
            probs.append(({"kind": kind, "form": form, "elem": T}, {"L": L, "mem": mem, "got": got, "want": want}))

    probe("string", "array", lambda: ffi.string(arr), dec(w, cls, mem[:z]))
    for m in marks:
        probe("string", "array_maxlen", lambda: ffi.string(arr, m), dec(w, cls, mem[:min(z, m)]))
        probe("unpack", "array", lambda: ffi.unpack(arr, m), dec_unpack(T, w, cls, mem[:m]))
    if path in ("item", "arg"):
        ptr = ffi.cast("%s *" % T, arr)
        if z < L:
            probe("string", "pointer", lambda: ffi.string(ptr), dec(w, cls, mem[:z]))
        for m in marks:
            probe("string", "pointer_maxlen", lambda: ffi.string(ptr, m), dec(w, cls, mem[:min(z, m)]))
            probe("unpack", "pointer", lambda: ffi.unpack(ptr, m), dec_unpack(T, w, cls, mem[:m]))

    # the round trip of the statement
    if path == "new" and Lspec == "open" and 0 not in cps:
        try:
            got = ffi.string(arr)
        except Exception as e:
            got = e
        try:
            same = type(got) is type(pyval) and got == pyval
            joined = same or got == dec(w, cls, units)
        except Exception:
            same = joined = False
        if not same:
            if w == 2 and adjacent_lone_pair(cps) and joined:
                sig = {"kind": "roundtrip", "cause": "char16_adjacent_lone_surrogates"}
            else:
                sig = {"kind": "roundtrip", "cause": "other", "elem": T}
            probs.append((sig, {"got": got, "want": pyval}))
    return probs


def string_classes(w, cls, cps):
    c = []
    if 0 in cps:
        c.append("has_zero_unit")
    if cls == "b":
        if any(u >= 0x80 for u in cps):
            c.append("has_high_byte")
    else:
        if any(u > 0xFFFF for u in cps):
            c.append("has_astral")
        if any(0xD800 <= u <= 0xDFFF for u in cps):
            c.append("has_lone_surrogate")
        if adjacent_lone_pair(cps):
            c.append("adjacent_lone_high_low")
    return c


def cases_of(cps_len_units):
    """(Lspec, path) combinations executed for a string of n units."""
    n = cps_len_units
    out = []
    for Lspec in LSPECS:
        L = {"too_short": n - 1, "exact": n, "plus1": n + 1, "plus3": n + 3, "open": n + 1}[Lspec]
        if L < 0:
            continue
        for path in PATHS:
            if Lspec == "open" and path not in ("new", "new_dirty"):
                continue
            if path in ("item", "field") and L < 1:
                continue
            out.append((Lspec, path))
    out.append(("pointer", "arg"))
    return out


MAX_DETAILS = 2


def work(item):
    ti, n, first = item
    st = state()
    T, suf, cls = ELEMS[ti]
    w = st.width[ti]
    alph = BYTE_ALPH if cls == "b" else WIDE_ALPH
    counts = {}
    bad = {}
    ncases = nontriv = nstrings = 0
    if n == 0:
        strings = [()]
    else:
        strings = ((first,) + rest for rest in itertools.product(alph, repeat=n - 1))
    for cps in strings:
        nstrings += 1
        scl = string_classes(w, cls, cps)
        nu = len(enc(w, cps))
        for Lspec, path in cases_of(nu):
            ncases += 1
            if Lspec != "exact" or scl:
                nontriv += 1
            for k in ["len_" + Lspec, "path_" + path, "elem_" + suf] + scl:
                counts[k] = counts.get(k, 0) + 1
            for sig, info in one(st, ti, cps, Lspec, path):
                key = json.dumps(sig, sort_keys=True)
                ent = bad.setdefault(key, [sig, 0, []])
                ent[1] += 1
                if len(ent[2]) < MAX_DETAILS:
                    ent[2].append({"ti": ti, "cps": list(cps), "Lspec": Lspec, "path": path, "info": _safe(info)})
    return nstrings, ncases, nontriv, counts, list(bad.values())


def _safe(o):
    """Make infos picklable/JSON-able even when they hold str with lone surrogates."""
    if isinstance(o, str):
        try:
            return {"str_codepoints": [ord(c) for c in o]}
        except Exception as e:           # a str object that CPython itself cannot read back
            return {"corrupt_str": "%s: %s" % (type(e).__name__, e)}
    if isinstance(o, bytes):
        return {"bytes": list(o)}
    if isinstance(o, BaseException):
        return {"exception": "%s: %s" % (type(o).__name__, o)}
    if isinstance(o, dict):
        return {k: _safe(v) for k, v in o.items()}
    if isinstance(o, (list, tuple)):
        return [_safe(v) for v in o]
    return o


def run(ctx):
    from . import _large
    _large.c15(ctx)           # lengths on both sides of 2**8, 2**12, 2**16 (see _large.py)
    b = bounds(ctx.quick)
    helper_so()                       # compiled once, inherited by the forked workers
    items = []
    for ti, (T, suf, cls) in enumerate(ELEMS):
        alph = BYTE_ALPH if cls == "b" else WIDE_ALPH
        for n in range(b[cls], 0, -1):
            for first in alph:
                items.append((ti, n, first))
        items.append((ti, 0, None))
    items.sort(key=lambda it: -it[1])
    tot_strings = tot_cases = tot_nontriv = 0
    allbad = {}
    for item, r in pool.pmap(work, [[it] for it in items]):
        if isinstance(r, pool.WorkerError):
            raise InfraError(r.tb)
        if isinstance(r, pool.Crash):
            ctx.violation({"kind": "crash", "elem": ELEMS[item[0]][0]}, {"item": item, "how": r.describe()})
            continue
        ns, nc, nt, counts, bad = r
        tot_strings += ns
        tot_cases += nc
        tot_nontriv += nt
        for k, v in counts.items():
            ctx.count(k, v)
        for sig, cnt, details in bad:
            ent = allbad.setdefault(json.dumps(sig, sort_keys=True), [sig, 0, []])
            ent[1] += cnt
            ent[2].extend(details)
        if item[1] == 2:
            ctx.sample({"elem": ELEMS[item[0]][0], "strings": "all of length 2 starting with unit 0x%X" % item[2],
                        "lengths": list(LSPECS), "paths": list(PATHS) + ["arg"]})
    # report the smallest examples of every signature first (deterministic order)
    for key in sorted(allbad):
        sig, cnt, details = allbad[key]
        details.sort(key=lambda d: (len(d["cps"]), d["cps"], d["ti"], d["Lspec"], d["path"]))
        for i in range(cnt):
            ctx.violation(sig, details[min(i, 2, len(details) - 1)])
    cov = {
        "evaluations": tot_cases,
        "distinct_nontrivial": tot_nontriv,
        "strings": tot_strings,
        "rule": "every string of length <= %d over %r (char, signed char, unsigned char) and of length <= %d over %r "
                "(wchar_t, char16_t, char32_t; code points above 0xFFFF are two units for char16_t) x array length "
                "{units-1, units, units+1, units+3, open} x path {new, new with a non-zeroing allocator, x[1] = s on "
                "T[3][L], p.a = s on struct{T pre[2]; T a[L]; T post[2]}} + a 'T *' function argument; a case is one "
                "(type, string, length, path); non-trivial = the array length differs from the string length (a "
                "terminator or a refusal is involved) or the string holds a zero unit, a byte >= 0x80, a surrogate or "
                "an astral code point (cases are distinct by construction; counted)" % (
                    b["b"], list(BYTE_ALPH), b["w"], list(WIDE_ALPH)),
        "exhaustive": True,
        "bound": {"max_len_byte_types": b["b"], "max_len_wide_types": b["w"]},
    }
    return ctx.finish(cov, ["ffi.buffer() shows the bytes of the cdata it is given",
                            "memory is pre-filled with the units %s so that a missing terminator is visible" % (
                                {k: hex(v) for k, v in FILL.items()},)])


def replay(detail):
    if detail.get("large"):
        from . import _large

        class _C(object):
            n = 0

            def count(self, *a):
                pass

            def violation(self, sig, d):
                _C.n += 1
                print("VIOLATED", sig, d)
        _large.c15(_C())
        return 1 if _C.n else 0
    st = state()
    ti = detail["ti"]
    cps = tuple(detail["cps"])
    T = ELEMS[ti][0]
    print("element type %s, string units/code points %s, array length %s, path %s" % (
        T, [hex(c) for c in cps], detail["Lspec"], detail["path"]))
    probs = one(st, ti, cps, detail["Lspec"], detail["path"])
    for sig, info in probs:
        print("MISMATCH", sig, _safe(info))
    if not probs:
        print("no mismatch")
    return 1 if probs else 0
