"""C15 -- character arrays and strings round-trip, including the terminator.

E1: every string of length <= n over a code-unit alphabet x the character
element types (six by name + int8_t/uint8_t) x array lengths {len-1, len,
len+1, len+3, open} x store paths {ffi.new initializer (clearing and
non-clearing allocator), item assignment of a nested array, struct field
assignment, function-argument conversion (in-line ABI and compiled API mode),
struct initialisers (dict / list), union field, field of a nested struct, field
of a struct-array element, nested list initialiser, flexible array member
initialiser (list / dict), from_buffer view}, on memory pre-filled with a
non-zero unit.  Oracle: a unit-level model of C strings (written units, exactly
one terminator when shorter, later units untouched; string() stops at the first
zero within maxlen; unpack() returns exactly n units), observed through the raw
bytes of ffi.buffer.  Reads are also made with maxlen beyond the array (up to
2**63-1) where the following units are known, and through slices arr[i:j]
(arrays whose length lives in the cdata).
"""
import itertools
import json
import os

from .. import build, cref, pool
from ..build import InfraError

ID = "C15"
LEVEL = "exploration"
META = dict(
    engine="E1-enum", level="exploration",
    technique="exhaustive enumeration of all short strings over a code-unit alphabet x element types x array "
              "lengths x store paths, compared unit by unit with a model of C strings",
    text="Every bytes/str of length <= 3 (thorough 4; 5 for byte types) over an alphabet that straddles every "
         "comparison of the converters (NUL, ASCII, 0x7F/0x80/0xFF, 0x100, both ends of both surrogate ranges, "
         "0xFFFF/0x10000, 0x10FFFF) is stored into char, signed char, unsigned char, wchar_t, char16_t and char32_t "
         "arrays one shorter (must raise), exactly as long, one and three longer than the string and open-ended, "
         "through ffi.new (zeroing and non-zeroing allocator), item assignment, field assignment and a pointer "
         "argument of a C function.  The raw units of the target and of its neighbours are compared with the model; "
         "ffi.string (array and pointer form, every interesting maxlen) and ffi.unpack are compared with the model "
         "applied to the units that are really in memory; the round trip ffi.string(ffi.new('T[]', s)) == s is "
         "checked for every s without a zero unit.  Extensions (audit gaps): int8_t / uint8_t element types; the "
         "store routes struct initialiser (dict and list form), union field, field of a nested struct, field of an "
         "element of an array of structs, nested list initialiser of T[3][L], flexible array member initialised "
         "with a string (allocation size, len(p.a), units and the single terminator) and the same pointer argument "
         "through a compiled API-mode module; reads through ffi.from_buffer('T[]', ...) views and through slices "
         "arr[i:j] with the zero unit before / inside / after the slice; ffi.string(arr, maxlen) with maxlen larger "
         "than the array (L+1, L+2, up to the end of the enclosing object, 2**31, 2**32+1 and 2**63-1 when a zero unit "
         "follows) judged on the units that follow the array; argument conversion of strings whose temporary buffer "
         "is on both sides of 512 / 640 bytes (astral character first / middle / last; 612 cases, counter "
         "arg_boundary_cases); large strings (255..65537 units; 135 cases, counters large_*) open, exact fit, one "
         "too short, field and item assignment between canary rows, for char, signed char, unsigned char and the "
         "three wide types with the astral character first / middle / last.  The evidence histogram counts every "
         "path (path_*), every kind of read (read_*) and where the zero unit lies relative to each slice "
         "(slice_zero_*).",
    note="trusted: ffi.buffer() exposes the bytes of a cdata; gcc (helper library) for what a callee receives; the "
         "UTF-16 pairing rule of the model is the one the statement names")

ELEMS = [("char", "char", "b"), ("signed char", "schar", "b"), ("unsigned char", "uchar", "b"),
         ("wchar_t", "wchar", "w"), ("char16_t", "char16", "w"), ("char32_t", "char32", "w"),
         # C's character types under other names: distinct ctype objects that share the "1-byte integer" branch of
         # convert_array_from_object / b_string, which selects on flags and size, not on the name
         ("int8_t", "int8", "b"), ("uint8_t", "uint8", "b")]
SIGNED_BYTES = ("signed char", "int8_t")
UNSIGNED_BYTES = ("unsigned char", "uint8_t")

# alphabets: one representative on each side of every comparison made by
# convert_array_from_object, _my_PyUnicode_AsChar16/32, _my_PyUnicode_FromChar16, b_string
BYTE_ALPH = (0x00, 0x01, 0x61, 0x7F, 0x80, 0xFF)
WIDE_ALPH = (0x0000, 0x0001, 0x0061, 0x00FF, 0x0100, 0xD7FF, 0xD800, 0xDBFF, 0xDC00, 0xDFFF, 0xE000, 0xFFFF,
             0x10000, 0x10FFFF)

FILL = {1: 0x5A, 2: 0x5A5A, 4: 0x05A5A5}      # non-zero in every byte a valid unit can have
FMT = {1: "B", 2: "H", 4: "I"}
MAXL = 13
GUARD = 32                      # bytes behind every allocation of the non-zeroing allocator
LSPECS = ("too_short", "exact", "plus1", "plus3", "open")
PATHS = ("new", "new_dirty", "item", "field",
         # further routes into convert_array_from_object (audit gap 3) and views with their own length (gap 2)
         "struct_init_dict", "struct_init_list", "union_field", "nested_field", "elem_field", "nested_list_init",
         "frombuf")
OPEN_PATHS = ("new", "new_dirty", "flex_list", "flex_dict")      # array length taken from the string
FLEX_PATHS = ("flex_list", "flex_dict")
DIRTY_PATHS = ("new_dirty", "struct_init_dict", "struct_init_list", "nested_list_init") + FLEX_PATHS
ARG_PATHS = ("arg", "arg_api")
PTR_PATHS = ("item", "arg", "arg_api", "union_field", "elem_field")   # also read through a 'T *' cast
HUGE = (2 ** 31, 2 ** 32 + 1, 2 ** 63 - 1)      # (a maxlen truncated to 32 bits becomes negative / 1)


def bounds(quick):
    return {"b": 3 if quick else 5, "w": 3 if quick else 4}


# ---------------------------------------------------------------------------- model

def enc(w, cps):
    """Units that storing the string must write (no terminator)."""
    if w != 2:
        return list(cps)
    out = []
    for cp in cps:
        if cp > 0xFFFF:
            cp -= 0x10000
            out.append(0xD800 | (cp >> 10))
            out.append(0xDC00 | (cp & 0x3FF))
        else:
            out.append(cp)
    return out


def dec(w, cls, units):
    """Python value of a run of units (ffi.string / ffi.unpack on character types)."""
    if cls == "b":
        return bytes(units)
    if w == 2:
        out = []
        i = 0
        n = len(units)
        while i < n:
            u = units[i]
            if 0xD800 <= u <= 0xDBFF and i + 1 < n and 0xDC00 <= units[i + 1] <= 0xDFFF:
                out.append(chr(0x10000 + ((u & 0x3FF) << 10 | (units[i + 1] & 0x3FF))))
                i += 2
            else:
                out.append(chr(u))
                i += 1
        return "".join(out)
    return "".join(map(chr, units))


def dec_unpack(T, w, cls, units):
    if T in SIGNED_BYTES:
        return [u - 256 if u > 127 else u for u in units]
    if T in UNSIGNED_BYTES:
        return list(units)
    return dec(w, cls, units)


def adjacent_lone_pair(cps):
    return any(0xD800 <= a <= 0xDBFF and 0xDC00 <= b <= 0xDFFF for a, b in zip(cps, cps[1:]))


# ---------------------------------------------------------------------------- implementation side

class _St(object):
    pass


_ST = None
_SO = None
_API = None


def helper_src():
    with open(os.path.join(build.HARNESS, "c15_copy.c")) as f:
        return f.read()


def helper_so():
    global _SO
    if _SO is None or not os.path.exists(_SO):
        _SO = cref.compile_so(helper_src(), name="c15")
    return _SO


def copy_decls():
    return "\n".join("void c15_copy_%s(const %s *src, %s *dst, long n);" % (suf, T, T) for T, suf, _ in ELEMS)


def helper_api():
    """The helper compiled as an API-mode module: a 'T *' argument goes through
    _cffi_prepare_pointer_call_argument / _cffi_convert_array_argument (_cffi_include.h)."""
    global _API
    if _API is None or not os.path.exists(_API[1]):
        import cffi
        name = "_c15api_%d" % os.getpid()
        ffi = cffi.FFI()
        ffi.cdef(copy_decls())
        ffi.set_source(name, helper_src())
        d = os.path.join(build.scratch(), "c15api")
        os.makedirs(d, exist_ok=True)
        try:
            path = ffi.compile(tmpdir=d)
        except Exception as e:
            raise InfraError("cannot compile the API-mode helper: %s: %s" % (type(e).__name__, e))
        _API = (name, path)
    return _API


def state():
    global _ST
    if _ST is not None and _ST.pid == os.getpid():
        return _ST
    import ctypes
    import importlib.util
    import cffi
    st = _St()
    st.pid = os.getpid()
    so = helper_so()
    cdll = ctypes.CDLL(so)
    wsize = cdll.c15_sizeof_wchar()                                     # measured by gcc
    st.width = [wsize if T == "wchar_t" else 2 if T == "char16_t" else 4 if T == "char32_t" else 1
                for T, _, _ in ELEMS]
    st.flexoff = [getattr(cdll, "c15_flexoff_" + suf)() for _, suf, _ in ELEMS]      # measured by gcc
    ffi = cffi.FFI()
    decl = [copy_decls()]
    for ti, (T, suf, cls) in enumerate(ELEMS):
        decl.append("struct c15f_%d { int n; %s a[]; };" % (ti, T))
        for L in range(1, MAXL + 1):
            decl.append("struct c15_%d_%d { %s pre[2]; %s a[%d]; %s post[2]; };" % (ti, L, T, T, L, T))
            decl.append("union c15u_%d_%d { %s a[%d]; %s w[%d]; };" % (ti, L, T, L, T, L + 2))
            decl.append("struct c15n_%d_%d { %s pre[1]; struct c15_%d_%d inner; %s post[1]; };" % (
                ti, L, T, ti, L, T))
    ffi.cdef("\n".join(decl))
    st.ffi = ffi
    st.lib = ffi.dlopen(so)
    st.copy = [getattr(st.lib, "c15_copy_" + suf) for _, suf, _ in ELEMS]
    name, path = helper_api()
    spec = importlib.util.spec_from_file_location(name, path)
    mod = importlib.util.module_from_spec(spec)
    spec.loader.exec_module(mod)
    st.apimod = mod
    st.copy_api = [getattr(mod.lib, "c15_copy_" + suf) for _, suf, _ in ELEMS]
    st.fillbytes = b"\x5a"

    def alloc(nbytes):
        # GUARD more bytes than asked for, all pre-filled: a store that runs past the size cffi computed lands in
        # the guard (and is seen by guard_overwritten()) instead of corrupting the heap of the worker
        total = nbytes + GUARD
        b = ffi.new("char[]", total)
        fb = st.fillbytes
        ffi.buffer(b)[0:total] = (fb * (total // len(fb) + 1))[:total]
        st.last_alloc = (b, nbytes)
        return b
    st.dirty_new = ffi.new_allocator(alloc=alloc, free=None, should_clear_after_alloc=False)
    st.objs = {}
    st.stats = {}
    _ST = st
    return st


def guard_overwritten(st):
    """Bytes of the guard behind the last dirty_new allocation that no longer hold the fill pattern."""
    b, nbytes = st.last_alloc
    total = nbytes + GUARD
    fb = st.fillbytes
    want = (fb * (total // len(fb) + 1))[:total]
    got = bytes(st.ffi.buffer(b))
    return [i - nbytes for i in range(nbytes, total) if got[i] != want[i]]


def raw_units(ffi, cd, w):
    return memoryview(bytes(ffi.buffer(cd))).cast(FMT[w]).tolist()


def prefill(ffi, cd, w, count):
    ffi.buffer(cd)[:] = FILL[w].to_bytes(w, "little") * count


def exc_name(e):
    return type(e).__name__


def _cached(st, key, make):
    o = st.objs.get(key)
    if o is None:
        o = st.objs[key] = make()
    return o


def one(st, ti, cps, Lspec, path):
    """Execute one case.  Returns the list of (sig, info) of the mismatches."""
    ffi = st.ffi
    T, suf, cls = ELEMS[ti]
    w = st.width[ti]
    fill = FILL[w]
    fillb = fill.to_bytes(w, "little")
    pyval = bytes(cps) if cls == "b" else "".join(map(chr, cps))
    units = enc(w, cps)
    n = len(units)
    ecls = "byte" if cls == "b" else "wide"
    probs = []
    L = {"too_short": n - 1, "exact": n, "plus1": n + 1, "plus3": n + 3, "open": n + 1, "pointer": n + 3}[Lspec]
    must_raise = Lspec == "too_short"
    arr = None
    err = None
    whole = None          # cdata whose buffer is the whole observed region
    keep = None           # keeps the owner of `whole` alive
    also = []             # further places (unit index in `whole`) where the same string is stored
    if path in ("new", "new_dirty"):
        tname = "%s[]" % T if Lspec == "open" else "%s[%d]" % (T, L)
        prior = [0] * L if path == "new" else [fill] * L
        lo = 0
        try:
            if path == "new":
                arr = ffi.new(tname, pyval)
            else:
                st.fillbytes = fillb
                arr = st.dirty_new(tname, pyval)
            whole = arr
        except Exception as e:
            err = e
        if arr is not None and Lspec == "open" and len(arr) != n + 1:
            probs.append(({"kind": "open_length", "elem": T, "path": path}, {"len": len(arr), "want": n + 1}))
            return probs          # the model below would index past the real allocation
    elif path == "item":
        x = _cached(st, (path, ti, L), lambda: ffi.new("%s[3][%d]" % (T, L)))
        prefill(ffi, x, w, 3 * L)
        prior = [fill] * (3 * L)
        lo = L
        whole = x
        try:
            x[1] = pyval
        except Exception as e:
            err = e
        arr = x[1]
    elif path == "field":
        p = _cached(st, (path, ti, L), lambda: ffi.new("struct c15_%d_%d *" % (ti, L)))
        prefill(ffi, p, w, L + 4)
        prior = [fill] * (L + 4)
        lo = 2
        whole = p
        try:
            p.a = pyval
        except Exception as e:
            err = e
        arr = p.a
    elif path == "union_field":
        p = _cached(st, (path, ti, L), lambda: ffi.new("union c15u_%d_%d *" % (ti, L)))
        prefill(ffi, p, w, L + 2)
        prior = [fill] * (L + 2)
        lo = 0
        whole = p
        try:
            p.a = pyval
        except Exception as e:
            err = e
        arr = p.a
    elif path == "nested_field":
        p = _cached(st, (path, ti, L), lambda: ffi.new("struct c15n_%d_%d *" % (ti, L)))
        prefill(ffi, p, w, L + 6)
        prior = [fill] * (L + 6)
        lo = 3
        whole = p
        try:
            p.inner.a = pyval
        except Exception as e:
            err = e
        arr = p.inner.a
    elif path == "elem_field":
        x = _cached(st, (path, ti, L), lambda: ffi.new("struct c15_%d_%d[3]" % (ti, L)))
        prefill(ffi, x, w, 3 * (L + 4))
        prior = [fill] * (3 * (L + 4))
        lo = (L + 4) + 2
        whole = x
        try:
            x[1].a = pyval
        except Exception as e:
            err = e
        arr = x[1].a
    elif path in ("struct_init_dict", "struct_init_list"):
        # the initialiser forms of ffi.new on non-zeroed memory: only `a` is written
        prior = [fill] * (L + 4)
        lo = 2
        st.fillbytes = fillb
        try:
            init = {"a": pyval} if path == "struct_init_dict" else [[], pyval, []]
            whole = keep = st.dirty_new("struct c15_%d_%d *" % (ti, L), init)
            arr = whole.a
        except Exception as e:
            err = e
    elif path == "nested_list_init":
        prior = [fill] * (3 * L)
        lo = L
        also = [0]
        st.fillbytes = fillb
        try:
            whole = keep = st.dirty_new("%s[3][%d]" % (T, L), [pyval, pyval])
            arr = whole[1]
        except Exception as e:
            err = e
    elif path in FLEX_PATHS:
        # struct { int n; T a[]; } initialised with a string: the allocation size is computed from the string
        # separately from the copy (convert_vfield_from_object); p.a is a T[] whose length lives in the cdata
        off = st.flexoff[ti]
        lo = off // w
        st.fillbytes = fillb
        try:
            init = [7, pyval] if path == "flex_list" else {"a": pyval}
            whole = keep = st.dirty_new("struct c15f_%d *" % ti, init)
        except Exception as e:
            err = e
        if whole is not None:
            nb = len(ffi.buffer(whole))
            if nb < off + (n + 1) * w or nb % w:
                probs.append(({"kind": "flex_allocation", "elem": T, "path": path},
                              {"bytes": nb, "want_at_least": off + (n + 1) * w,
                               "bytes_written_behind_the_allocation": guard_overwritten(st)}))
                return probs
            arr = whole.a
            if len(arr) != n + 1:
                probs.append(({"kind": "open_length", "elem": T, "path": path}, {"len": len(arr), "want": n + 1}))
                return probs
            head = (7).to_bytes(off, "little") if path == "flex_list" else (fillb * off)[:off]
            prior = memoryview(head).cast(FMT[w]).tolist() + [fill] * (nb // w - lo)
    elif path == "frombuf":
        # no cffi store: the model's memory is written directly; what is exercised are the reads on a
        # from_buffer('T[]') view (length in the cdata, memory not owned by cffi)
        prior = [fill] * L
        lo = 0
        ba = bytearray(fillb * L)
        image = units + ([0] if n < L else [])
        ba[0:len(image) * w] = b"".join(u.to_bytes(w, "little") for u in image)
        try:
            whole = arr = ffi.from_buffer("%s[]" % T, ba)
            keep = ba
        except Exception as e:
            err = e
        if arr is not None and len(arr) != L:
            probs.append(({"kind": "from_buffer_length", "elem": T, "path": path}, {"len": len(arr), "want": L}))
            return probs
    elif path in ARG_PATHS:
        dst = ffi.new("%s[]" % T, L)
        prefill(ffi, dst, w, L)
        prior = [fill] * L
        lo = 0
        whole = dst
        try:
            (st.copy if path == "arg" else st.copy_api)[ti](pyval, dst, n + 1)
        except Exception as e:
            err = e
        arr = dst
    else:
        raise InfraError("unknown path %r" % (path,))

    base = {"elem": T, "path": path}
    bases = [lo] + also
    if path in DIRTY_PATHS and (whole is not None or err is not None):
        over = guard_overwritten(st)
        if over:
            probs.append((dict(base, kind="out_of_bounds_write", cls=ecls, where="behind_the_allocation"),
                          {"L": L, "guard_bytes_changed": over}))
    if must_raise:
        if err is None:
            probs.append((dict(base, kind="accepted_too_long", cls=ecls), {"L": L, "units": units}))
        if path in ("item", "field", "union_field", "nested_field", "elem_field"):
            obs = raw_units(ffi, whole, w)
            out = [i for i in range(len(obs)) if not (lo <= i < lo + L) and obs[i] != prior[i]]
            if out:
                probs.append((dict(base, kind="out_of_bounds_write", cls=ecls, when="rejected"),
                              {"L": L, "obs": obs, "prior": prior}))
        return probs
    if err is not None:
        probs.append((dict(base, kind="unexpected_exception", exc=exc_name(err), cls=ecls),
                      {"L": L, "error": "%s: %s" % (exc_name(err), err)}))
        return probs

    exp = list(prior)
    for b in bases:
        exp[b:b + n] = units
        if n < L:
            exp[b + n] = 0
    obs = raw_units(ffi, whole, w)
    if len(obs) != len(exp):
        probs.append((dict(base, kind="size", cls=ecls), {"L": L, "obs": obs, "exp": exp}))
        return probs
    if obs != exp:
        diff = [i for i in range(len(exp)) if obs[i] != exp[i]]
        if any(not any(b <= i < b + L for b in bases) for i in diff):
            kind = "out_of_bounds_write"
        elif n < L and all(i in [b + n for b in bases] and (obs[i] == prior[i] or path in ARG_PATHS) for i in diff):
            # the unit after the string kept its old value (for "arg": the callee saw a non-zero unit there)
            kind = "no_terminator"
        else:
            kind = "wrong_units"
        sig = {"kind": kind, "elem": ecls, "path": path}
        if kind != "no_terminator":
            sig["ctype"] = T
        probs.append((sig, {"L": L, "obs": obs, "exp": exp, "diff": diff}))

    # string()/unpack() against the units that are really there
    mem = obs[lo:lo + L]
    region = obs[lo:]                 # the array and the known units that follow it in the same object
    if max(region, default=0) > 0x10FFFF:
        # only reachable after a store mismatch reported above: the units in memory are not
        # characters, so the model has no value for string()/unpack()
        return probs
    z = mem.index(0) if 0 in mem else L
    marks = sorted(m for m in {0, 1, n, n + 1, L} if 0 <= m <= L)
    # maxlen larger than the array (b_string never clamps an explicit maxlen to the array): the statement's
    # "stops at the first zero unit within maxlen" is judged on the units that follow the array, which are known
    # as far as `whole` reaches; beyond that only when a zero unit stops the scan inside `whole`.
    # (Reading of the statement: the array length is the DEFAULT maxlen of an array -- as documented for
    # ffi.string -- and an explicit maxlen is the limit that was asked for.  The two readings differ only on
    # arrays without a zero unit.  Negative maxlen other than the default -1: the statement is silent, not probed.)
    zr = region.index(0) if 0 in region else len(region)
    beyond = sorted(m for m in {L + 1, L + 2, len(region)} if L < m <= len(region))
    if beyond and zr < len(region):
        beyond += list(HUGE)
        st.stats["maxlen_huge_probed"] = st.stats.get("maxlen_huge_probed", 0) + 1

    def probe(kind, form, fn, want, ctx_mem=None):
        k = "read_%s_%s" % (kind, form)
        st.stats[k] = st.stats.get(k, 0) + 1
        try:
            got = fn()
        except Exception as e:
            probs.append(({"kind": kind, "form": form, "elem": T, "exc": exc_name(e)},
                          {"L": L, "mem": ctx_mem or mem, "error": str(e), "want": want}))
            return
        try:
            same = type(got) is type(want) and got == want
        except Exception:
            same = False
        if not same:
            probs.append(({"kind": kind, "form": form, "elem": T},
                          {"L": L, "mem": ctx_mem or mem, "got": got, "want": want}))

    probe("string", "array", lambda: ffi.string(arr), dec(w, cls, mem[:z]))
    probe("string", "array_maxlen_minus1", lambda: ffi.string(arr, -1), dec(w, cls, mem[:z]))
    for m in marks:
        probe("string", "array_maxlen", lambda: ffi.string(arr, m), dec(w, cls, mem[:min(z, m)]))
        probe("unpack", "array", lambda: ffi.unpack(arr, m), dec_unpack(T, w, cls, mem[:m]))
    for m in beyond:
        probe("string", "array_maxlen_beyond", lambda: ffi.string(arr, m), dec(w, cls, region[:min(zr, m)]), region)
    if path in PTR_PATHS:
        ptr = ffi.cast("%s *" % T, arr)
        if z < L:
            probe("string", "pointer", lambda: ffi.string(ptr), dec(w, cls, mem[:z]))
        for m in marks:
            probe("string", "pointer_maxlen", lambda: ffi.string(ptr, m), dec(w, cls, mem[:min(z, m)]))
            probe("unpack", "pointer", lambda: ffi.unpack(ptr, m), dec_unpack(T, w, cls, mem[:m]))
        for m in beyond:
            probe("string", "pointer_maxlen_beyond", lambda: ffi.string(ptr, m),
                  dec(w, cls, region[:min(zr, m)]), region)

    # slices: arrays 'T[]' whose length lives in the cdata (cdata_slice -> new_sized_cdata), with the zero unit
    # before / at the start of / inside / after the slice
    for (i, j) in sorted({(1, L), (0, z), (z, L), (1, 1), (0, L), (z + 1, L)}):
        if not 0 <= i <= j <= L:
            continue
        try:
            sl = arr[i:j]
            if len(sl) != j - i:
                raise ValueError("len(arr[%d:%d]) == %d" % (i, j, len(sl)))
        except Exception as e:
            probs.append(({"kind": "slice", "elem": T, "exc": exc_name(e)}, {"L": L, "i": i, "j": j, "error": str(e)}))
            continue
        smem = mem[i:j]
        sreg = region[i:]
        k = "slice_zero_%s" % ("none" if z == L else "before" if z < i else "at_start" if z == i else
                               "inside" if z < j else "after")
        st.stats[k] = st.stats.get(k, 0) + 1
        sz = smem.index(0) if 0 in smem else len(smem)
        szr = sreg.index(0) if 0 in sreg else len(sreg)
        probe("string", "slice", lambda: ffi.string(sl), dec(w, cls, smem[:sz]), smem)
        for m in sorted({1, j - i, j - i + 1}):
            # an explicit maxlen is not clamped to the slice either: judged on the units that follow its start
            if i + m <= len(region):
                probe("string", "slice_maxlen" if m <= j - i else "slice_maxlen_beyond",
                      lambda: ffi.string(sl, m), dec(w, cls, sreg[:min(szr, m)]), sreg)
        probe("unpack", "slice", lambda: ffi.unpack(sl, j - i), dec_unpack(T, w, cls, smem), smem)

    # the round trip of the statement
    if path == "new" and Lspec == "open" and 0 not in cps:
        try:
            got = ffi.string(arr)
        except Exception as e:
            got = e
        try:
            same = type(got) is type(pyval) and got == pyval
            joined = same or got == dec(w, cls, units)
        except Exception:
            same = joined = False
        if not same:
            if w == 2 and adjacent_lone_pair(cps) and joined:
                sig = {"kind": "roundtrip", "cause": "char16_adjacent_lone_surrogates"}
            else:
                sig = {"kind": "roundtrip", "cause": "other", "elem": T}
            probs.append((sig, {"got": got, "want": pyval}))
    return probs


def string_classes(w, cls, cps):
    c = []
    if 0 in cps:
        c.append("has_zero_unit")
    if cls == "b":
        if any(u >= 0x80 for u in cps):
            c.append("has_high_byte")
    else:
        if any(u > 0xFFFF for u in cps):
            c.append("has_astral")
        if any(0xD800 <= u <= 0xDFFF for u in cps):
            c.append("has_lone_surrogate")
        if adjacent_lone_pair(cps):
            c.append("adjacent_lone_high_low")
    return c


def cases_of(cps_len_units):
    """(Lspec, path) combinations executed for a string of n units."""
    n = cps_len_units
    out = []
    for Lspec in LSPECS:
        L = {"too_short": n - 1, "exact": n, "plus1": n + 1, "plus3": n + 3, "open": n + 1}[Lspec]
        if L < 0:
            continue
        for path in PATHS + FLEX_PATHS:
            if path in FLEX_PATHS and Lspec != "open":
                continue          # the flexible member always takes its length from the string
            if Lspec == "open" and path not in OPEN_PATHS:
                continue
            if path not in OPEN_PATHS and L < 1:
                continue          # no zero-length members / rows
            if path == "frombuf" and Lspec == "too_short":
                continue          # nothing is stored through cffi on that path
            out.append((Lspec, path))
    for path in ARG_PATHS:
        out.append(("pointer", path))
    return out


MAX_DETAILS = 2

# argument conversion with temporaries on both sides of the size thresholds of the two call paths
# (_cffi_include.h: alloca up to 640 bytes, else malloc; b_call: its own alloca'd buffer): total unit counts
# (string + terminator) around 128/160/256/320/512/640, i.e. 512 and 640 BYTES for every unit width, and
# 512/640 units
ARGB_UNITS = (127, 128, 129, 159, 160, 161, 255, 256, 257, 319, 320, 321, 511, 512, 513, 639, 640, 641)
ARGB_ASTRAL = ("none", "first", "middle", "last")


def argb_string(cls, w, total, astral):
    """Code points of a string that occupies total-1 units (total with the terminator)."""
    n = total - 1
    if cls == "b":
        return [(i % 255) + 1 for i in range(n)]
    au = 2 if w == 2 else 1                      # units taken by the astral character
    nplain = n - au if astral != "none" else n
    cps = [0x21 + (i % 0x5D) if i % 5 else 0x100 + (i % 0x700) for i in range(nplain)]
    if astral != "none":
        at = {"first": 0, "middle": nplain // 2, "last": nplain}[astral]
        cps.insert(at, 0x1F600)
    return cps


def argb_one(st, ti, mode, total, astral):
    ffi = st.ffi
    T, suf, cls = ELEMS[ti]
    w = st.width[ti]
    cps = argb_string(cls, w, total, astral)
    units = enc(w, cps)
    if len(units) != total - 1:
        raise InfraError("argb_string: %d units for %d" % (len(units), total - 1))
    pyval = bytes(cps) if cls == "b" else "".join(map(chr, cps))
    dst = ffi.new("%s[]" % T, total + 1)
    prefill(ffi, dst, w, total + 1)
    try:
        (st.copy if mode == "abi" else st.copy_api)[ti](pyval, dst, total)
    except Exception as e:
        return {"kind": "argb_exception", "exc": exc_name(e)}, str(e)
    obs = raw_units(ffi, dst, w)
    exp = units + [0, FILL[w]]
    if obs != exp:
        diff = [i for i in range(len(exp)) if obs[i] != exp[i]]
        return {"kind": "argb_no_terminator" if diff == [total - 1] else "argb_wrong_units"}, {"first_diff": diff[:4]}
    return None


def argb_work(ti, mode):
    """All argument-boundary cases of one (type, mode); run in a pool worker so that a crash is contained."""
    st = state()
    T, suf, cls = ELEMS[ti]
    ncases = 0
    bad = []
    for total in ARGB_UNITS:
        for astral in (ARGB_ASTRAL if cls == "w" else ("none",)):
            ncases += 1
            r = argb_one(st, ti, mode, total, astral)
            if r is not None:
                bad.append((dict(r[0], elem=T, mode=mode, family="arg_boundary"),
                            {"argb": True, "ti": ti, "mode": mode, "total": total, "astral": astral,
                             "info": _safe(r[1])}))
    return ncases, bad


def work(item):
    if item[0] == "argb":
        return argb_work(item[1], item[2])
    ti, n, first = item
    st = state()
    T, suf, cls = ELEMS[ti]
    w = st.width[ti]
    alph = BYTE_ALPH if cls == "b" else WIDE_ALPH
    counts = {}
    bad = {}
    ncases = nontriv = nstrings = 0
    st.stats = {}
    if n == 0:
        strings = [()]
    else:
        strings = ((first,) + rest for rest in itertools.product(alph, repeat=n - 1))
    for cps in strings:
        nstrings += 1
        scl = string_classes(w, cls, cps)
        nu = len(enc(w, cps))
        for Lspec, path in cases_of(nu):
            ncases += 1
            if Lspec != "exact" or scl:
                nontriv += 1
            for k in ["len_" + Lspec, "path_" + path, "elem_" + suf] + scl:
                counts[k] = counts.get(k, 0) + 1
            for sig, info in one(st, ti, cps, Lspec, path):
                key = json.dumps(sig, sort_keys=True)
                ent = bad.setdefault(key, [sig, 0, []])
                ent[1] += 1
                if len(ent[2]) < MAX_DETAILS:
                    ent[2].append({"ti": ti, "cps": list(cps), "Lspec": Lspec, "path": path, "info": _safe(info)})
    counts.update(st.stats)
    return nstrings, ncases, nontriv, counts, list(bad.values())


def _safe(o):
    """Make infos picklable/JSON-able even when they hold str with lone surrogates."""
    if isinstance(o, str):
        try:
            return {"str_codepoints": [ord(c) for c in o]}
        except Exception as e:           # a str object that CPython itself cannot read back
            return {"corrupt_str": "%s: %s" % (type(e).__name__, e)}
    if isinstance(o, bytes):
        return {"bytes": list(o)}
    if isinstance(o, BaseException):
        return {"exception": "%s: %s" % (type(o).__name__, o)}
    if isinstance(o, dict):
        return {k: _safe(v) for k, v in o.items()}
    if isinstance(o, (list, tuple)):
        return [_safe(v) for v in o]
    return o


def run(ctx):
    from . import _large
    nlarge = _large.c15(ctx)           # lengths on both sides of 2**8, 2**12, 2**16 (see _large.py)
    b = bounds(ctx.quick)
    helper_so()                       # compiled once, inherited by the forked workers
    helper_api()                      # (the API-mode module too)
    nargb = 0
    items = []
    for ti, (T, suf, cls) in enumerate(ELEMS):
        alph = BYTE_ALPH if cls == "b" else WIDE_ALPH
        for n in range(b[cls], 0, -1):
            for first in alph:
                items.append((ti, n, first))
        items.append((ti, 0, None))
    items.sort(key=lambda it: -it[1])
    items += [("argb", ti, mode) for ti in range(len(ELEMS)) for mode in ("abi", "api")]
    tot_strings = tot_cases = tot_nontriv = 0
    allbad = {}
    argb_bad = []
    for item, r in pool.pmap(work, [[it] for it in items]):
        if isinstance(r, pool.WorkerError):
            raise InfraError(r.tb)
        if isinstance(r, pool.Crash):
            if item[0] == "argb":
                ctx.violation({"kind": "crash", "elem": ELEMS[item[1]][0], "mode": item[2], "family": "arg_boundary"},
                              {"item": item, "how": r.describe()})
            else:
                ctx.violation({"kind": "crash", "elem": ELEMS[item[0]][0]}, {"item": item, "how": r.describe()})
            continue
        if item[0] == "argb":
            nargb += r[0]
            ctx.count("arg_boundary_cases", r[0])
            argb_bad.extend(r[1])
            continue
        ns, nc, nt, counts, bad = r
        tot_strings += ns
        tot_cases += nc
        tot_nontriv += nt
        for k, v in counts.items():
            ctx.count(k, v)
        for sig, cnt, details in bad:
            ent = allbad.setdefault(json.dumps(sig, sort_keys=True), [sig, 0, []])
            ent[1] += cnt
            ent[2].extend(details)
        if item[1] == 2:
            ctx.sample({"elem": ELEMS[item[0]][0], "strings": "all of length 2 starting with unit 0x%X" % item[2],
                        "lengths": list(LSPECS), "paths": list(PATHS + FLEX_PATHS + ARG_PATHS)})
    for sig, det in sorted(argb_bad, key=lambda sd: (sd[1]["ti"], sd[1]["mode"], sd[1]["total"], sd[1]["astral"])):
        ctx.violation(sig, det)
    # report the smallest examples of every signature first (deterministic order)
    for key in sorted(allbad):
        sig, cnt, details = allbad[key]
        details.sort(key=lambda d: (len(d["cps"]), d["cps"], d["ti"], d["Lspec"], d["path"]))
        for i in range(cnt):
            ctx.violation(sig, details[min(i, 2, len(details) - 1)])
    cov = {
        "evaluations": tot_cases + nargb + nlarge,
        "distinct_nontrivial": tot_nontriv + nargb + nlarge,
        "strings": tot_strings,
        "arg_boundary_cases": nargb,
        "large_cases": nlarge,
        "rule": "every string of length <= %d over %r (char, signed char, unsigned char, int8_t, uint8_t) and of length <= %d over %r "
                "(wchar_t, char16_t, char32_t; code points above 0xFFFF are two units for char16_t) x array length "
                "{units-1, units, units+1, units+3, open} x path {new, new with a non-zeroing allocator, x[1] = s on "
                "T[3][L], p.a = s on struct{T pre[2]; T a[L]; T post[2]}, ffi.new of that struct from {'a': s} and from "
                "[[], s, []] on non-zeroed memory, p.a = s on union{T a[L]; T w[L+2]}, p.inner.a = s on a nested "
                "struct, x[1].a = s on an array of 3 structs, ffi.new('T[3][L]', [s, s]) on non-zeroed memory, a "
                "from_buffer('T[]') view of a bytearray holding the model's units (reads only)} + (open only) "
                "struct{int n; T a[];} initialised from [7, s] and {'a': s} + a 'T *' function argument through the "
                "in-line ABI library and through a compiled API-mode module; after every store: string/unpack with "
                "maxlen in {0, 1, units, units+1, L, -1}, where the object extends beyond the array also {L+1, L+2, "
                "to the end of the object, 2**31, 2**32+1, 2**63-1 (when a zero unit follows)}, and string/unpack on the "
                "slices {[1:L], [0:z], [z:L], [z+1:L], [1:1], [0:L]} (z = first zero unit); a case is one "
                "(type, string, length, path); non-trivial = the array length differs from the string length (a "
                "terminator or a refusal is involved) or the string holds a zero unit, a byte >= 0x80, a surrogate or "
                "an astral code point (cases are distinct by construction; counted).  Plus %d argument-boundary "
                "cases (8 types x {ABI, API} x string+terminator of %r units x astral character {none, first, "
                "middle, last} for the wide types) and %d large-size cases (see _large.c15), all non-trivial (a "
                "terminator is always involved)" % (
                    b["b"], list(BYTE_ALPH), b["w"], list(WIDE_ALPH), nargb, list(ARGB_UNITS), nlarge),
        "exhaustive": True,
        "bound": {"max_len_byte_types": b["b"], "max_len_wide_types": b["w"]},
    }
    return ctx.finish(cov, ["ffi.buffer() shows the bytes of the cdata it is given",
                            "memory is pre-filled with the units %s so that a missing terminator is visible" % (
                                {k: hex(v) for k, v in FILL.items()},)])


def replay(detail):
    if detail.get("large"):
        from . import _large

        class _C(object):
            n = 0

            def count(self, *a):
                pass

            def violation(self, sig, d):
                _C.n += 1
                print("VIOLATED", sig, d)
        _large.c15(_C())
        return 1 if _C.n else 0
    if "item" in detail and "ti" not in detail:
        # a worker crashed on this block of cases: run the whole block here (a crash of this process reproduces it)
        item = tuple(detail["item"])
        print("re-running the block %r in this process" % (item,))
        r = work(item)
        bad = r[-1]
        print("the block ran to completion; %d mismatching signature(s)" % len(bad))
        return 1 if bad else 0
    st = state()
    ti = detail["ti"]
    if detail.get("argb"):
        print("argument boundary: element type %s, %s mode, %d units with the terminator, astral character: %s" % (
            ELEMS[ti][0], detail["mode"], detail["total"], detail["astral"]))
        r = argb_one(st, ti, detail["mode"], detail["total"], detail["astral"])
        print("MISMATCH %r" % (r,) if r else "no mismatch")
        return 1 if r else 0
    cps = tuple(detail["cps"])
    T = ELEMS[ti][0]
    print("element type %s, string units/code points %s, array length %s, path %s" % (
        T, [hex(c) for c in cps], detail["Lspec"], detail["path"]))
    probs = one(st, ti, cps, detail["Lspec"], detail["path"])
    for sig, info in probs:
        print("MISMATCH", sig, _safe(info))
    if not probs:
        print("no mismatch")
    return 1 if probs else 0
