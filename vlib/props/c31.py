"""C31 -- comments, spacing, continuation lines and line directives inserted
between the tokens of a cdef do not change its meaning.

Engine E1: for every cdef of the shared corpus (plus the C31-only cdefs of
_c31x.EXTRA), every token gap (both ends of the existing blank/comment run) x
the insertion alphabet, all single insertions and all pairs of insertions of
the first alphabet whose gaps are at most 1 (thorough 2) apart.  Oracle: the
declarations (structural dump of the model types), the integer constants,
sizeof/offsetof of every struct/union, and the text of emit_c_code() /
emit_python_code() are those of the un-inserted cdef.

Families added after the audit round (.cache/audit/C31.md), all finite and
enumerated completely:
  * new insertion kinds (single insertions): comments spanning lines (also
    inside #define lines), CR / CR LF / form feed / vertical tab, comments whose
    contents look like code, further spellings of a line directive (no name,
    empty name, gcc flags, tabs, '#line', at end of text without newline, inside
    a comment, names with '/*', a backslash, the word FILE; with distinctive
    signatures: a name made of 'typedef size_t;,(' and a number with leading zeros)
  * the gaps INSIDE '#define' ('#' | 'define') and inside a line-directive line
  * pairs multi-line comment x {blank, comment, continuation} inside #define lines
  * the whole text with CR LF line endings (thorough: x every single insertion)
  * the text given to two cdef() calls on one FFI, insertion in the second
  * thorough: all triples at one place inside #define lines and inside the
    pseudo-tokens of cffi ('[...]', '= ...', 'int...', extern "Python", ...)
"""
import collections
import io
import sys

from .. import build, pool
from ..build import InfraError
from ._corpus import CORPUS as _SHARED, tokenize
from . import _c31x as X

# the shared corpus (also enumerated by C30) followed by the cdefs of this check only
CORPUS = list(_SHARED) + list(X.EXTRA)

ID = "C31"
LEVEL = "exploration"
META = dict(
    engine="E1-enum", level="exploration",
    technique="exhaustive insertion of every whitespace/comment/continuation/line-directive form at every token gap "
              "(singles, pairs of neighbouring gaps, thorough: triples at one place) of a 55-cdef corpus, also with CR LF "
              "line endings and split over two cdef() calls, differential against the un-inserted cdef",
    text="At every gap between two tokens of each corpus cdef (tokenizer independent of pycparser; '...', string "
         "literals and '#define' kept whole; line directives are one token) each of ' ', tab, newline, '/**/', "
         "'/* ; { */', '// x<nl>', '<nl># 7 \"f//g...h\"<nl>' (a file name the comment and '...' regexes would mangle if it were not protected) and, inside #define lines, backslash-newline is inserted: all "
         "single insertions and all ordered pairs at gap distance <=1 (thorough <=2).  As single insertions also: "
         "comments spanning lines ('/* x<nl> y */', with a backslash-newline inside, '// x \\<nl> y<nl>'; the block forms "
         "also inside #define lines, and in pairs with blank/comment/continuation there), CR, CR LF, form feed, vertical "
         "tab (not inside directives), comments containing quotes, '...', '//', '/*' and a #define or a line directive, "
         "and 10 more spellings of a line directive (number only, '#line N', empty name, flags, tabs and blanks, at the "
         "end of the text without newline, names containing '/*', a backslash, the word FILE, the words 'typedef "
         "size_t;,(' and a number with leading zeros).  Blanks, tabs, comments (and a continuation) are also inserted "
         "between '#' and 'define' and between the parts of every line-directive line of the corpus.  Every cdef is "
         "also run with CR LF line endings (thorough: combined with every single insertion) and split over two cdef() "
         "calls of one FFI with the insertions in the second; thorough adds all triples of {blank, newline, comment, "
         "line comment, continuation, multi-line comment, line directive} at one place inside #define lines and next "
         "to cffi's pseudo-tokens.  The resulting declarations, integer constants, struct layouts and the bytes "
         "written by emit_c_code()/emit_python_code() must equal those of the original text.",
    note="newline-bearing insertions are not placed strictly inside a '#' line (that would end the directive in C as "
         "well); form feed, vertical tab and a lone CR are not placed inside a directive (C allows only blank and tab "
         "there); a lone CR is treated as white space, not as a line end; backslash-newline is only placed inside "
         "#define lines, at token gaps; the reference is cffi itself on the un-inserted text; measured on the loaded "
         "16-core machine: quick (189 k cases) 35-55 s, thorough (669 k cases) 200 s")

INS = collections.OrderedDict([
    ("sp", " "), ("tab", "\t"), ("nl", "\n"), ("cmt", "/**/"), ("cmt2", "/* ; { */"),
    ("lcmt", "// x\n"), ("linedir", '\n# 7 "f//g...h"\n'), ("cont", "\\\n"),
    # the other spellings of a line directive: several digits + gcc's trailing flags, and '#line'
    ("linedir2", '\n# 12 "d//e...f" 1 3\n'), ("linedir3", '\n#line 35 "x//y...z"\n'),
])
FIRST_KINDS = tuple(INS)                   # the first alphabet (all of it is paired)
NEWLINE_BEARING = ("nl", "lcmt", "linedir", "linedir2", "linedir3")
INS_CLASS = {"sp": "space", "tab": "space", "nl": "newline", "cmt": "comment", "cmt2": "comment",
             "lcmt": "line_comment", "linedir": "linedir", "linedir2": "linedir", "linedir3": "linedir", "cont": "cont"}
PLACE = {}
for _k, (_txt, _cls, _rule) in X.NEW_INS.items():
    INS[_k] = _txt
    INS_CLASS[_k] = _cls
    PLACE[_k] = _rule
NEWLINE_BEARING_ALL = NEWLINE_BEARING + tuple(k for k, r in PLACE.items() if r in ("nl", "eof"))
INT_WORDS = ("int", "long", "short", "signed", "unsigned", "char")

# kinds inserted in the gaps inside the compound tokens
INNER_KINDS = {"define": ("sp", "tab", "cmt", "cmt2", "mlcmt", "cont"),
               "line": ("sp", "tab", "cmt")}
# pairs inside #define lines in which one member is a comment spanning lines
ML_KINDS = ("mlcmt", "cmtcont")
ML_PARTNERS = ML_KINDS + ("sp", "cmt", "cont")
# triples at one place (thorough)
TRIPLE_KINDS = ("sp", "nl", "cmt", "lcmt", "cont", "mlcmt", "linedir")
# the second cdef() of a split text: quick kinds
SPLIT_QUICK = ("sp", "cmt2", "lcmt", "linedir", "cont", "mlcmt")


# ---------------------------------------------------------------------------
# the case space

class Entry(object):
    def __init__(self, idx, name, text):
        self.idx, self.name, self.text = idx, name, text
        self.toks, self.pplines = tokenize(text)
        self.positions = []                # (gap index, offset)
        n = len(self.toks)
        for g in range(n + 1):
            a = self.toks[g - 1].end if g > 0 else 0
            b = self.toks[g].start if g < n else len(text)
            for p in sorted({a, b}):
                self.positions.append((g, p))
        # gaps inside '#define' and inside line-directive lines: gap ids -1, -2, ...
        self.inner = {}                    # gid -> (offset, prev class, next class, 'define'|'line')
        for t in self.toks:
            if t.kind in ("pp_define", "pp_line"):
                ppk = self.pplines[t.pp][2]
                if ppk not in ("define", "line"):
                    continue
                for p, pc, nc in X.pp_inner(t):
                    self.inner[-(len(self.inner) + 1)] = (p, pc, nc, ppk)
        self.cuts = X.find_cuts(text, self.toks, self.pplines)

    def in_define(self, p):
        return any(h < p <= e and k == "define" for h, e, k in self.pplines)

    def kinds_at(self, p, enabled=()):
        inside = any(h < p < e for h, e, k in self.pplines)
        inpp = any(h < p <= e for h, e, k in self.pplines)
        ks = ["sp", "tab", "cmt", "cmt2"]
        if not inside:
            ks += list(NEWLINE_BEARING)
        if self.in_define(p):
            ks.append("cont")
        for k in enabled:
            rule = PLACE[k]
            if (rule == "any" or (rule == "nl" and not inside) or (rule == "outside" and not inpp)
                    or (rule == "eof" and p == len(self.text))):
                ks.append(k)
        return ks

    def singles(self, enabled=()):
        return [(g, p, k) for g, p in self.positions for k in self.kinds_at(p, enabled)]

    def inner_singles(self):
        out = []
        for gid in sorted(self.inner, reverse=True):
            p, pc, nc, ppk = self.inner[gid]
            out.extend((gid, p, k) for k in INNER_KINDS[ppk])
        return out

    def neighbours(self, g):
        prev = self.toks[g - 1] if g > 0 else None
        nxt = self.toks[g] if g < len(self.toks) else None
        return prev, nxt

    def apply(self, ins):
        """ins = [(offset, kind), ...] in application order for equal offsets."""
        text = self.text
        # stable: later offsets first; among equal offsets the later-listed goes in first so
        # that the earlier-listed ends up in front
        order = sorted(range(len(ins)), key=lambda i: (ins[i][0], i), reverse=True)
        for i in order:
            p, k = ins[i]
            text = text[:p] + INS[k] + text[p:]
        return text


def pair_allowed(e, s1, s2):
    """Both insertions are legal on the original text; exclude the one combination in which
    the first changes the legality of the second: at the same offset, a backslash-newline
    after a newline-bearing insertion is no longer inside the #define line."""
    (g1, p1, k1), (g2, p2, k2) = s1, s2
    if p1 == p2 and k2 == "cont" and k1 in NEWLINE_BEARING_ALL:
        return False
    return True


def _tokclass(t):
    if t is None:
        return "edge"
    if t.kind in ("punct", "dots"):
        return t.text
    if t.kind == "id" and t.text in ("extern", "typedef", "struct", "union", "enum", "static", "const", "__stdcall",
                                     "__cdecl", "WINAPI", "volatile") + INT_WORDS + ("float", "double", "void"):
        return t.text
    return t.kind


def adjacency(e, g):
    """Name of the cffi pseudo-token the gap lies in, or 'other'."""
    if g < 0:
        return "other"
    prev, nxt = e.neighbours(g)
    pt = prev.text if prev is not None else None
    nt = nxt.text if nxt is not None else None
    if (pt == "[" and nt == "...") or (pt == "..." and nt == "]"):
        return "[...]"
    if pt == "=" and nt == "...":
        return "=..."
    if pt == "..." and nt in (",", "}"):
        pp = e.toks[g - 2].text if g >= 2 else None
        return "=..." if pp == "=" else ("...}" if nt == "}" else "other")
    if pt in INT_WORDS and (nt == "..." or nt in INT_WORDS):
        # inside the run "unsigned long ..." that _r_int_dotdotdot must match as a whole
        k = g
        while k < len(e.toks) and e.toks[k].text in INT_WORDS:
            k += 1
        if k < len(e.toks) and e.toks[k].text == "...":
            return "int..."
    if nt == "..." and pt in ("float", "double"):
        return "float..."
    if pt == "extern" and nxt is not None and nxt.kind == "str":
        return 'extern "Python"'
    if prev is not None and prev.kind == "str" and g >= 2 and e.toks[g - 2].text == "extern":
        return 'extern "Python" <decl>'
    if pt == "(" and nt in ("__stdcall", "WINAPI", "__cdecl"):
        return "(__stdcall"
    return "other"


def _sig_inpp(cls, ppkind, inner):
    """The known finding K31c ('a comment on the line of a line directive') matches every
    signature with in_pp == 'line'.  White space of the added kinds at the two ends of such a
    line, and anything but a comment in the gaps inside it, is another matter: it gets its
    own value."""
    if ppkind == "line" and cls not in X.COMMENT_CLASSES and (inner or cls not in X.FIRST_CLASSES):
        return "line_inner" if inner else "line_edge"
    return ppkind


def make_sig(e, what, exc, ins, mode="plain"):
    """ins = [(g, p, k)]: one, two or three insertions."""
    if len(ins) == 1:
        g, p, k = ins[0]
        cls = INS_CLASS[k]
        if cls in X.COLLAPSED:
            sig = {"kind": what, "ins": cls}
        else:
            adj = adjacency(e, g)
            sig = {"kind": what, "ins": cls, "adjacent": adj}
            if g < 0:
                _, pc, nc, ppk = e.inner[g]
                sig["prev"], sig["next"] = pc, nc
                sig["in_pp"] = _sig_inpp(cls, ppk, True)
            elif adj == "other":
                prev, nxt = e.neighbours(g)
                sig["prev"], sig["next"] = _tokclass(prev), _tokclass(nxt)
                sig["in_pp"] = _sig_inpp(cls, _ppkind(e, p), False)
    else:
        sig = {"kind": what, "arity": len(ins), "ins": [INS_CLASS[i[2]] for i in ins],
               "adjacent": [adjacency(e, i[0]) for i in ins],
               "interaction": True}
    if any(INS_CLASS[i[2]] == "comment_multiline" for i in ins):
        # input class: where the comments spanning lines lie with respect to #define directives
        # ('+'-joined parts of _c31x.ml_comment_classes)
        mlc = X.ml_comment_classes(e.apply([(p, k) for g, p, k in ins]))
        if mlc:
            sig["mlc"] = "+".join(mlc)
    if exc:
        sig["exc"] = exc
    if mode != "plain":
        sig["mode"] = mode
    return sig


def _ppkind(e, p):
    for h, end, k in e.pplines:
        if h <= p <= end:
            return k
    return ""


# ---------------------------------------------------------------------------
# observation

def _dump(v, seen):
    from cffi import model
    if isinstance(v, (int, str, bool, float)) or v is None:
        return v
    if isinstance(v, (tuple, list)):
        return [_dump(x, seen) for x in v]
    if isinstance(v, model.BaseTypeByIdentity) or hasattr(v, "__dict__"):
        if id(v) in seen:
            return ("ref", seen[id(v)])
        seen[id(v)] = len(seen)
        return (type(v).__name__, [(k, _dump(x, seen)) for k, x in sorted(vars(v).items())])
    return ("opaque", type(v).__name__)


class _Null(object):
    def write(self, s):
        return len(s)

    def flush(self):
        pass


def snapshot(text):
    """Everything the statement talks about, for one cdef text (or a list of texts given to
    successive cdef() calls of one FFI).  A failing step is recorded as ('exc', type name)."""
    import warnings
    warnings.simplefilter("ignore")
    from cffi import FFI, model
    parts = [text] if isinstance(text, str) else list(text)
    snap = {}
    f = FFI()
    try:
        for part in parts:
            f.cdef(part)
    except Exception as e:
        return {"cdef": ("exc", type(e).__name__, str(e)[:300])}
    snap["cdef"] = ("ok",)
    seen = {}
    snap["decl"] = [(name, _dump(tp, seen), quals) for name, (tp, quals) in f._parser._declarations.items()]
    snap["const"] = sorted(f._parser._int_constants.items())
    so = sys.stdout
    sys.stdout = _Null()
    try:
        f.set_source("c31_mod", "")
        buf = io.StringIO()
        try:
            f.emit_c_code(buf)
            snap["emit_c"] = ("ok", buf.getvalue())
        except Exception as e:
            snap["emit_c"] = ("exc", type(e).__name__)
        g = FFI()
        for part in parts:
            g.cdef(part)
        g.set_source("c31_mod", None)
        buf = io.StringIO()
        try:
            g.emit_python_code(buf)
            snap["emit_py"] = ("ok", buf.getvalue())
        except Exception as e:
            snap["emit_py"] = ("exc", type(e).__name__)
    finally:
        sys.stdout = so
    lay = []
    for name, (tp, quals) in f._parser._declarations.items():
        if isinstance(tp, model.StructOrUnion) and name.split(" ", 1)[0] in ("struct", "union"):
            cname = name
            try:
                row = [cname, f.sizeof(cname), f.alignof(cname)]
                for fn, ft in f.typeof(cname).fields or ():
                    row.append((fn, ft.offset, ft.bitshift, ft.bitsize, ft.type.cname))
            except Exception as e:
                row = [cname, "exc", type(e).__name__]
            lay.append(row)
    snap["layout"] = lay
    return snap


ORDER = ("cdef", "decl", "const", "layout", "emit_c", "emit_py")
WHAT = {"cdef": "cdef_error", "decl": "decl_diff", "const": "const_diff", "layout": "layout_diff",
        "emit_c": "emit_c_diff", "emit_py": "emit_py_diff"}


def compare(base, got):
    """First difference in the fixed order, or None."""
    if got["cdef"][0] != "ok":
        return "cdef", got["cdef"][1], got["cdef"][2]
    for k in ORDER[1:]:
        if base[k] != got[k]:
            exc = got[k][1] if isinstance(got[k], tuple) and got[k][0] == "exc" else ""
            return k, exc, _first_diff(base[k], got[k])
    return None


def _first_diff(a, b):
    if isinstance(a, tuple) and isinstance(b, tuple) and a and b and a[0] == "ok" and b[0] == "ok":
        al, bl = a[1].splitlines(), b[1].splitlines()
        for i, (x, y) in enumerate(zip(al, bl)):
            if x != y:
                return "line %d: %r != %r" % (i + 1, x[:150], y[:150])
        return "length %d != %d lines" % (len(al), len(bl))
    return "%r != %r" % (repr(a)[:300], repr(b)[:300])


_entries = {}
_bases = {}
_split_bases = {}


def entry(i):
    if i not in _entries:
        _entries[i] = Entry(i, CORPUS[i][0], CORPUS[i][1])
    return _entries[i]


def base_of(i):
    if i not in _bases:
        _bases[i] = snapshot(CORPUS[i][1])
    return _bases[i]


def split_of(i):
    """(cut, reference observation) of the first line boundary at which the text works as two
    cdef() calls; (None, None) if there is none."""
    if i not in _split_bases:
        e = entry(i)
        res = (None, None)
        for cut in e.cuts:
            b = snapshot([e.text[:cut], e.text[cut:]])
            if b["cdef"][0] == "ok":
                res = (cut, b)
                break
        _split_bases[i] = res
    return _split_bases[i]


def mutate(e, mode, case):
    """The text (or the two texts) handed to cdef() for one case."""
    text = e.apply([(p, k) for g, p, k in case])
    if mode == "crlf":
        # CR LF line endings everywhere (the text's own and those of the insertions)
        return text.replace("\r\n", "\n").replace("\n", "\r\n")
    if mode == "split":
        cut = split_of(e.idx)[0]
        return [text[:cut], text[cut:]]        # every insertion offset is >= cut
    return text


def reference(e, mode):
    if mode == "split":
        return split_of(e.idx)[1]
    return base_of(e.idx)                      # CR LF: the text with LF endings is the reference


def work(item):
    """item = (entry index, mode, [case, ...]); case = () or a tuple of 1..3 (g,p,k)."""
    ei, mode, cases = item
    e = entry(ei)
    base = reference(e, mode)
    bad = []
    hist = collections.Counter()
    single_cache = {}

    def run(ins):
        return compare(base, snapshot(mutate(e, mode, ins)))

    for case in cases:
        d = run(case)
        hist["n%d" % len(case)] += 1
        if mode != "plain":
            hist["mode:" + mode] += 1
        for g, p, k in case:
            hist["ins:" + k] += 1
            hist["adj:" + adjacency(e, g)] += 1
            if g < 0:
                hist["inner:" + e.inner[g][3]] += 1
        if d is None:
            continue
        key, exc, info = d
        if len(case) == 0:
            sig = {"kind": WHAT[key], "ins": "whole_text", "mode": mode}
            if exc:
                sig["exc"] = exc
        elif len(case) >= 2:
            # is the pair/triple explained by one of its members alone?
            expl = None
            for s in case:
                if s not in single_cache:
                    single_cache[s] = run((s,))
                if single_cache[s] is not None and expl is None:
                    k1, exc1, _ = single_cache[s]
                    expl = make_sig(e, WHAT[k1], exc1, [s], mode)
            if expl is not None:
                sig = dict(expl)
                sig["arity"] = len(case)
            else:
                sig = make_sig(e, WHAT[key], exc, list(case), mode)
        else:
            sig = make_sig(e, WHAT[key], exc, list(case), mode)
            g, p, k = case[0]
            if INS_CLASS[k] in X.COLLAPSED:
                # control: the plain line directive at the same place.  If that fails too, the
                # cause is the place (K31a), not the spelling of this directive.
                ctl = (g, p, "linedir")
                dc = run((ctl,))
                if dc is not None:
                    sig = make_sig(e, WHAT[dc[0]], dc[1], [ctl], mode)
                    sig["via"] = INS_CLASS[k]
        bad.append((ei, mode, case, sig, info))
    return len(cases), hist, bad


# ---------------------------------------------------------------------------

def build_cases(quick, maxdist, pair_kinds, new_kinds):
    """-> (work items, counters of the families)."""
    items = []
    fam = collections.Counter()

    def emit(i, mode, cases):
        for c in range(0, len(cases), 400):        # chunks of ~400 cases
            items.append((i, mode, cases[c:c + 400]))

    def ordered(s1, s2):
        # second not before the first; at one offset both belong to the same gap
        if s2[1] < s1[1]:
            return False
        if s2[1] == s1[1] and s2[0] != s1[0]:
            return False
        return 0 <= s2[0] - s1[0] <= maxdist

    for i in range(len(CORPUS)):
        if _bases[i]["cdef"][0] != "ok":
            continue
        e = entry(i)
        sing = e.singles(new_kinds)
        inner = e.inner_singles()
        cases = [(s,) for s in sing] + [(s,) for s in inner]
        fam["single_first_alphabet"] += sum(1 for s in sing if s[2] in FIRST_KINDS)
        fam["single_new_kinds"] += sum(1 for s in sing if s[2] not in FIRST_KINDS)
        fam["single_inside_pp_token"] += len(inner)
        # --- pairs of the first alphabet
        # (quick: on the C31-only cdefs the second block comment '/* ; { */' is inserted alone only)
        first = [s for s in sing if s[2] in pair_kinds and not (quick and i >= len(_SHARED) and s[2] == "cmt2")]
        for s1 in first:
            for s2 in first:
                if ordered(s1, s2) and pair_allowed(e, s1, s2):
                    cases.append((s1, s2))
                    fam["pair_first_alphabet"] += 1
        # --- pairs with a comment spanning lines, inside #define lines
        mlp = [s for s in sing if s[2] in ML_PARTNERS and e.in_define(s[1])]
        for s1 in mlp:
            for s2 in mlp:
                if (s1[2] in ML_KINDS or s2[2] in ML_KINDS) and ordered(s1, s2) and pair_allowed(e, s1, s2):
                    cases.append((s1, s2))
                    fam["pair_multiline_comment_in_define"] += 1
        # --- triples at one place (thorough)
        if not quick:
            for g, p in e.positions:
                if not (e.in_define(p) or adjacency(e, g) != "other"):
                    continue
                ks = [k for k in e.kinds_at(p, new_kinds) if k in TRIPLE_KINDS]
                for k1 in ks:
                    for k2 in ks:
                        for k3 in ks:
                            t = ((g, p, k1), (g, p, k2), (g, p, k3))
                            if pair_allowed(e, t[0], t[1]) and pair_allowed(e, t[1], t[2]) \
                                    and pair_allowed(e, t[0], t[2]):
                                cases.append(t)
                                fam["triple_one_place"] += 1
        emit(i, "plain", cases)
        # --- CR LF line endings: the whole text; thorough: x every single insertion whose text
        #     has no CR of its own
        ccases = [()]
        if not quick:
            ccases += [(s,) for s in sing + inner if "\r" not in INS[s[2]]]
        fam["crlf_text"] += len(ccases)
        emit(i, "crlf", ccases)
        # --- two cdef() calls, insertions in the second
        cut = split_of(i)[0]
        if cut is not None:
            kinds = SPLIT_QUICK if quick else tuple(INS)
            scases = [(s,) for s in sing + inner if s[1] >= cut and s[2] in kinds]
            fam["split_entries"] += 1
            fam["split_cdef"] += len(scases)
            emit(i, "split", scases)
    return items, fam


def tier_kinds(quick):
    # quick tier: the tab (same class as the blank in every regex of cparser) is inserted alone only
    pair_kinds = [k for k in FIRST_KINDS if k not in ("tab", "linedir2", "linedir3")] if quick else list(FIRST_KINDS)
    new_kinds = [k for k in X.NEW_INS if k in X.QUICK_NEW] if quick else list(X.NEW_INS)
    return pair_kinds, new_kinds


def run(ctx):
    maxdist = 1 if ctx.quick else 2
    # the reference observations are computed once here (forked workers inherit them)
    rejected = []
    for i in range(len(CORPUS)):
        b = base_of(i)
        if b["cdef"][0] != "ok":
            # every corpus entry is accepted by the unchanged tree: a rejection is a change
            # in cffi's behaviour on a valid cdef that already contains the construct
            rejected.append(i)
            ctx.violation({"kind": "corpus_rejected", "entry": CORPUS[i][0], "exc": b["cdef"][1]},
                          {"entry": i, "name": CORPUS[i][0], "case": [], "text": CORPUS[i][1], "observed": b["cdef"][2]})
        else:
            split_of(i)
    pair_kinds, new_kinds = tier_kinds(ctx.quick)
    items, fam = build_cases(ctx.quick, maxdist, pair_kinds, new_kinds)
    nsingle = fam["single_first_alphabet"] + fam["single_new_kinds"] + fam["single_inside_pp_token"]
    npair = fam["pair_first_alphabet"] + fam["pair_multiline_comment_in_define"]
    ctx.log("%d corpus cdefs, %d tokens, %d single insertions, %d pairs (gap distance <= %d); families: %s" % (
        len(CORPUS), sum(len(entry(i).toks) for i in range(len(CORPUS))), nsingle, npair, maxdist,
        ", ".join("%s=%d" % kv for kv in sorted(fam.items()))))
    for k, v in fam.items():
        ctx.count("family:" + k, v)
    total = 0
    allbad = []
    nblk = 64
    for it, r in pool.pmap(work, [items[i::nblk] for i in range(nblk)]):
        if isinstance(r, pool.WorkerError):
            raise InfraError(r.tb)
        if isinstance(r, pool.Crash):
            raise InfraError("worker died in C31 (pure Python code): %s" % r.describe())
        n, hist, bad = r
        total += n
        for k, v in hist.items():
            ctx.count(k, v)
        allbad.extend(bad)
    # canonical order: singles before pairs, then by mode, entry and offsets
    allbad.sort(key=lambda b: (len(b[2]), b[1], b[0], [(s[1], s[2]) for s in b[2]]))
    import json

    def shown(ei, mode, case):
        t = mutate(entry(ei), mode, case)
        return t if isinstance(t, str) else "\n<second cdef()>\n".join(t)

    def detail_of(ei, mode, case, info, text=None):
        d = {"entry": ei, "name": entry(ei).name, "case": case, "mode": mode,
             "text": shown(ei, mode, case) if text is None else text, "observed": info}
        if mode == "split":
            d["cut"] = split_of(ei)[0]
        return d

    roots = {}
    for ei, mode, case, sig, info in allbad:
        e = entry(ei)
        mutated = shown(ei, mode, case)
        key = json.dumps(sig, sort_keys=True)
        r = roots.setdefault(key, {"sig": sig, "count": 0, "entry": e.name, "example": mutated, "observed": info})
        r["count"] += 1
        if len(mutated) < len(r["example"]):
            r["entry"], r["example"], r["observed"] = e.name, mutated, info
    # one (the shortest) example per signature first, then everything
    done = set()
    for key in sorted(roots):
        r = roots[key]
        for ei, mode, case, sig, info in allbad:
            if json.dumps(sig, sort_keys=True) == key and shown(ei, mode, case) == r["example"]:
                ctx.violation(sig, detail_of(ei, mode, case, info, r["example"]))
                done.add((ei, mode, case))
                break
    for ei, mode, case, sig, info in allbad:
        if (ei, mode, case) in done:
            continue
        ctx.violation(sig, detail_of(ei, mode, case, info))
    for i in (3, 12, 21, 27, len(_SHARED) + 5):
        e = entry(i)
        s = e.singles(new_kinds)
        ctx.sample({"entry": e.name, "inserted": e.apply([(s[len(s) // 2][1], s[len(s) // 2][2])])})
    cov = {
        "evaluations": total,
        "distinct_nontrivial": total,
        "rule": "every case is a distinct (cdef, mode, insertion positions, insertion kinds) tuple whose insertion is "
                "legal C at that place; all of them go through the full comparison (declarations, constants, layouts, "
                "both emitters), none is trivial by construction: the count is the number of cases whose mutated text "
                "differs from the original (measured: all).  Families (counts in class_histogram 'family:*'): single "
                "insertions of the first alphabet, of the added kinds (multi-line comments, CR/CRLF/FF/VT, comment "
                "contents, line-directive spellings) and in the gaps inside '#define' / line-directive lines; pairs of "
                "the first alphabet and pairs with a multi-line comment inside #define lines; the text with CR LF "
                "line endings; the text split over two cdef() calls; thorough: triples at one place",
        "exhaustive": True,
        "corpus_cdefs": len(CORPUS),
        "corpus_cdefs_shared_with_C30": len(_SHARED),
        "corpus_tokens": sum(len(entry(i).toks) for i in range(len(CORPUS))),
        "insertion_alphabet": [k for k in INS if k in FIRST_KINDS or k in new_kinds],
        "single_insertions": nsingle,
        "pair_insertions": npair,
        "families": dict(sorted(fam.items())),
        "max_gap_distance_of_pairs": maxdist,
        "pair_insertion_alphabet": pair_kinds,
        "root_causes": [dict(sig=r["sig"], count=r["count"], entry=r["entry"], example=r["example"],
                             observed=r["observed"]) for _, r in sorted(roots.items())],
    }
    return ctx.finish(cov, ["the reference is cffi's own result on the un-inserted text (differential in the insertion "
                            "only); gcc is not consulted",
                            "insertions are made at token boundaries found by an independent tokenizer (and, inside "
                            "'#define' and line-directive lines, by a regex of this check); positions inside other "
                            "tokens and inside string literals are not explored",
                            "a lone CR is white space (as in cffi after b1295bb), not a line end; form feed, vertical "
                            "tab and CR are not inserted inside directives"])


def replay(detail):
    ei = detail["entry"]
    e = entry(ei)
    mode = detail.get("mode", "plain")
    case = tuple(tuple(s) for s in detail["case"])
    print("corpus entry %s, mode %s, insertions %r" % (e.name, mode, [(p, k) for g, p, k in case]))
    print("original: %r" % e.text)
    if not case and mode == "plain":
        b = snapshot(e.text)
        print("cdef of the corpus entry itself: %r" % (b["cdef"],))
        return 1 if b["cdef"][0] != "ok" else 0
    if mode == "split":
        if split_of(ei)[0] != detail.get("cut"):
            print("the text is no longer cut at offset %r (now %r)" % (detail.get("cut"), split_of(ei)[0]))
            return 1
    text = mutate(e, mode, case)
    print("mutated:  %r" % (text,))
    d = compare(reference(e, mode), snapshot(text))
    if d is None:
        print("no difference")
        return 0
    print("DIFFERENCE in %s: %s %s" % (d[0], d[1], d[2]))
    return 1
