"""C31 -- comments, spacing, continuation lines and line directives inserted
between the tokens of a cdef do not change its meaning.

Engine E1: for every cdef of the shared corpus, every token gap (both ends of
the existing blank/comment run) x an 8-element insertion alphabet, all single
insertions and all pairs of insertions whose gaps are at most 1 (thorough 2)
apart.  Oracle: the declarations (structural dump of the model types), the
integer constants, sizeof/offsetof of every struct/union, and the text of
emit_c_code() / emit_python_code() are those of the un-inserted cdef.
"""
import collections
import io
import sys

from .. import build, pool
from ..build import InfraError
from ._corpus import CORPUS, tokenize

ID = "C31"
LEVEL = "exploration"
META = dict(
    engine="E1-enum", level="exploration",
    technique="exhaustive insertion of every whitespace/comment/continuation/line-directive form at every token gap "
              "(singles and pairs of neighbouring gaps) of a 47-cdef corpus, differential against the un-inserted cdef",
    text="At every gap between two tokens of each corpus cdef (tokenizer independent of pycparser; '...', string "
         "literals and '#define' kept whole; line directives are one token) each of ' ', tab, newline, '/**/', "
         "'/* ; { */', '// x<nl>', '<nl># 7 \"f//g...h\"<nl>' (a file name the comment and '...' regexes would mangle if it were not protected) and, inside #define lines, backslash-newline is inserted: all "
         "single insertions and all ordered pairs at gap distance <=1 (thorough <=2).  The resulting declarations, "
         "integer constants, struct layouts and the bytes written by emit_c_code()/emit_python_code() must equal those "
         "of the original text.",
    note="newline-bearing insertions are not placed strictly inside a '#' line (that would end the directive in C as "
         "well); backslash-newline is only placed inside #define lines, at token gaps; the reference is cffi itself on "
         "the un-inserted text")

INS = collections.OrderedDict([
    ("sp", " "), ("tab", "\t"), ("nl", "\n"), ("cmt", "/**/"), ("cmt2", "/* ; { */"),
    ("lcmt", "// x\n"), ("linedir", '\n# 7 "f//g...h"\n'), ("cont", "\\\n"),
    # the other spellings of a line directive: several digits + gcc's trailing flags, and '#line'
    ("linedir2", '\n# 12 "d//e...f" 1 3\n'), ("linedir3", '\n#line 35 "x//y...z"\n'),
])
NEWLINE_BEARING = ("nl", "lcmt", "linedir", "linedir2", "linedir3")
INS_CLASS = {"sp": "space", "tab": "space", "nl": "newline", "cmt": "comment", "cmt2": "comment",
             "lcmt": "line_comment", "linedir": "linedir", "linedir2": "linedir", "linedir3": "linedir", "cont": "cont"}
INT_WORDS = ("int", "long", "short", "signed", "unsigned", "char")


# ---------------------------------------------------------------------------
# the case space

class Entry(object):
    def __init__(self, idx, name, text):
        self.idx, self.name, self.text = idx, name, text
        self.toks, self.pplines = tokenize(text)
        self.positions = []                # (gap index, offset)
        n = len(self.toks)
        for g in range(n + 1):
            a = self.toks[g - 1].end if g > 0 else 0
            b = self.toks[g].start if g < n else len(text)
            for p in sorted({a, b}):
                self.positions.append((g, p))

    def kinds_at(self, p):
        inside = any(h < p < e for h, e, k in self.pplines)
        indef = any(h < p <= e and k == "define" for h, e, k in self.pplines)
        ks = ["sp", "tab", "cmt", "cmt2"]
        if not inside:
            ks += list(NEWLINE_BEARING)
        if indef:
            ks.append("cont")
        return ks

    def singles(self):
        return [(g, p, k) for g, p in self.positions for k in self.kinds_at(p)]

    def neighbours(self, g):
        prev = self.toks[g - 1] if g > 0 else None
        nxt = self.toks[g] if g < len(self.toks) else None
        return prev, nxt

    def apply(self, ins):
        """ins = [(offset, kind), ...] in application order for equal offsets."""
        text = self.text
        # stable: later offsets first; among equal offsets the later-listed goes in first so
        # that the earlier-listed ends up in front
        order = sorted(range(len(ins)), key=lambda i: (ins[i][0], i), reverse=True)
        for i in order:
            p, k = ins[i]
            text = text[:p] + INS[k] + text[p:]
        return text


def pair_allowed(e, s1, s2):
    """Both insertions are legal on the original text; exclude the one combination in which
    the first changes the legality of the second: at the same offset, a backslash-newline
    after a newline-bearing insertion is no longer inside the #define line."""
    (g1, p1, k1), (g2, p2, k2) = s1, s2
    if p1 == p2 and k2 == "cont" and k1 in NEWLINE_BEARING:
        return False
    return True


def _tokclass(t):
    if t is None:
        return "edge"
    if t.kind in ("punct", "dots"):
        return t.text
    if t.kind == "id" and t.text in ("extern", "typedef", "struct", "union", "enum", "static", "const", "__stdcall",
                                     "__cdecl", "WINAPI", "volatile") + INT_WORDS + ("float", "double", "void"):
        return t.text
    return t.kind


def adjacency(e, g):
    """Name of the cffi pseudo-token the gap lies in, or 'other'."""
    prev, nxt = e.neighbours(g)
    pt = prev.text if prev is not None else None
    nt = nxt.text if nxt is not None else None
    if (pt == "[" and nt == "...") or (pt == "..." and nt == "]"):
        return "[...]"
    if pt == "=" and nt == "...":
        return "=..."
    if pt == "..." and nt in (",", "}"):
        pp = e.toks[g - 2].text if g >= 2 else None
        return "=..." if pp == "=" else ("...}" if nt == "}" else "other")
    if pt in INT_WORDS and (nt == "..." or nt in INT_WORDS):
        # inside the run "unsigned long ..." that _r_int_dotdotdot must match as a whole
        k = g
        while k < len(e.toks) and e.toks[k].text in INT_WORDS:
            k += 1
        if k < len(e.toks) and e.toks[k].text == "...":
            return "int..."
    if nt == "..." and pt in ("float", "double"):
        return "float..."
    if pt == "extern" and nxt is not None and nxt.kind == "str":
        return 'extern "Python"'
    if prev is not None and prev.kind == "str" and g >= 2 and e.toks[g - 2].text == "extern":
        return 'extern "Python" <decl>'
    if pt == "(" and nt in ("__stdcall", "WINAPI", "__cdecl"):
        return "(__stdcall"
    return "other"


def make_sig(e, what, exc, ins):
    """ins = [(g, p, k)]: one or two insertions."""
    if len(ins) == 1:
        g, p, k = ins[0]
        adj = adjacency(e, g)
        sig = {"kind": what, "ins": INS_CLASS[k], "adjacent": adj}
        if adj == "other":
            prev, nxt = e.neighbours(g)
            sig["prev"], sig["next"] = _tokclass(prev), _tokclass(nxt)
            sig["in_pp"] = _ppkind(e, p)
    else:
        sig = {"kind": what, "arity": 2, "ins": [INS_CLASS[i[2]] for i in ins],
               "adjacent": [adjacency(e, i[0]) for i in ins],
               "interaction": True}
    if exc:
        sig["exc"] = exc
    return sig


def _ppkind(e, p):
    for h, end, k in e.pplines:
        if h <= p <= end:
            return k
    return ""


# ---------------------------------------------------------------------------
# observation

def _dump(v, seen):
    from cffi import model
    if isinstance(v, (int, str, bool, float)) or v is None:
        return v
    if isinstance(v, (tuple, list)):
        return [_dump(x, seen) for x in v]
    if isinstance(v, model.BaseTypeByIdentity) or hasattr(v, "__dict__"):
        if id(v) in seen:
            return ("ref", seen[id(v)])
        seen[id(v)] = len(seen)
        return (type(v).__name__, [(k, _dump(x, seen)) for k, x in sorted(vars(v).items())])
    return ("opaque", type(v).__name__)


class _Null(object):
    def write(self, s):
        return len(s)

    def flush(self):
        pass


def snapshot(text):
    """Everything the statement talks about, for one cdef text.  A failing step is recorded
    as ('exc', type name)."""
    import warnings
    warnings.simplefilter("ignore")
    from cffi import FFI, model
    snap = {}
    f = FFI()
    try:
        f.cdef(text)
    except Exception as e:
        return {"cdef": ("exc", type(e).__name__, str(e)[:300])}
    snap["cdef"] = ("ok",)
    seen = {}
    snap["decl"] = [(name, _dump(tp, seen), quals) for name, (tp, quals) in f._parser._declarations.items()]
    snap["const"] = sorted(f._parser._int_constants.items())
    so = sys.stdout
    sys.stdout = _Null()
    try:
        f.set_source("c31_mod", "")
        buf = io.StringIO()
        try:
            f.emit_c_code(buf)
            snap["emit_c"] = ("ok", buf.getvalue())
        except Exception as e:
            snap["emit_c"] = ("exc", type(e).__name__)
        g = FFI()
        g.cdef(text)
        g.set_source("c31_mod", None)
        buf = io.StringIO()
        try:
            g.emit_python_code(buf)
            snap["emit_py"] = ("ok", buf.getvalue())
        except Exception as e:
            snap["emit_py"] = ("exc", type(e).__name__)
    finally:
        sys.stdout = so
    lay = []
    for name, (tp, quals) in f._parser._declarations.items():
        if isinstance(tp, model.StructOrUnion) and name.split(" ", 1)[0] in ("struct", "union"):
            cname = name
            try:
                row = [cname, f.sizeof(cname), f.alignof(cname)]
                for fn, ft in f.typeof(cname).fields or ():
                    row.append((fn, ft.offset, ft.bitshift, ft.bitsize, ft.type.cname))
            except Exception as e:
                row = [cname, "exc", type(e).__name__]
            lay.append(row)
    snap["layout"] = lay
    return snap


ORDER = ("cdef", "decl", "const", "layout", "emit_c", "emit_py")
WHAT = {"cdef": "cdef_error", "decl": "decl_diff", "const": "const_diff", "layout": "layout_diff",
        "emit_c": "emit_c_diff", "emit_py": "emit_py_diff"}


def compare(base, got):
    """First difference in the fixed order, or None."""
    if got["cdef"][0] != "ok":
        return "cdef", got["cdef"][1], got["cdef"][2]
    for k in ORDER[1:]:
        if base[k] != got[k]:
            exc = got[k][1] if isinstance(got[k], tuple) and got[k][0] == "exc" else ""
            return k, exc, _first_diff(base[k], got[k])
    return None


def _first_diff(a, b):
    if isinstance(a, tuple) and isinstance(b, tuple) and a and b and a[0] == "ok" and b[0] == "ok":
        al, bl = a[1].splitlines(), b[1].splitlines()
        for i, (x, y) in enumerate(zip(al, bl)):
            if x != y:
                return "line %d: %r != %r" % (i + 1, x[:150], y[:150])
        return "length %d != %d lines" % (len(al), len(bl))
    return "%r != %r" % (repr(a)[:300], repr(b)[:300])


_entries = {}
_bases = {}


def entry(i):
    if i not in _entries:
        _entries[i] = Entry(i, CORPUS[i][0], CORPUS[i][1])
    return _entries[i]


def base_of(i):
    if i not in _bases:
        _bases[i] = snapshot(CORPUS[i][1])
    return _bases[i]


def work(item):
    """item = (entry index, [case, ...]); case = ((g,p,k),) or ((g,p,k),(g,p,k))."""
    ei, cases = item
    e = entry(ei)
    base = base_of(ei)
    bad = []
    hist = collections.Counter()
    single_cache = {}

    def run(ins):
        return compare(base, snapshot(e.apply([(p, k) for g, p, k in ins])))

    for case in cases:
        d = run(case)
        hist["n%d" % len(case)] += 1
        for g, p, k in case:
            hist["ins:" + k] += 1
            hist["adj:" + adjacency(e, g)] += 1
        if d is None:
            continue
        key, exc, info = d
        if len(case) == 2:
            # is the pair explained by one of its members alone?
            expl = None
            for s in case:
                if s not in single_cache:
                    single_cache[s] = run((s,))
                if single_cache[s] is not None and expl is None:
                    k1, exc1, _ = single_cache[s]
                    expl = make_sig(e, WHAT[k1], exc1, [s])
            if expl is not None:
                sig = dict(expl)
                sig["arity"] = 2
            else:
                sig = make_sig(e, WHAT[key], exc, list(case))
        else:
            sig = make_sig(e, WHAT[key], exc, list(case))
        bad.append((ei, case, sig, info))
    return len(cases), hist, bad


# ---------------------------------------------------------------------------

def build_cases(maxdist, pair_kinds=None):
    items = []
    nsingle = npair = 0
    for i in range(len(CORPUS)):
        if _bases[i]["cdef"][0] != "ok":
            continue
        e = entry(i)
        sing = e.singles()
        cases = [(s,) for s in sing]
        nsingle += len(sing)
        for a in range(len(sing)):
            s1 = sing[a]
            for b in range(len(sing)):
                s2 = sing[b]
                if s2[1] < s1[1]:
                    continue
                if s2[1] == s1[1] and s2[0] != s1[0]:
                    continue
                d = s2[0] - s1[0]
                if pair_kinds is not None and (s1[2] not in pair_kinds or s2[2] not in pair_kinds):
                    continue
                if 0 <= d <= maxdist and pair_allowed(e, s1, s2):
                    cases.append((s1, s2))
                    npair += 1
        # chunks of ~400 cases
        for c in range(0, len(cases), 400):
            items.append((i, cases[c:c + 400]))
    return items, nsingle, npair


def run(ctx):
    maxdist = 1 if ctx.quick else 2
    # the reference observations are computed once here (forked workers inherit them)
    rejected = []
    for i in range(len(CORPUS)):
        b = base_of(i)
        if b["cdef"][0] != "ok":
            # every corpus entry is accepted by the unchanged tree: a rejection is a change
            # in cffi's behaviour on a valid cdef that already contains the construct
            rejected.append(i)
            ctx.violation({"kind": "corpus_rejected", "entry": CORPUS[i][0], "exc": b["cdef"][1]},
                          {"entry": i, "name": CORPUS[i][0], "case": [], "text": CORPUS[i][1], "observed": b["cdef"][2]})
    # quick tier: the tab (same class as the blank in every regex of cparser) is inserted alone only
    pair_kinds = [k for k in INS if k not in ("tab", "linedir2", "linedir3")] if ctx.quick else list(INS)
    items, nsingle, npair = build_cases(maxdist, pair_kinds)
    ctx.log("%d corpus cdefs, %d tokens, %d single insertions, %d pairs (gap distance <= %d)" % (
        len(CORPUS), sum(len(entry(i).toks) for i in range(len(CORPUS))), nsingle, npair, maxdist))
    total = 0
    allbad = []
    nblk = 64
    for it, r in pool.pmap(work, [items[i::nblk] for i in range(nblk)]):
        if isinstance(r, pool.WorkerError):
            raise InfraError(r.tb)
        if isinstance(r, pool.Crash):
            raise InfraError("worker died in C31 (pure Python code): %s" % r.describe())
        n, hist, bad = r
        total += n
        for k, v in hist.items():
            ctx.count(k, v)
        allbad.extend(bad)
    # canonical order: singles before pairs, then by entry and offsets
    allbad.sort(key=lambda b: (len(b[1]), b[0], [(s[1], s[2]) for s in b[1]]))
    import json
    roots = {}
    for ei, case, sig, info in allbad:
        e = entry(ei)
        mutated = e.apply([(p, k) for g, p, k in case])
        key = json.dumps(sig, sort_keys=True)
        r = roots.setdefault(key, {"sig": sig, "count": 0, "entry": e.name, "example": mutated, "observed": info})
        r["count"] += 1
        if len(mutated) < len(r["example"]):
            r["entry"], r["example"], r["observed"] = e.name, mutated, info
    # one (the shortest) example per signature first, then everything
    done = set()
    for key in sorted(roots):
        r = roots[key]
        for ei, case, sig, info in allbad:
            if json.dumps(sig, sort_keys=True) == key and entry(ei).apply([(p, k) for g, p, k in case]) == r["example"]:
                ctx.violation(sig, {"entry": ei, "name": entry(ei).name, "case": case, "text": r["example"],
                                    "observed": info})
                done.add((ei, case))
                break
    for ei, case, sig, info in allbad:
        if (ei, case) in done:
            continue
        ctx.violation(sig, {"entry": ei, "name": entry(ei).name, "case": case,
                            "text": entry(ei).apply([(p, k) for g, p, k in case]), "observed": info})
    for i in (3, 12, 21, 27):
        e = entry(i)
        s = e.singles()
        ctx.sample({"entry": e.name, "inserted": e.apply([(s[len(s) // 2][1], s[len(s) // 2][2])])})
    cov = {
        "evaluations": total,
        "distinct_nontrivial": total,
        "rule": "every case is a distinct (cdef, insertion positions, insertion kinds) triple whose insertion is legal C "
                "at that place; all of them go through the full comparison (declarations, constants, layouts, both "
                "emitters), none is trivial by construction: the count is the number of cases whose mutated text "
                "differs from the original (measured: all)",
        "exhaustive": True,
        "corpus_cdefs": len(CORPUS),
        "corpus_tokens": sum(len(entry(i).toks) for i in range(len(CORPUS))),
        "insertion_alphabet": list(INS),
        "single_insertions": nsingle,
        "pair_insertions": npair,
        "max_gap_distance_of_pairs": maxdist,
        "pair_insertion_alphabet": pair_kinds,
        "root_causes": [dict(sig=r["sig"], count=r["count"], entry=r["entry"], example=r["example"],
                             observed=r["observed"]) for _, r in sorted(roots.items())],
    }
    return ctx.finish(cov, ["the reference is cffi's own result on the un-inserted text (differential in the insertion "
                            "only); gcc is not consulted",
                            "insertions are made at token boundaries found by an independent tokenizer; positions "
                            "inside tokens, inside string literals and inside line-directive lines are not explored"])


def replay(detail):
    ei = detail["entry"]
    e = entry(ei)
    case = [tuple(s) for s in detail["case"]]
    text = e.apply([(p, k) for g, p, k in case])
    print("corpus entry %s, insertions %r" % (e.name, [(p, k) for g, p, k in case]))
    print("original: %r" % e.text)
    print("mutated:  %r" % text)
    if not case:
        b = snapshot(text)
        print("cdef of the corpus entry itself: %r" % (b["cdef"],))
        return 1 if b["cdef"][0] != "ok" else 0
    d = compare(base_of(ei), snapshot(text))
    if d is None:
        print("no difference")
        return 0
    print("DIFFERENCE in %s: %s %s" % (d[0], d[1], d[2]))
    return 1
