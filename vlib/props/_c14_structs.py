"""C14 supplement: by-value structs of every shape as callback / extern "Python" argument and result.

The struct space is the one of C13 (`_c13_structs.struct_space`: all field sequences up to a length over 22 field
kinds -- scalars, 1-D and multi-dimensional arrays, nested structs, arrays of structs; SSE-only / INTEGER-only /
mixed eightbytes; <= 16 bytes = registers, > 16 bytes = memory -- plus four structs with a union member).  A
'long double' leaf is deliberately not in the space (not in the statement's type list).

For every struct S the module contains, next to C13's `sum_S` (weighted checksum of every leaf) and `mk_S` (struct
built from a seed), two compiled callers

    double c14s_arg_S(void *fn, int seed, int salt)   { return ((double (*)(struct S, int))fn)(mk_S(seed), salt); }
    double c14s_ret_S(void *fn, int seed, int salt)   { return sum_S(((struct S (*)(int))fn)(seed), salt); }

(fn == NULL: the extern "Python" function of that type).  They are called through ctypes.  The Python function is
attached as ffi.callback and as extern "Python"+def_extern.

Oracle (computed in Python from the leaf formulas, never with cffi):
  argument   the Python function is invoked once, sees exactly the leaves mk_S stored and the int that follows the
             struct; C receives the double it returned
  result     the Python function returns an initialiser (nested lists) / a struct cdata: C's checksum of what it
             received equals the checksum of the leaves returned
  errors     the body raises or returns an int: C receives the zero struct (checksum == salt) or error= (a struct
             cdata) or the struct returned by onerror; the exception is reported exactly once (unraisablehook or
             onerror) and does not escape
"""
import ctypes
import importlib.util
import os
import sys

from .. import build
from ..build import InfraError
from . import _c13_structs as SS

MECHS = ("callback", "extern-python")
BY_KEY = dict((k[0], k) for k in SS.KINDS + [SS.UNION_KIND])


class BodyError(Exception):
    pass


def leaves_of(kinds):
    return [t for k in kinds for t in k[2]]


def mk_leaves(leaves, seed):
    """The leaves `mk_S<i>(seed)` of _c13_structs.module_source stores, as flatten() shows them."""
    out = []
    for w, t in enumerate(leaves):
        if t == "char":
            out.append((seed + w) % 100 + 1)
        elif t in ("float", "double"):
            out.append(float(seed * 2 + w) + 0.25)
        elif t == "_Bool":
            out.append((seed + w) % 2)
        elif t == "unsigned int":
            out.append(0x80000000 + seed * 3 + w * 5)
        elif t == "wchar_t":
            out.append(0x100 + seed + w)
        elif t == "unsigned char":
            out.append((seed * 3 + w * 5) & 0xff)           # the C assignment truncates
        else:
            out.append(seed * 3 + w * 5)
    return out


def checksum(values, salt):
    return float(salt) + sum(float(v) * (w + 1) for w, v in enumerate(values))


def has_union(kinds):
    return any(k[3] == "union" for k in kinds)


def module_source(structs):
    cdef, src = SS.module_source(structs)
    cdef, src = [cdef], [src]
    for si, _kinds in enumerate(structs):
        d = {"i": si}
        cdef.append('extern "Python" double xs_sum_%(i)d(struct S%(i)d, int);\n'
                    'extern "Python" struct S%(i)d xs_mk_%(i)d(int);\n' % d)
        src.append("static double xs_sum_%(i)d(struct S%(i)d, int);\nstatic struct S%(i)d xs_mk_%(i)d(int);\n"
                   "double c14s_arg_%(i)d(void *fn, int seed, int salt) { double (*f)(struct S%(i)d, int) = "
                   "fn ? (double (*)(struct S%(i)d, int))fn : xs_sum_%(i)d; return f(mk_S%(i)d(seed), salt); }\n"
                   "double c14s_ret_%(i)d(void *fn, int seed, int salt) { struct S%(i)d (*f)(int) = "
                   "fn ? (struct S%(i)d (*)(int))fn : xs_mk_%(i)d; return sum_S%(i)d(f(seed), salt); }\n" % d)
    return "".join(cdef), "".join(src)


HOOK_LOG = []


def _hook(u):
    HOOK_LOG.append(getattr(u.exc_type, "__name__", "?"))


def build_module(bid, structs, tag=""):
    import cffi
    cdef, src = module_source(structs)
    d = os.path.join(build.scratch(), "c14s-%s%d" % (tag, bid))
    os.makedirs(d, exist_ok=True)
    name = "_c14s_%s%d_%d" % (tag, os.getpid(), bid)
    ffi = cffi.FFI()
    ffi.cdef(cdef)
    ffi.set_source(name, src, extra_compile_args=["-O0", "-g0", "-w"])
    try:
        so = ffi.compile(tmpdir=d, verbose=False)
    except Exception as e:
        raise InfraError("struct-shape library %s did not compile: %s: %s" % (name, type(e).__name__, e))
    spec = importlib.util.spec_from_file_location(name, so)
    mod = importlib.util.module_from_spec(spec)
    spec.loader.exec_module(mod)
    return mod, ctypes.CDLL(so)


# the cases of one (struct, mechanism): (name, which caller, keyword configuration, body)
CASES = [
    ("arg:seed5", "arg", "none", "ret"),
    ("arg:seed77", "arg", "none", "ret"),
    ("ret:init", "ret", "none", "ret:init"),
    ("ret:cdata", "ret", "none", "ret:cdata"),
    ("ret:init", "ret", "error", "ret:init"),
    ("ret:raise", "ret", "none", "raise"),
    ("ret:raise", "ret", "error", "raise"),
    ("ret:unconvertible", "ret", "error", "ret:int"),
    ("ret:raise", "ret", "onerror-value+error", "raise"),
    ("ret:raise", "ret", "onerror-none+error", "raise"),
    ("arg:raise", "arg", "error", "raise"),
]


def run_struct(mod, cd, si, kinds, mech):
    """Execute every case of struct number si of the module.
    Returns (#cases, #error cases, [(kind, case name, info)], excluded)."""
    ffi = mod.ffi
    leaves = leaves_of(kinds)
    vals = [SS.leaf_value(t, w) for w, t in enumerate(leaves)]            # what the Python function returns
    evals = [SS.leaf_value(t, w + 1) for w, t in enumerate(leaves)]       # error=
    ovals = [SS.leaf_value(t, w + 2) for w, t in enumerate(leaves)]       # what onerror returns
    sname = "struct S%d" % si
    bad = []
    n = nerr = 0
    callers = {}
    for which in ("arg", "ret"):
        f = getattr(cd, "c14s_%s_%d" % (which, si))
        f.argtypes = [ctypes.c_void_p, ctypes.c_int, ctypes.c_int]
        f.restype = ctypes.c_double
        callers[which] = f
    for cname, which, cfg, bodymode in CASES:
        seen = []
        oncalls = []
        keep = []

        def new_struct(values):
            p = ffi.new(sname + " *", SS.build_init(kinds, values, ffi))
            keep.append(p)
            return p[0]

        def body(*args):
            try:
                if which == "arg":
                    seen.append((SS.flatten(args[0], ffi), args[1]) if len(args) == 2 else ("arity", len(args)))
                else:
                    seen.append(tuple(args))
            except Exception as e:                   # reading the argument failed: recorded, not raised
                seen.append(("unreadable", "%s: %s" % (type(e).__name__, e)))
            if bodymode == "raise":
                raise BodyError("boom")
            if which == "arg":
                return 1000.5 + args[1]
            if bodymode == "ret:init":
                return SS.build_init(kinds, vals, ffi)
            if bodymode == "ret:cdata":
                return new_struct(vals)
            return 5                                 # ret:int -- not convertible to a struct

        kw = {}
        if cfg == "error" or cfg.endswith("+error"):
            kw["error"] = new_struct(evals) if which == "ret" else -42.5
        if cfg.startswith("onerror"):
            def handler(exc, val, tb):
                oncalls.append(getattr(exc, "__name__", "?"))
                return new_struct(ovals) if cfg.startswith("onerror-value") else None
            kw["onerror"] = handler
        cdecl = ("double (*)(%s, int)" if which == "arg" else "%s (*)(int)") % sname
        try:
            if mech == "callback":
                cb = ffi.callback(cdecl, body, **kw)
                keep.append(cb)
                addr = int(ffi.cast("uintptr_t", cb))
            else:
                ffi.def_extern(name=("xs_sum_%d" if which == "arg" else "xs_mk_%d") % si, **kw)(body)
                addr = None
        except NotImplementedError as e:
            if has_union(kinds) and mech == "callback":
                return n, nerr, bad, True            # documented: a struct with a union member cannot go through libffi
            bad.append(("callback-refused", cname, {"cfg": cfg, "exc": "%s: %s" % (type(e).__name__, e)}))
            continue
        del HOOK_LOG[:]
        seed = 77 if cname == "arg:seed77" else 5
        escaped = None
        try:
            got = callers[which](addr, seed, 9)
        except BaseException as e:                   # noqa: B902
            escaped, got = "%s: %s" % (type(e).__name__, e), None
        n += 1
        is_error = bodymode in ("raise", "ret:int")
        nerr += is_error
        if escaped is not None:
            bad.append(("exception-escaped", cname, {"cfg": cfg, "exc": escaped}))
        want_seen = (mk_leaves(leaves, seed), 9) if which == "arg" else (seed,)
        if len(seen) != 1:
            bad.append(("python-function-invocations", cname, {"cfg": cfg, "calls": len(seen)}))
        elif seen[0] != want_seen:
            bad.append(("arguments-seen", cname, {"cfg": cfg, "seen": repr(seen[0])[:300], "passed": repr(want_seen)[:300]}))
        if which == "arg":
            want = (-42.5 if "error" in kw else 0.0) if is_error else 1000.5 + 9
        elif not is_error:
            want = checksum(vals, 9)
        elif cfg.startswith("onerror-value"):
            want = checksum(ovals, 9)
        elif "error" in kw:
            want = checksum(evals, 9)
        else:
            want = 9.0                               # the zero struct
        if got is not None and got != want:
            bad.append(("result-value", cname, {"cfg": cfg, "checksum_received_by_C": got, "expected": want}))
        nh = len(HOOK_LOG)
        if not is_error:
            if nh or oncalls:
                bad.append(("error-reported-without-error", cname, {"cfg": cfg, "hook": HOOK_LOG[:2], "onerror": oncalls[:2]}))
        elif "onerror" in kw:
            if len(oncalls) != 1 or nh:
                bad.append(("onerror-calls-in-error-case", cname, {"cfg": cfg, "hook": HOOK_LOG[:2], "onerror": oncalls[:2]}))
        elif nh != 1:
            bad.append(("hook-calls-in-error-case", cname, {"cfg": cfg, "hook": HOOK_LOG[:3]}))
    return n, nerr, bad, False


def decl_of(kinds):
    return " ".join(k[1].format(n="f%d" % j) for j, k in enumerate(kinds))


def work(item):
    """One module: a block of structs, both mechanisms.  Returns a dict of counters and mismatches."""
    bid, structs = item
    sys.unraisablehook = _hook
    mod, cd = build_module(bid, structs)
    res = {"structs": len(structs), "cases": 0, "errors": 0, "excluded_union_libffi": 0, "bad": []}
    for si, kinds in enumerate(structs):
        for mech in MECHS:
            n, nerr, bad, excluded = run_struct(mod, cd, si, kinds, mech)
            res["cases"] += n
            res["errors"] += nerr
            if excluded:
                res["excluded_union_libffi"] += 1
            for kind, cname, info in bad:
                res["bad"].append((kind, mech, cname, [k[0] for k in kinds], decl_of(kinds), info))
    return res


def replay(detail):
    sys.unraisablehook = _hook
    blocks = detail.get("block") or [detail["kinds"]]
    structs = [tuple(BY_KEY[k] for k in keys) for keys in blocks]
    mod, cd = build_module(0, structs, tag="replay")
    found = 0
    for si, kinds in enumerate(structs):
        for mech in MECHS if "mech" not in detail else (detail["mech"],):
            n, _nerr, bad, excluded = run_struct(mod, cd, si, kinds, mech)
            print("struct { %s } | mechanism: %s | %d cases%s" % (decl_of(kinds), mech, n,
                                                                 " | refused by libffi (union member)" if excluded else ""))
            for b in bad:
                print("MISMATCH", b)
                if detail.get("kind") in (None, b[0]):
                    found += 1
    return 1 if found else 0
