"""C05 -- floating-point, complex and long double stores.

E1: a structured, exhaustively enumerated set of double bit patterns (every
float exponent x mantissa classes x {the float, +-1 double-ulp, both rounding
ties and +-1 double-ulp around them} x sign, all subnormal / overflow
boundaries, infinities, NaNs) x {float, double, long double, float _Complex,
double _Complex} x every store path x {float, object with __float__};
1-character bytes/str through ffi.cast; an 80-bit pattern set for long double.

Oracle: the conversion compiled by gcc ((float)x, (double)(float)x, (long
double)x) applied in bulk through ctypes, compared bit for bit (a NaN must stay
a NaN); the value a compiled C function receives is read through ctypes; the 10
significant bytes of a long double must survive every copy unchanged.
"""
import contextlib
import ctypes
import importlib.util
import io
import math
import os
import struct
import sys

from .. import build, cref, pool
from ..build import InfraError

ID = "C05"
LEVEL = "exploration"
META = dict(
    engine="E1-enum", level="exploration",
    technique="exhaustive enumeration of a structured set of double / x87 bit patterns x target type x store path, "
              "bit-exact against gcc-compiled conversions",
    text="~27.6k distinct double bit patterns (all 255 float exponents x 8 mantissa classes x {exact, +-1 ulp, both rounding ties, "
         "+-1 ulp around each tie} x sign; subnormal, underflow and overflow boundaries; infinities; quiet/signalling "
         "NaNs) stored into float and double through 20 paths (new, array / nested array / struct dict and list / union "
         "initializer, item, slice, field, global, cast, API-mode and libffi argument, float and double cdata in the "
         "variadic part of a call, callback and extern \"Python\" result) and into the API-mode names 'typedef "
         "float... ff_t' / 'typedef double... df_t' through their 16 paths, from floats, __float__ objects, double and "
         "float cdata, ints and bools; into both complex types part by part through 13 paths (incl. extern \"Python\" "
         "results, slice, struct dict) from complex, __complex__ objects, a cdata of the other complex type and "
         "floats (+ all pairs of a 40-value subset) and into long double; every 1-byte bytes / chosen 1-char str "
         "through cast; ~12.9k 80-bit long double patterns copied through 38 paths (15 stores from p[0], the value "
         "passed INTO a callback / extern \"Python\" function and returned, variadic argument, slice from a list and "
         "from an array, and {unpack, iteration, list(), struct field, in-line ABI global} reads x {new, item, "
         "argument} stores).  Bytes and read-back are compared with gcc's conversion bit for bit; destinations shared "
         "by several paths are poisoned before each store.",
    note="gcc 12 / x86-64 SSE2 round-to-nearest is the authority, reached through ctypes; NaN payloads are not compared; "
         "pseudo-denormal, unnormal and pseudo-NaN x87 encodings are excluded (they are not values)")

FLOAT_T = ["float", "double"]
CPLX_T = {"float _Complex": ("fc", 4), "double _Complex": ("dc", 8)}

# ---------------------------------------------------------------------------------------
# value sets


def dbits(x):
    return struct.unpack("<Q", struct.pack("<d", x))[0]


def fromb(b):
    return struct.unpack("<d", struct.pack("<Q", b))[0]


def f32(bits):
    return struct.unpack("<f", struct.pack("<I", bits))[0]


def is_nan_bits64(b):
    return (b >> 52) & 0x7FF == 0x7FF and b & ((1 << 52) - 1) != 0


def is_nan_bytes(raw):
    if len(raw) == 4:
        v = struct.unpack("<I", raw)[0]
        return (v >> 23) & 0xFF == 0xFF and v & ((1 << 23) - 1) != 0
    return is_nan_bits64(struct.unpack("<Q", raw)[0])


def mantissas(quick):
    top = (1 << 23) - 1
    mid = 1 << 22
    ms = {0, 1, 2, mid - 1, mid, mid + 1, top - 1, top}
    if not quick:
        ms.update(range(0, 16))
        ms.update(range(top - 15, top + 1))
        ms.update(1 << k for k in range(23))
        ms.update((1 << k) - 1 for k in range(1, 24))
        ms.update((0x2AAAAA, 0x555555, 0x400001, 0x3FFFFE))
    return sorted(ms)


def double_patterns(quick):
    """{bit pattern: class}; the class of the first construction that produces a pattern wins."""
    out = {}

    def add(x, cls):
        for b in (dbits(x), dbits(x) ^ (1 << 63)):
            out.setdefault(b, cls)

    INF = math.inf
    add(0.0, "zero")
    for e in range(0, 255):
        for m in mantissas(quick):
            fb = (e << 23) | m
            if fb == 0:
                continue
            f = f32(fb)
            fn = f32(fb + 1) if fb + 1 < 0x7F800000 else None       # next float up
            fp = f32(fb - 1)                                         # next float down (0.0 for the smallest)
            rng = "subnormal_float" if e == 0 else ("max_exponent" if e == 254 else "normal")
            add(f, "exactly_a_float:" + rng)
            add(math.nextafter(f, INF), "float+1ulp:" + rng)
            add(math.nextafter(f, 0.0), "float-1ulp:" + rng)
            up = (f + fn) / 2 if fn is not None else f + (f - fp) / 2
            dn = (f + fp) / 2
            for tie, nm in ((up, "tie_above"), (dn, "tie_below")):
                even = "to_even_up" if ((m & 1) == (1 if nm == "tie_above" else 0)) else "to_even_down"
                if fn is None and nm == "tie_above":
                    even = "overflow_to_inf"
                add(tie, "%s(%s):%s" % (nm, even, rng))
                add(math.nextafter(tie, INF), "%s+1ulp:%s" % (nm, rng))
                add(math.nextafter(tie, 0.0), "%s-1ulp:%s" % (nm, rng))
    for x, cls in ((1.7976931348623157e308, "double_max"), (math.nextafter(1.7976931348623157e308, 0.0), "double_max"),
                   (2.2250738585072014e-308, "double_min_normal"), (math.nextafter(2.2250738585072014e-308, 0.0),
                                                                    "double_subnormal"),
                   (5e-324, "double_subnormal"), (1e-320, "double_subnormal"), (math.ldexp(1.0, -1050), "double_subnormal"),
                   (math.ldexp(1.0, 128), "overflow"), (1e300, "overflow"), (math.ldexp(1.0, 1023), "overflow"),
                   (math.nextafter(math.ldexp(1.0, 128), 0.0), "overflow_boundary"),
                   (math.ldexp(1.0, -150), "underflow_tie_to_zero"), (math.nextafter(math.ldexp(1.0, -150), INF),
                                                                      "underflow_boundary"),
                   (math.nextafter(math.ldexp(1.0, -150), 0.0), "underflow_boundary"),
                   (math.ldexp(1.0, -151), "underflow"), (math.ldexp(1.0, -200), "underflow"),
                   (0.1, "decimal"), (1.0 / 3.0, "decimal"), (math.pi, "decimal"), (1e10, "decimal"),
                   (16777217.0, "tie_integer"), (16777219.0, "tie_integer"), (INF, "infinity")):
        add(x, cls)
    for b in (0x7FF8000000000000, 0x7FF0000000000001, 0x7FFFFFFFFFFFFFFF, 0x7FF4000000000000, 0x7FF8000000000001,
              0x7FF0000020000000, 0x7FF000001FFFFFFF):
        out.setdefault(b, "nan")
        out.setdefault(b | (1 << 63), "nan")
    return out


def complex_subset():
    """40 doubles for the all-pairs part of the complex check."""
    one = 1.0
    vals = [0.0, -0.0, 1.0, -1.5, 0.1, -0.1, math.pi, 1.0 / 3.0,
            f32(0x7F7FFFFF), -f32(0x7F7FFFFF),                                  # FLT_MAX
            f32(0x7F7FFFFF) + math.ldexp(1.0, 103),                            # tie -> inf
            math.nextafter(f32(0x7F7FFFFF) + math.ldexp(1.0, 103), 0.0),       # just below -> FLT_MAX
            math.ldexp(1.0, -149), math.ldexp(1.0, -150), math.nextafter(math.ldexp(1.0, -150), math.inf),
            -math.ldexp(1.0, -150), math.ldexp(1.0, -126), math.nextafter(math.ldexp(1.0, -126), 0.0),
            one + math.ldexp(1.0, -24), one + 3 * math.ldexp(1.0, -24),       # ties: to even down / up
            math.nextafter(one + math.ldexp(1.0, -24), 2.0), math.nextafter(one + math.ldexp(1.0, -24), 0.0),
            -(one + math.ldexp(1.0, -24)), 16777217.0, -16777219.0,
            math.inf, -math.inf, fromb(0x7FF8000000000000), fromb(0xFFF0000000000001), fromb(0x7FFFFFFFFFFFFFFF),
            1.7976931348623157e308, -1.7976931348623157e308, 5e-324, -5e-324, 2.2250738585072014e-308,
            1e300, -1e300, 1e-300, 65504.0, -123456.789]
    bits = []
    for v in vals:
        b = dbits(v)
        if b not in bits:
            bits.append(b)
    if len(bits) != 40:
        raise InfraError("complex subset has %d distinct values" % len(bits))
    return bits


def ld_patterns(quick):
    """80-bit x87 patterns as (int of 10 little-endian bytes) -> class.  Only encodings that are values."""
    out = {}
    excluded = 0
    exps = {0, 1, 2, 3, 0x3BCC, 0x3BCD, 0x3BCE, 0x3C00, 0x3C01, 0x3C02, 0x3F6A, 0x3F80, 0x3F81, 0x3FFD, 0x3FFE, 0x3FFF,
            0x4000, 0x4001, 0x403E, 0x403F, 0x4040, 0x407E, 0x407F, 0x43FD, 0x43FE, 0x43FF, 0x4400, 0x7FFC, 0x7FFD,
            0x7FFE, 0x7FFF}
    exps.update(range(0, 0x8000, 64 if quick else 1))
    I = 1 << 63
    normal_m = [I, I | 1, I | 0x400, I | 0x7FF, I | 0x800, I | 0xFFF, I | (1 << 62), 0xFFFFFFFFFFFFF800,
                0xFFFFFFFFFFFFFFFF, I | 0x2AAAAAAAAAAAAAAA, I | 0x5555555555555555, I | 0x0000000000000C00]
    denorm_m = [0, 1, 0x400, 0x7FFFFFFFFFFFFFFF, 0x5555555555555555, 1 << 62]
    nan_m = [I, I | (1 << 62), I | (1 << 62) | 1, I | 1, I | 0x3FFFFFFFFFFFFFFF, 0xFFFFFFFFFFFFFFFF, I | 0x400]
    for e in sorted(exps):
        if e == 0:
            ms, cls = denorm_m, None
            excluded += len(normal_m)          # pseudo-denormals
        elif e == 0x7FFF:
            ms, cls = nan_m, None
            excluded += len(denorm_m)          # pseudo-NaN / pseudo-infinity
        else:
            ms, cls = normal_m, "normal"
            excluded += len(denorm_m)          # unnormals
        for m in ms:
            for s in (0, 1):
                c = cls
                if e == 0:
                    c = "zero" if m == 0 else "denormal"
                elif e == 0x7FFF:
                    c = "infinity" if m == I else ("quiet_nan" if m & (1 << 62) else "signalling_nan")
                else:
                    lowbits = m & 0x7FF
                    dbl_exp = 0x3C01 <= e <= 0x43FE
                    c = "normal:" + ("representable_as_double" if (lowbits == 0 and dbl_exp) else
                                     "needs_64_bit_mantissa" if lowbits else "exponent_outside_double")
                out[(s << 79) | (e << 64) | m] = c
    return out, 2 * excluded


# ---------------------------------------------------------------------------------------
# the compiled world

REF_SRC = r"""
#include <string.h>
void d2f(const double *in, unsigned int *fbits, double *widened, long n) {
    long i; for (i = 0; i < n; i++) { volatile float f = (float)in[i]; float g = f; memcpy(&fbits[i], &g, 4);
        widened[i] = (double)g; } }
void d2ld(const double *in, unsigned char *out, long n) {
    long i; for (i = 0; i < n; i++) { long double v = (long double)in[i]; memcpy(out + 16 * i, &v, 10); } }
int sizeof_ld(void) { return (int)sizeof(long double); }
"""

KINDS = [("f", "float", 4), ("d", "double", 8), ("ld", "long double", 16), ("fc", "float _Complex", 8),
         ("dc", "double _Complex", 16)]
# API mode only: the C compiler tells cffi which floating type it is ("typedef float... T": _cffi_prim_float(),
# (T)_cffi_to_c_double() in the generated wrappers).  (kind, name, size, the type it really is)
API_KINDS = [("ff", "ff_t", 4, "float"), ("df", "df_t", 8, "double")]
REAL_KINDS = ("f", "d", "ld", "ff", "df")        # kinds that libffi can return from a callback


def all_kinds(api):
    return KINDS + ([(k, t, size) for k, t, size, _ in API_KINDS] if api else [])


def api_source():
    out = ["#include <stdarg.h>\n#include <string.h>\ntypedef float ff_t; typedef double df_t;\n"]
    for k, t, size in all_kinds(True):
        out.append("%(t)s rec_%(k)s; %(t)s g_%(k)s; int ncalls_%(k)s;\n"
                   "struct s_%(k)s { char c; %(t)s f; };\n"
                   "union u_%(k)s { %(t)s f; char pad[32]; };\n"
                   "%(t)s id_%(k)s(%(t)s x) { rec_%(k)s = x; ncalls_%(k)s++; return x; }\n"
                   "static %(t)s ep_%(k)s(void);\n"
                   "%(t)s call_ep_%(k)s(void) { rec_%(k)s = ep_%(k)s(); return rec_%(k)s; }\n" % dict(k=k, t=t))
        if k in REAL_KINDS:
            out.append("%(t)s call_cb_%(k)s(%(t)s (*cb)(void)) { rec_%(k)s = cb(); return rec_%(k)s; }\n"
                       % dict(k=k, t=t))
    out.append("""
double rec_vad;
double vad(int n, ...) { va_list ap; va_start(ap, n); rec_vad = va_arg(ap, double); va_end(ap); return rec_vad; }
long double va_ld(int n, ...) { va_list ap; va_start(ap, n); rec_ld = va_arg(ap, long double); va_end(ap);
    return rec_ld; }
/* a long double that travels INTO Python as an argument and comes back as the result */
long double echo_cb_ld(long double (*cb)(long double), long double *p) { rec_ld = cb(*p); return rec_ld; }
static long double ep3_ld(long double, int, long double);
long double call_ep3_ld(long double *p, int which) {
    long double other = 0.25L;
    rec_ld = which ? ep3_ld(other, 7, *p) : ep3_ld(*p, 7, other);
    return rec_ld; }
""")
    return "".join(out)


def cdef_text(api):
    out = []
    if api:
        out.append("typedef float... ff_t;\ntypedef double... df_t;\n")
    for k, t, size in all_kinds(api):
        out.append("extern %(t)s g_%(k)s;\nstruct s_%(k)s { char c; %(t)s f; };\n"
                   "union u_%(k)s { %(t)s f; char pad[32]; };\n" % dict(k=k, t=t))
        if api or k in ("f", "d", "ld"):
            out.append("%(t)s id_%(k)s(%(t)s);\n" % dict(k=k, t=t))
        if k in REAL_KINDS:
            out.append("%(t)s call_cb_%(k)s(%(t)s (*)(void));\n" % dict(k=k, t=t))
        if api:
            out.append('extern "Python" %(t)s ep_%(k)s(void);\n%(t)s call_ep_%(k)s(void);\n' % dict(k=k, t=t))
    out.append("double vad(int, ...);\nlong double va_ld(int, ...);\n"
               "long double echo_cb_ld(long double (*)(long double), long double *);\n")
    if api:
        out.append('extern "Python" long double ep3_ld(long double, int, long double);\n'
                   "long double call_ep3_ld(long double *, int);\n")
    return "".join(out)


class World(object):
    def __init__(self, tag):
        import cffi
        d = os.path.join(build.scratch_shared(), "c05_%s_%d" % (tag, os.getpid()))
        os.makedirs(d, exist_ok=True)
        name = "_c05u_%s_%d" % (tag, os.getpid())
        fb = cffi.FFI()
        fb.cdef(cdef_text(True))
        fb.set_source(name, api_source())
        self.so = fb.compile(tmpdir=d)
        spec = importlib.util.spec_from_file_location(name, self.so)
        mod = importlib.util.module_from_spec(spec)
        spec.loader.exec_module(mod)
        sys.modules[name] = mod
        self.ffi, self.lib = mod.ffi, mod.lib
        self.abi_ffi = cffi.FFI()
        self.abi_ffi.cdef(cdef_text(False))
        self.abi_lib = self.abi_ffi.dlopen(self.so)
        self.cdll = ctypes.CDLL(self.so)
        self.ref = cref.load_c(REF_SRC)
        if self.ref.sizeof_ld() != 16:
            raise InfraError("long double is not the 16-byte x87 type here")

    def rec(self, k, size):
        return (ctypes.c_ubyte * size).in_dll(self.cdll, "rec_" + k)

    def expected(self, bits_list):
        """{bits: (float bytes, widened double bytes, long double 10 bytes)} computed by gcc."""
        n = len(bits_list)
        arr = (ctypes.c_ulonglong * n)(*bits_list)
        fb = (ctypes.c_uint * n)()
        wd = (ctypes.c_ulonglong * n)()
        ld = (ctypes.c_ubyte * (16 * n))()
        self.ref.d2f(arr, fb, wd, ctypes.c_long(n))
        self.ref.d2ld(arr, ld, ctypes.c_long(n))
        ldraw = bytes(ld)
        return {b: (struct.pack("<I", fb[i]), struct.pack("<Q", wd[i]), ldraw[16 * i:16 * i + 10])
                for i, b in enumerate(bits_list)}


class HasFloat(object):
    def __init__(self, x):
        self.x = x

    def __float__(self):
        return self.x


_W = None
_EXP = None
_CLS = None
_BROKEN_API_KINDS = set()      # 'typedef float... T' names that cffi realised as another type (reported; not run)


def check_api_kinds():
    """[(sig, detail)]: what cffi made of the 'typedef float... / double...' names must be the C type."""
    bad = []
    _BROKEN_API_KINDS.clear()
    for k, t, size, real in API_KINDS:
        try:
            got = _W.ffi.typeof(t).cname
        except Exception as e:
            got = "%s: %s" % (type(e).__name__, e)
        if got != real:
            _BROKEN_API_KINDS.add(t)
            bad.append(({"kind": "api-typedef-realised-as-other-type", "target": t},
                        {"kind": "api-typedef-realised-as-other-type", "target": t, "got": got, "expected": real}))
    return bad


def scalar_paths(w, k, t, size, api_only=False):
    """[(path, fn, expectation)] with fn(src) -> (stored bytes or None, read-back python float or None).
    stored bytes come from cffi-owned memory (ffi.buffer) or from the C side (ctypes).
    expectation: None = the conversion to t; "widened_float" = C sees (double)(float)x (a float cdata in the
    variadic part of a call)."""
    ffi, lib = w.ffi, w.lib
    P = []
    buf = ffi.buffer

    def new_ptr(x):
        p = ffi.new(t + " *", x)
        return bytes(buf(p)), p[0]

    def new_arr(x):
        p = ffi.new(t + "[]", [x])
        return bytes(buf(p)), p[0]

    def new_struct(x):
        p = ffi.new("struct s_%s *" % k, {"f": x})
        return bytes(buf(ffi.addressof(p, "f"))), p.f

    def new_struct_list(x):
        p = ffi.new("struct s_%s *" % k, [b"x", x])
        return bytes(buf(ffi.addressof(p, "f"))), p.f

    def new_union(x):
        p = ffi.new("union u_%s *" % k, {"f": x})
        return bytes(buf(p))[:size], p.f

    def new_nested(x):
        p = ffi.new(t + "[2][2]", [[0.0, x]])
        return bytes(buf(p))[size:2 * size], p[0][1]

    # locations that several paths write are poisoned before each store: a store that does not happen (or writes
    # only a part) must not be hidden by the same value left there by the previous path
    poison = bytes([POISON]) * size
    arr = ffi.new(t + "[3]")
    abuf = buf(arr)

    def item(x):
        abuf[size:2 * size] = poison
        arr[1] = x
        return bytes(abuf)[size:2 * size], arr[1]

    def setslice(x):
        abuf[size:2 * size] = poison
        arr[1:2] = [x]
        return bytes(abuf)[size:2 * size], arr[1]

    st = ffi.new("struct s_%s *" % k)
    fld = buf(ffi.addressof(st, "f"))

    def field(x):
        fld[:] = poison
        st.f = x
        return bytes(fld), st.f

    gname = "g_" + k
    gbuf = (ctypes.c_ubyte * size).in_dll(w.cdll, gname)

    def glob(x):
        ctypes.memset(gbuf, POISON, size)
        setattr(lib, gname, x)
        return bytes(gbuf), getattr(lib, gname)

    def glob_abi(x):
        ctypes.memset(gbuf, POISON, size)
        setattr(w.abi_lib, gname, x)
        return bytes(gbuf), getattr(w.abi_lib, gname)

    def cast(x):
        c = ffi.cast(t, x)
        return None, float(c)

    def cast_then_store(x):
        p = ffi.new(t + " *", ffi.cast(t, x))
        return bytes(buf(p)), p[0]

    rec = w.rec(k, size)

    def mk_call(f):
        def call(x):
            ctypes.memset(rec, POISON, size)
            r = f(x)
            return bytes(rec), r
        return call

    P += [("new", new_ptr), ("new_array", new_arr), ("new_struct", new_struct), ("item", item), ("field", field),
          ("global/api", glob), ("global/abi", glob_abi), ("cast", cast), ("cast_then_new", cast_then_store),
          ("arg/api", mk_call(getattr(lib, "id_" + k))),
          ("arg/api_addressof", mk_call(ffi.addressof(lib, "id_" + k)))]
    if not api_only:
        P.append(("arg/abi", mk_call(getattr(w.abi_lib, "id_" + k))))
    else:
        P = [e for e in P if e[0] != "global/abi"]
    # container forms / slice store: separate branches of convert_struct_from_object, convert_array_from_object,
    # cdata_ass_slice
    P += [("new_struct_list", new_struct_list), ("new_union", new_union), ("new_nested_array", new_nested),
          ("setslice", setslice)]
    P = [(name, fn, None) for name, fn in P]
    # a cdata in the variadic part of a call: a float is promoted to double, as C does
    if t in ("float", "double"):
        recv = (ctypes.c_ubyte * 8).in_dll(w.cdll, "rec_vad")
        for mode, vlib, vffi in (("api", lib, ffi), ("abi", w.abi_lib, w.abi_ffi)):
            def vararg(x, vlib=vlib, vffi=vffi):
                ctypes.memset(recv, POISON, 8)
                r = vlib.vad(1, vffi.cast(t, x))
                return bytes(recv), r
            P.append(("vararg_cdata/" + mode, vararg, "widened_float" if t == "float" else None))
    box = [0.0]

    def ret():
        return box[0]
    cb = ffi.callback("%s(void)" % t, ret)
    w_keep.append(cb)
    caller = getattr(lib, "call_cb_" + k)

    def cb_result(x):
        box[0] = x
        ctypes.memset(rec, POISON, size)
        r = caller(cb)
        return bytes(rec), r
    ffi.def_extern(name="ep_" + k)(ret)
    epcaller = getattr(lib, "call_ep_" + k)

    def ep_result(x):
        box[0] = x
        ctypes.memset(rec, POISON, size)
        r = epcaller()
        return bytes(rec), r
    P += [("callback_result", cb_result, None), ("extern_python_result", ep_result, None)]
    return P


w_keep = []
POISON = 0xDD       # 0xDDDD... is an ordinary (normal, negative) value in all three formats, not a NaN


def check_scalars(payload, only=None):
    """float and double targets (and the API-mode 'typedef float... / double...' names for them) from a Python
    float for every pattern; for the patterns flagged 'full' also from a __float__ object, from a double and a float
    cdata, from an int / bool where the value is one, and into long double.  payload = [(bits, full)]."""
    w = _W
    ffi = w.ffi
    bad = []
    hist = {}
    n = 0
    paths = {}
    for k, t, size in KINDS[:3]:
        paths[t] = scalar_paths(w, k, t, size)
    for k, t, size, real in API_KINDS:
        paths[t] = scalar_paths(w, k, t, size, api_only=True) if t not in _BROKEN_API_KINDS else []
    pack = struct.pack

    def report(kind, t, path, sname, b, **kw):
        x = fromb(b)
        sig = {"kind": kind, "target": t, "path": path, "source": sname, "value_class": _CLS[b].split(":")[0]}
        det = {"kind": kind, "target": t, "path": path, "source": sname, "bits": b, "value": repr(x)}
        det.update(kw)
        bad.append((sig, det))

    for b, full in payload:
        x = fromb(b)
        fbytes, wbytes, ldbytes = _EXP[b]
        xbytes = pack("<Q", b)
        nan = is_nan_bits64(b)
        # (source name, object, narrowed: the source itself already holds (float)x)
        srcs = [("float", x, False)]
        if full:
            srcs += [("__float__", HasFloat(x), False), ("cdata_double", ffi.cast("double", x), False),
                     ("cdata_float", ffi.cast("float", x), True)]
            if not nan and not math.isinf(x) and x == math.floor(x) and (x != 0.0 or b == 0):
                srcs.append(("int", int(x), False))         # ints have __float__; int(x) is exact here
                if x in (0.0, 1.0):
                    srcs.append(("bool", bool(x), False))
        for t, tkind in (("float", "f"), ("double", "d"), ("long double", "ld"), ("ff_t", "f"), ("df_t", "d")):
            isld = tkind == "ld"
            if isld and not full:
                continue
            for path, fn, expectation in paths[t]:
                if isld and path == "cast":
                    continue                # nothing observable without a second store
                for sname, src, narrowed in srcs:
                    if only is not None and (t, path, sname) != only:
                        continue
                    if isld and narrowed:
                        continue            # (long double)(float)x: no reference computed for it
                    n += 1
                    if only is None:
                        hk = t + ":" + path
                        hist[hk] = hist.get(hk, 0) + 1
                        if sname != "float":
                            hk = "source:" + sname
                            hist[hk] = hist.get(hk, 0) + 1
                    if tkind == "f" and expectation is None:
                        want_raw, want_back = fbytes, wbytes
                    elif tkind == "f" or (tkind == "d" and narrowed):
                        want_raw, want_back = wbytes, wbytes          # C sees / stores (double)(float)x
                    elif tkind == "d":
                        want_raw, want_back = xbytes, xbytes
                    else:
                        want_raw, want_back = ldbytes, None
                    try:
                        raw, back = fn(src)
                    except Exception as e:
                        report("raised", t, path, sname, b, error="%s: %s" % (type(e).__name__, e))
                        continue
                    if raw is not None:
                        if isld:
                            raw = raw[:10]
                            okraw = is_nan_ld(raw) if nan else raw == want_raw
                        else:
                            okraw = is_nan_bytes(raw) if nan else raw == want_raw
                        if not okraw:
                            report("stored-bytes", t, path, sname, b, got=raw.hex(), expected=want_raw.hex())
                            continue
                    if not isld:
                        if type(back) is not float:
                            report("readback-type", t, path, sname, b, got=repr(back))
                            continue
                        if not (back != back if nan else pack("<d", back) == want_back):
                            report("readback", t, path, sname, b, got=pack("<d", back).hex(), expected=want_back.hex())
    return n, hist, bad


def is_nan_ld(raw10):
    v = int.from_bytes(raw10, "little")
    return (v >> 64) & 0x7FFF == 0x7FFF and (v & ((1 << 63) - 1)) != 0


def complex_paths(w, k, t, half):
    ffi, lib = w.ffi, w.lib
    size = 2 * half
    buf = ffi.buffer

    def new_ptr(z):
        p = ffi.new(t + " *", z)
        return bytes(buf(p)), p[0]

    def new_arr(z):
        p = ffi.new(t + "[]", [z])
        return bytes(buf(p)), p[0]

    def new_struct(z):
        p = ffi.new("struct s_%s *" % k, [b"x", z])
        return bytes(buf(ffi.addressof(p, "f"))), p.f

    def new_struct_dict(z):
        p = ffi.new("struct s_%s *" % k, {"f": z})
        return bytes(buf(ffi.addressof(p, "f"))), p.f
    poison = bytes([POISON]) * size
    arr = ffi.new(t + "[3]")
    abuf = buf(arr)

    def item(z):
        abuf[2 * size:] = poison
        arr[2] = z
        return bytes(abuf)[2 * size:], arr[2]

    def setslice(z):
        abuf[2 * size:] = poison
        arr[2:3] = (z,)
        return bytes(abuf)[2 * size:], arr[2]
    st = ffi.new("struct s_%s *" % k)
    fld = buf(ffi.addressof(st, "f"))

    def field(z):
        fld[:] = poison
        st.f = z
        return bytes(fld), st.f
    gname = "g_" + k
    gbuf = (ctypes.c_ubyte * size).in_dll(w.cdll, gname)

    def glob(z):
        ctypes.memset(gbuf, POISON, size)
        setattr(lib, gname, z)
        return bytes(gbuf), getattr(lib, gname)

    def glob_abi(z):
        ctypes.memset(gbuf, POISON, size)
        setattr(w.abi_lib, gname, z)
        return bytes(gbuf), getattr(w.abi_lib, gname)

    def cast(z):
        return None, complex(ffi.cast(t, z))

    def cast_then_store(z):
        p = ffi.new(t + " *", ffi.cast(t, z))
        return bytes(buf(p)), p[0]
    rec = w.rec(k, size)
    idf = getattr(lib, "id_" + k)

    def arg(z):
        ctypes.memset(rec, POISON, size)
        r = idf(z)
        return bytes(rec), r
    # extern "Python" with a complex result (ffi.callback refuses complex results: libffi)
    box = [0j]
    ffi.def_extern(name="ep_" + k)(lambda: box[0])
    epcaller = getattr(lib, "call_ep_" + k)

    def ep_result(z):
        box[0] = z
        ctypes.memset(rec, POISON, size)
        r = epcaller()
        return bytes(rec), r
    return [("new", new_ptr), ("new_array", new_arr), ("new_struct", new_struct), ("item", item), ("field", field),
            ("global/api", glob), ("global/abi", glob_abi), ("cast", cast), ("cast_then_new", cast_then_store),
            ("arg/api", arg), ("extern_python_result", ep_result), ("new_struct_dict", new_struct_dict),
            ("setslice", setslice)]


class HasComplex(object):
    def __init__(self, z):
        self.z = z

    def __complex__(self):
        return self.z


def coarse_class(cls):
    c = cls.split(":")[0]
    if c in ("exactly_a_float", "zero"):
        return "exact"
    if c in ("nan", "infinity"):
        return c
    if c.startswith(("overflow", "underflow", "double_")):
        return "out_of_float_range"
    return "inexact"


def check_complex(pairs, only=None):
    """pairs = [(bits of the real part, bits of the imaginary part, full)].  Every pair is stored from a Python
    complex; the 'full' pairs also from an object with __complex__, from a cdata of the other complex type (the
    float _Complex one has already narrowed both parts) and, where the imaginary part is +0.0, from a Python float."""
    w = _W
    ffi = w.ffi
    bad = []
    hist = {}
    n = 0
    paths = {t: complex_paths(w, k, t, half) for t, (k, half) in CPLX_T.items()}
    pack = struct.pack

    def report(kind, t, path, sname, bre, bim, z, **kw):
        sig = {"kind": kind, "target": t, "path": path, "source": sname,
               "value_class": "%s|%s" % (coarse_class(_CLS[bre]), coarse_class(_CLS[bim]))}
        det = {"kind": kind, "target": t, "path": path, "source": sname, "bits": bre, "bits_imag": bim,
               "value": repr(z)}
        det.update(kw)
        bad.append((sig, det))

    for bre, bim, full in pairs:
        z = complex(fromb(bre), fromb(bim))
        nans = (is_nan_bits64(bre), is_nan_bits64(bim))
        # the constructor must not have disturbed the parts (the harness relies on it)
        if (not nans[0] and dbits(z.real) != bre) or (not nans[1] and dbits(z.imag) != bim):
            raise InfraError("complex() changed a part")
        anynan = nans[0] or nans[1]
        for t, (k, half) in CPLX_T.items():
            narrow = (_EXP[bre][0], _EXP[bim][0]), (_EXP[bre][1], _EXP[bim][1])
            exact = (pack("<Q", bre), pack("<Q", bim))
            # (source name, object, narrowed: the source holds ((float)re, (float)im))
            srcs = [("complex", z, False)]
            if full:
                other = [o for o in CPLX_T if o != t][0]
                srcs += [("__complex__", HasComplex(z), False),
                         ("cdata_other_complex", ffi.cast(other, z), CPLX_T[other][1] == 4)]
                if bim == 0:
                    srcs.append(("float", z.real, False))
            for sname, src, narrowed in srcs:
                if half == 4:
                    want_parts, want_back = narrow
                elif narrowed:
                    want_parts = want_back = narrow[1]
                else:
                    want_parts = want_back = exact
                want_raw = want_parts[0] + want_parts[1]
                for path, fn in paths[t]:
                    if only is not None and (t, path, sname) != only:
                        continue
                    n += 1
                    if only is None:
                        hk = t + ":" + path
                        hist[hk] = hist.get(hk, 0) + 1
                        if sname != "complex":
                            hk = "complex_source:" + sname
                            hist[hk] = hist.get(hk, 0) + 1
                    try:
                        raw, back = fn(src)
                    except Exception as e:
                        report("raised", t, path, sname, bre, bim, z, error="%s: %s" % (type(e).__name__, e))
                        continue
                    if raw is not None and raw != want_raw:
                        ok = anynan
                        if anynan:
                            for j in (0, 1):
                                part = raw[j * half:(j + 1) * half]
                                if not (is_nan_bytes(part) if nans[j] else part == want_parts[j]):
                                    ok = False
                        if not ok:
                            report("stored-bytes", t, path, sname, bre, bim, z, got=raw.hex(), expected=want_raw.hex())
                            continue
                    if type(back) is not complex:
                        report("readback-type", t, path, sname, bre, bim, z, got=repr(back))
                        continue
                    br, bi = back.real, back.imag
                    if not ((br != br if nans[0] else pack("<d", br) == want_back[0]) and
                            (bi != bi if nans[1] else pack("<d", bi) == want_back[1])):
                        report("readback", t, path, sname, bre, bim, z, got=repr(back))
    return n, hist, bad


def check_chars(only=None):
    """1-character bytes / str through ffi.cast (the only path the statement names for them)."""
    w = _W
    ffi = w.ffi
    bad = []
    n = 0
    hist = {}
    srcs = [("bytes", bytes([c]), c) for c in range(256)]
    srcs += [("str", chr(c), c) for c in (0, 1, 0x41, 0x7F, 0x80, 0xFF, 0x100, 0xD7FF, 0xD800, 0xDFFF, 0xE000, 0xFFFF,
                                          0x10000, 0xFFFFF, 0x100000, 0x10FFFF)]
    exp = w.expected(sorted({dbits(float(c)) for _, _, c in srcs}))
    for sname, obj, c in srcs:
        b = dbits(float(c))
        for t in ("float", "double", "float _Complex", "double _Complex"):
            if only is not None and (t, "cast", sname) != only[:3]:
                continue
            if only is not None and only[3] != c:
                continue
            n += 1
            hist["cast_char:" + sname] = hist.get("cast_char:" + sname, 0) + 1
            sig = {"target": t, "path": "cast", "source": sname, "value_class": "code_point"}
            det = {"target": t, "path": "cast", "source": sname, "code": c}
            want = exp[b][1] if t.startswith("float") else struct.pack("<Q", b)
            try:
                cd = ffi.cast(t, obj)
                if "Complex" in t:
                    z = complex(cd)
                    got, imag = z.real, z.imag
                    stored = bytes(ffi.buffer(ffi.new(t + " *", cd)))
                else:
                    got, imag = float(cd), 0.0
                    stored = bytes(ffi.buffer(ffi.new(t + " *", cd)))
            except Exception as e:
                bad.append((dict(sig, kind="raised"), dict(det, kind="raised", error="%s: %s" % (type(e).__name__, e))))
                continue
            half = 4 if t.startswith("float") else 8
            want_st = (exp[b][0] if half == 4 else struct.pack("<Q", b))
            if "Complex" in t:
                want_st = want_st + bytes(half)
            if struct.pack("<d", got) != want or struct.pack("<d", imag) != struct.pack("<d", 0.0) or stored != want_st:
                bad.append((dict(sig, kind="value"), dict(det, kind="value", got=repr((got, imag)), stored=stored.hex(),
                                                          expected=float(c))))
    return n, hist, bad


def ld_paths(w):
    ffi, lib = w.ffi, w.lib
    buf = ffi.buffer
    src = ffi.new("long double *")
    sbuf = buf(src)
    rec = w.rec("ld", 16)
    gbuf = (ctypes.c_ubyte * 16).in_dll(w.cdll, "g_ld")

    # other places a long double can be read from: an array (iteration, unpack), a struct field, a global seen
    # through the in-line ABI library
    srcarr = ffi.new("long double[1]")
    sarrbuf = buf(srcarr)
    srcst = ffi.new("struct s_ld *")
    sstbuf = buf(ffi.addressof(srcst, "f"))

    def load(raw10):
        sbuf[:] = raw10 + b"\xEE" * 6
        sarrbuf[:] = sbuf[:]
        sstbuf[:] = sbuf[:]
        # every destination that several paths write: see POISON
        abuf[:] = poison2
        fld[:] = poison2[:16]
        ctypes.memset(rec, POISON, 16)
        ctypes.memset(gbuf, POISON, 16)
        return src
    poison2 = bytes([POISON]) * 32

    def p_new(s):
        return bytes(buf(ffi.new("long double *", s[0])))

    def p_new_arr(s):
        return bytes(buf(ffi.new("long double[]", [s[0]])))

    def p_new_struct(s):
        p = ffi.new("struct s_ld *", {"f": s[0]})
        return bytes(buf(ffi.addressof(p, "f")))
    arr = ffi.new("long double[2]")
    abuf = buf(arr)

    def p_item(s):
        arr[1] = s[0]
        return bytes(buf(arr))[16:]
    st = ffi.new("struct s_ld *")
    fld = buf(ffi.addressof(st, "f"))

    def p_field(s):
        st.f = s[0]
        return bytes(fld)

    def p_cast(s):
        return bytes(buf(ffi.new("long double *", ffi.cast("long double", s[0]))))

    def p_glob(s):
        lib.g_ld = s[0]
        return bytes(gbuf)

    def p_glob_read(s):
        ctypes.memmove(gbuf, bytes(sbuf), 16)
        return bytes(buf(ffi.new("long double *", lib.g_ld)))

    def p_glob_abi(s):
        w.abi_lib.g_ld = s[0]
        return bytes(gbuf)

    def p_arg(s):
        lib.id_ld(s[0])
        return bytes(rec)

    def p_ret(s):
        return bytes(buf(ffi.new("long double *", lib.id_ld(s[0]))))

    def p_arg_abi(s):
        r = w.abi_lib.id_ld(s[0])
        return bytes(rec)

    def p_ret_abi(s):
        return bytes(buf(ffi.new("long double *", w.abi_lib.id_ld(s[0]))))
    box = [None]

    def ret():
        return box[0]
    cb = ffi.callback("long double(void)", ret)
    w_keep.append(cb)

    def p_cb(s):
        box[0] = s[0]
        lib.call_cb_ld(cb)
        return bytes(rec)
    # (re-)register the extern "Python" function for this block: scalar blocks register it with their own box
    ffi.def_extern(name="ep_ld")(ret)

    def p_ep(s):
        box[0] = s[0]
        lib.call_ep_ld()
        return bytes(rec)
    P = [("new", p_new), ("new_array", p_new_arr), ("new_struct", p_new_struct), ("item", p_item),
         ("field", p_field), ("cast_then_new", p_cast), ("global/api", p_glob), ("global_read/api", p_glob_read),
         ("global/abi", p_glob_abi), ("arg/api", p_arg), ("return/api", p_ret), ("arg/abi", p_arg_abi),
         ("return/abi", p_ret_abi), ("callback_result", p_cb), ("extern_python_result", p_ep)]

    # the value travels INTO Python as an argument (libffi args[] for ffi.callback, a pointer slot written by the
    # generated trampoline for extern "Python") and comes back as the result
    echo = ffi.callback("long double(long double)", lambda a: a)
    w_keep.append(echo)

    def p_cb_arg(s):
        lib.echo_cb_ld(echo, s)
        return bytes(rec)
    sel = [0]
    ffi.def_extern(name="ep3_ld")(lambda a, n7, b: b if sel[0] else a)

    def p_ep_arg_first(s):
        sel[0] = 0
        lib.call_ep3_ld(s, 0)
        return bytes(rec)

    def p_ep_arg_third(s):
        sel[0] = 1
        lib.call_ep3_ld(s, 1)
        return bytes(rec)

    def p_vararg(s):
        lib.va_ld(1, s[0])
        return bytes(rec)

    def p_vararg_abi(s):
        w.abi_lib.va_ld(1, s[0])
        return bytes(rec)

    # slice stores: from a list (item loop) and from an array cdata of the same type (memmove fast path)
    def p_slice_list(s):
        arr[1:2] = [s[0]]
        return bytes(buf(arr))[16:]

    def p_slice_array(s):
        arr[1:2] = srcarr
        return bytes(buf(arr))[16:]

    def p_new_struct_list(s):
        p = ffi.new("struct s_ld *", [b"x", s[0]])
        return bytes(buf(ffi.addressof(p, "f")))
    P += [("callback_arg", p_cb_arg), ("extern_python_arg/first", p_ep_arg_first),
          ("extern_python_arg/third", p_ep_arg_third), ("vararg/api", p_vararg), ("vararg/abi", p_vararg_abi),
          ("setslice_list", p_slice_list), ("setslice_array", p_slice_array), ("new_struct_list", p_new_struct_list)]

    # read paths x store paths
    def rd_global_abi():
        ctypes.memmove(gbuf, bytes(sbuf), 16)
        return w.abi_lib.g_ld
    readers = [("unpack", lambda: ffi.unpack(src, 1)[0]), ("iter", lambda: next(iter(srcarr))),
               ("list", lambda: list(srcarr)[0]), ("field", lambda: srcst.f), ("global/abi", rd_global_abi)]

    def st_new(v):
        return bytes(buf(ffi.new("long double *", v)))

    def st_item(v):
        arr[1] = v
        return bytes(buf(arr))[16:]

    def st_arg(v):
        lib.id_ld(v)
        return bytes(rec)
    for rname, rd in readers:
        for sname, store in (("new", st_new), ("item", st_item), ("arg/api", st_arg)):
            P.append(("%s<-%s" % (sname, rname), lambda s, rd=rd, store=store: store(rd())))
    return load, P


def check_ld(pats, only=None):
    w = _W
    load, paths = ld_paths(w)
    bad = []
    hist = {}
    n = 0
    for pat, cls in pats:
        raw = pat.to_bytes(10, "little")
        for path, fn in paths:
            if only is not None and ("long double", path, "long double") != only:
                continue
            n += 1
            hist["long_double:" + path] = hist.get("long_double:" + path, 0) + 1
            sig = {"target": "long double", "path": path, "source": "long double", "value_class": cls}
            det = {"target": "long double", "path": path, "source": "long double", "pattern": raw.hex()}
            try:
                got = fn(load(raw))[:10]
            except Exception as e:
                bad.append((dict(sig, kind="raised"), dict(det, kind="raised", error="%s: %s" % (type(e).__name__, e))))
                continue
            if got != raw:
                bad.append((dict(sig, kind="long-double-copy"), dict(det, kind="long-double-copy", got=got.hex())))
    return n, hist, bad


def work(item):
    kind, payload = item
    if kind == "scalar":
        return check_scalars(payload)
    if kind == "complex":
        return check_complex(payload)
    if kind == "ld":
        return check_ld(payload)
    if kind == "chars":
        return check_chars()
    raise InfraError("unknown block kind %r" % (kind,))


def setup(tag, quick):
    global _W, _EXP, _CLS
    _W = World(tag)
    _CLS = double_patterns(quick)
    sub = complex_subset()
    for b in sub:
        _CLS.setdefault(b, "subset")
    allbits = sorted(_CLS)
    _EXP = _W.expected(allbits)
    return allbits, sub


def run(ctx):
    allbits, sub = setup("all", ctx.quick)
    ctx.log("world built; %d double patterns" % len(allbits))
    for sig, info in check_api_kinds():
        ctx.violation(sig, info)
    old_hook = sys.unraisablehook
    for b in allbits:
        ctx.count("double:" + _CLS[b])
    # float -> float/double from a Python float: every pattern.  __float__ objects and the long double target
    # (on which the statement is nearly silent): every pattern in the thorough tier; in the quick tier every
    # pattern outside the bulk class "normal" + every 8th of the rest (all paths in both cases).
    nfull = 0
    payload = []
    for i, b in enumerate(allbits):
        full = (not ctx.quick) or not _CLS[b].endswith(":normal") or i % 8 == 0
        nfull += full
        payload.append((b, full))
    # complex: every pattern once as real and once as imaginary part (partner: the pattern 7 places further in
    # the sorted list, so that classes mix), + all pairs of the 40-value subset
    nb = len(allbits)
    cpairs = [(a, b) for a in sub for b in sub]
    cpairs += [(allbits[i], allbits[(i + 7) % nb]) for i in range(nb) if payload[i][1] or i % 4 == 0]
    cpairs += [(allbits[(i - 7) % nb], allbits[i]) for i in range(nb) if payload[i][1] or i % 4 == 0]
    if not ctx.quick:
        c0 = dbits(-1.5)
        cpairs += [(b, c0) for b in allbits] + [(c0, b) for b in allbits]
    # 'full' pairs (also stored from a __complex__ object, from a cdata of the other complex type and, the
    # imaginary part being +0.0, from a Python float): all subset pairs + every 'full' pattern with +0.0
    subset_pairs = set((a, b) for a in sub for b in sub)
    real_only = set((allbits[i], 0) for i in range(nb) if payload[i][1])
    cfull = subset_pairs | real_only
    cpairs = sorted(set(cpairs) | cfull)
    cpairs = [(a, b, (a, b) in cfull) for a, b in cpairs]
    ldp, ld_excluded = ld_patterns(ctx.quick)
    lditems = sorted(ldp.items())
    for _, c in lditems:
        ctx.count("long_double:" + c)
    ctx.count("long_double:excluded_encodings(pseudo-denormal, unnormal, pseudo-NaN/inf)", ld_excluded)
    blocks = [("chars", None)]
    blocks += [("scalar", c) for c in pool.chunks(payload, 1000)]
    blocks += [("complex", c) for c in pool.chunks(cpairs, 2500)]
    blocks += [("ld", c) for c in pool.chunks(lditems, 1500)]
    ctx.log("%d blocks" % len(blocks))
    total = 0
    results = []
    # the quick tier is ~10 CPU-seconds of work: more than a handful of workers costs more than it saves
    for item, r in pool.pmap(work, [[b] for b in blocks], nproc=min(pool.NPROC, 6) if ctx.quick else None):
        if isinstance(r, pool.WorkerError):
            raise InfraError(r.tb)
        if isinstance(r, pool.Crash):
            ctx.violation({"kind": "crash", "block": item[0]}, {"kind": "crash", "block": item[0], "how": r.describe(),
                                                                "first": repr(item[1][:1]) if item[1] else None})
            continue
        results.append((blocks.index(item), r))
    results.sort(key=lambda t: t[0])
    for _, (n, hist, bad) in results:
        total += n
        for k, c in hist.items():
            ctx.count("path:" + k, c)
        for sig, info in bad:
            ctx.violation(sig, info)
    nontrivial = sum(1 for b in allbits if not _CLS[b].startswith(("exactly_a_float", "zero", "decimal", "subset")))
    for b in allbits[::997]:
        ctx.sample({"double_bits": "%016x" % b, "value": repr(fromb(b)), "class": _CLS[b],
                    "float_bits_by_gcc": _EXP[b][0][::-1].hex()})
    cov = {
        "evaluations": total,
        "distinct_nontrivial": nontrivial,
        "double_patterns": len(allbits),
        "double_patterns_also_from___float___and_into_long_double": nfull,
        "complex_pairs": len(cpairs),
        "long_double_patterns": len(lditems),
        "rule": "doubles: for each of the 255 float exponents (0 = subnormal floats) x mantissa in %s x {the float, +-1 "
                "double-ulp, the tie with the next float up and down, +-1 double-ulp around each tie} x sign, + double "
                "max/min/subnormals, overflow and underflow boundaries, infinities, 7 NaN payloads x sign; each stored "
                "into float and double (and the API-mode 'typedef float.../double...' names) through every path from a "
                "Python float; %s also from a __float__ object, a double cdata, a float cdata, an int / bool where "
                "the value is one, and into long double through every path; %s as real and as imaginary part of both "
                "complex types + all 40x40 pairs of a subset; the subset pairs and every such pattern with imaginary "
                "part +0.0 also from a __complex__ object, a cdata of the other complex type and a Python float; 256 "
                "bytes + 16 str "
                "through cast; long double: %s exponents x 12 mantissa patterns (6 denormal, 7 NaN/inf) x sign through "
                "38 copy paths (stores x read paths, callback / extern \"Python\" arguments, variadic arguments, "
                "slices); non-trivial = distinct double patterns that are not exactly representable as a float "
                "(the conversion has to round, overflow, underflow or keep a NaN)" % (
                    "{0,1,2,mid-1,mid,mid+1,max-1,max}" if ctx.quick else
                    "{0..15, max-15..max, 2^k, 2^k-1, mid+-1, 0x2AAAAA, 0x555555} (%d values)" % len(mantissas(False)),
                    "every pattern outside the bulk class 'normal float exponent' and every 8th pattern inside it"
                    if ctx.quick else "every pattern", "every pattern outside the bulk class and every 4th inside it (the "
                    "other part being the pattern 7 places away)"
                    if ctx.quick else "each pattern (paired with -1.5 and with the pattern 7 places away)",
                    "31 boundary + every 64th" if ctx.quick else "all 32768"),
        "exhaustive": True,
        "bound": {"mantissa_classes": len(mantissas(ctx.quick)), "ld_exponent_step": 64 if ctx.quick else 1},
    }
    sys.unraisablehook = old_hook
    return ctx.finish(cov, [
        "gcc 12 on x86-64 (SSE2, round-to-nearest-even) computes (float)x, (double)(float)x and (long double)x; ctypes "
        "carries the bit patterns in and out",
        "NaN: only NaN-ness is compared for float/double targets (the statement says 'NaN stays NaN'); long double "
        "copies are compared bit for bit including NaN payloads",
        "x87 encodings that are not values (pseudo-denormals, unnormals, pseudo-NaN/infinity) are excluded and counted",
        "bytes 10..15 of a long double are padding and are not compared"])


def replay(detail):
    quick = True
    allbits, sub = setup("replay", quick)
    kind = detail.get("kind")
    if kind == "crash":
        print(detail)
        return 1
    if kind == "api-typedef-realised-as-other-type":
        bad = [b for b in check_api_kinds() if b[1]["target"] == detail["target"]]
        print("typedef float.../double... %s: %s" % (detail["target"], bad[0][1] if bad else "realised as the C type"))
        return 1 if bad else 0
    check_api_kinds()
    t, path, source = detail["target"], detail["path"], detail["source"]
    if source == "long double":
        pat = int.from_bytes(bytes.fromhex(detail["pattern"]), "little")
        n, hist, bad = check_ld([(pat, "replay")], only=(t, path, source))
    elif "bits_imag" in detail:
        for b in (detail["bits"], detail["bits_imag"]):
            _CLS.setdefault(b, "replay")
        _EXP.update(_W.expected([detail["bits"], detail["bits_imag"]]))
        n, hist, bad = check_complex([(detail["bits"], detail["bits_imag"], True)], only=(t, path, source))
    elif source in ("bytes", "str"):
        n, hist, bad = check_chars(only=(t, path, source, detail["code"]))
    else:
        b = detail["bits"]
        _CLS.setdefault(b, "replay")
        _EXP.update(_W.expected([b]))
        n, hist, bad = check_scalars([(b, True)], only=(t, path, source))
    print("%d case(s) re-executed: target %s, path %s, source %s, %s" % (
        n, t, path, source, detail.get("value", detail.get("pattern", detail.get("code")))))
    for sig, info in bad:
        print("MISMATCH", info)
    if not bad:
        print("no mismatch")
    return 1 if bad else 0
