"""C18, families added after the audit round (shapes of the cdata p, of the FFI and of the length argument).

The main alphabet of c18.py varies the ITEM (type, bytes, alignment); p itself is always either a cast pointer
or a from_buffer array of length exactly n.  b_unpack only looks at c_type and c_data, while p[i] also looks
at the array length, at the kind of cdata object and (for structs of a compiled module) forces the lazy field
list.  The families here hold the item alphabet small and enumerate those other axes:

 * forms     -- 20 further kinds of pointer / array cdata (owning, gc'ed, allocator-made, field arrays of
                normal and packed structs, flexible tails with and without a length word, slices, longer
                arrays, dereferenced pointers to arrays, element addresses), every item type.
 * boundary  -- n = 0 on NULL pointers and on pointers to items of unknown size (inside the statement: "any
                n >= 0"), zero-sized items; n >= 1 on items of unknown size is only counted.
 * nforms    -- the length given as keyword, as an int subclass, as an object with __index__, as a bool, and
                through _cffi_backend.unpack directly.
 * compiled  -- the ffi object of a compiled (API mode) module: ffi_obj.c's unpack entry point, structs whose
                field list is still lazy when unpack() meets them, enums and "typedef int... t" types whose
                size the C compiler chose (1-byte enums).

All are finite products executed completely; the oracle is the element-wise read, as in the main family.
"""
import itertools
import json
import os

from ..build import InfraError

BASE = 48          # distance from st.pad: room for one item of any type before the start

NONOWNING = ("ptr_to_array_exact", "ptr_to_array_longer", "from_buffer_longer", "from_buffer_fixed", "slice",
             "addressof_element", "gc_pointer", "custom_allocator", "cast_struct_field_array",
             "cast_struct_flex_tail")
OWNING = ("new_array_exact", "new_array_longer", "new_array_open", "new_pointer", "gc_new_array",
          "default_allocator", "field_array", "packed_field_array", "flex_tail", "packed_flex_tail")
FORMS = NONOWNING + OWNING


def _base():
    from . import c18
    return c18


def form_offsets(quick):
    return (0, 1) if quick else tuple(range(17))


def sub_alphabet(T, cls, size):
    al = _base().item_alphabet(T, cls, size)
    return al[:4]          # zero, 1, 2 (not a _Bool), all-ones (not a char32_t, a NaN)


def form_contents(T, cls, size, n, small):
    """n = 1: the item alphabet and the specials; n = 2, 3: all tuples over the item alphabet (over its first four
    items when `small`); n = 4: all tuples over the first four items."""
    base = _base()
    if n == 0:
        return [b""]
    if n == 1:
        return base.item_alphabet(T, cls, size) + [b for b in base.specials(T, cls, size)
                                                   if b not in base.item_alphabet(T, cls, size)]
    if small or n > 3:
        al = sub_alphabet(T, cls, size)
    else:
        al = base.item_alphabet(T, cls, size)
    return [b"".join(t) for t in itertools.product(al, repeat=n)]


def ensure_structs(st, ti):
    """struct types with a field array / a flexible tail of item type TYPES[ti], normal and packed."""
    done = st.__dict__.setdefault("xdecl", {})
    if ti in done:
        return done[ti]
    ffi = st.ffi
    T = _base().TYPES[ti][0]
    arr = ffi.getctype(T, "arr[4]")
    tail = ffi.getctype(T, "tail[]")
    ok = {}
    for name, text, packed in (("FA", "struct c18FA%d { char pad; %s; };" % (ti, arr), False),
                               ("PA", "struct c18PA%d { char pad; %s; };" % (ti, arr), True),
                               ("FT", "struct c18FT%d { int k; %s; };" % (ti, tail), False),
                               ("PT", "struct c18PT%d { char k; %s; };" % (ti, tail), True)):
        ffi.cdef(text, packed=packed)
        tp = ffi.typeof("struct c18%s%d *" % (name, ti))
        fld = dict(ffi.typeof("struct c18%s%d" % (name, ti)).fields)
        ok[name] = (tp, fld["arr" if name in ("FA", "PA") else "tail"].offset)
    done[ti] = ok
    return ok


def _noop(p):
    pass


def make(st, ti, T, form, content, n, off):
    """Build the cdata p of the given form holding `content` as its first n items.
    Returns (p, keepalive, address) or None when the form has no instance for this n."""
    ffi = st.ffi
    size, align, ptype, kind = st.info[T]
    nb = n * size
    if form in NONOWNING:
        start = st.pad + BASE + off
        ba = st.ba
        ba[start - 40:start] = b"\xee" * 40
        ba[start:start + nb] = content[:nb]
        ba[start + nb:start + nb + 3 * size + 16] = b"\xee" * (3 * size + 16)
        addr = st.addr + start
        keep = None
        if form == "ptr_to_array_exact":
            p = ffi.cast(ffi.getctype(T, "(*)[%d]" % n), st.cbase + start)[0]
        elif form == "ptr_to_array_longer":
            p = ffi.cast(ffi.getctype(T, "(*)[%d]" % (n + 2)), st.cbase + start)[0]
        elif form == "from_buffer_longer":
            p = ffi.from_buffer(ffi.getctype(T, "[]"), st.mv[start:start + nb + 2 * size])
            if len(p) != n + 2:
                raise InfraError("from_buffer gave length %d, wanted %d" % (len(p), n + 2))
        elif form == "from_buffer_fixed":
            p = ffi.from_buffer(ffi.getctype(T, "[%d]" % (n + 1)), st.mv[start:start + nb + size])
        elif form == "slice":
            p = ffi.cast(ptype, st.cbase + (start - size))[1:1 + n]
        elif form == "addressof_element":
            keep = ffi.from_buffer(ffi.getctype(T, "[]"), st.mv[start - size:start + nb + size])
            p = ffi.addressof(keep, 1)
        elif form == "gc_pointer":
            p = ffi.gc(ffi.cast(ptype, st.cbase + start), _noop)
        elif form == "custom_allocator":
            where = ffi.cast("char *", st.cbase + start)
            alloc = ffi.new_allocator(alloc=lambda nbytes: where, free=None, should_clear_after_alloc=False)
            p = alloc(ffi.getctype(T, "[%d]" % (n + 1)))
        elif form == "cast_struct_field_array":
            if n > 4:
                return None
            tp, fo = ensure_structs(st, ti)["PA"]
            keep = ffi.cast(tp, st.cbase + (start - fo))
            p = keep.arr
        elif form == "cast_struct_flex_tail":
            tp, fo = ensure_structs(st, ti)["PT"]
            keep = ffi.cast(tp, st.cbase + (start - fo))
            p = keep.tail                       # 'T[]' without any length
        else:
            raise InfraError("form %r" % (form,))
        got_addr = int(ffi.cast(st.uintptr, p))
        if got_addr != addr:
            raise InfraError("form %s: p is at %#x, the content at %#x" % (form, got_addr, addr))
        return p, keep, addr
    if off != 0:
        return None
    keep = None
    if form == "new_array_exact":
        p = ffi.new(ffi.getctype(T, "[%d]" % n))
        total = n
    elif form == "new_array_longer":
        p = ffi.new(ffi.getctype(T, "[%d]" % (n + 2)))
        total = n + 2
    elif form == "new_array_open":
        p = ffi.new(ffi.getctype(T, "[]"), n + 1)
        total = n + 1
    elif form == "new_pointer":
        if n > 1:
            return None
        p = ffi.new(ptype)
        total = 1
    elif form == "gc_new_array":
        keep = ffi.new(ffi.getctype(T, "[%d]" % (n + 1)))
        p = ffi.gc(keep, _noop)
        total = n + 1
    elif form == "default_allocator":
        p = ffi.new_allocator(should_clear_after_alloc=False)(ffi.getctype(T, "[%d]" % (n + 1)))
        total = n + 1
    elif form in ("field_array", "packed_field_array"):
        if n > 4:
            return None
        keep = ffi.new(ensure_structs(st, ti)["FA" if form == "field_array" else "PA"][0])
        p = keep.arr
        total = 4
    elif form in ("flex_tail", "packed_flex_tail"):
        keep = ffi.new(ensure_structs(st, ti)["FT" if form == "flex_tail" else "PT"][0], {"tail": n + 1})
        p = keep.tail
        total = n + 1
    else:
        raise InfraError("form %r" % (form,))
    image = content[:nb] + b"\xee" * ((total - n) * size)
    if image:
        ffi.memmove(p, image, len(image))
    return p, keep, int(ffi.cast(st.uintptr, p))


def one_form(st, ti, content, n, off, form):
    """(problem or None, aligned) or None when the form does not exist for this n / offset."""
    base = _base()
    T, cls = base.TYPES[ti]
    size, align, ptype, kind = st.info[T]
    made = make(st, ti, T, form, content, n, off)
    if made is None:
        return None
    p, keep, addr = made
    aligned = addr % align == 0
    ischar = base.ischar_of(T, cls)
    want = base.elementwise(st, p, n, ischar)
    got = base.unpacked(st, p, n, ischar)
    if got == want:
        return None, aligned
    sig = base.classify(st, cls, size, aligned, content, n, want, got, T)
    if sig.get("kind") != "char16_surrogate_pair_joined" and "cause" not in sig:
        sig["family"] = "forms"
        sig["form"] = form
    return (sig, {"family": "forms", "type": T, "content": content[:n * size], "n": n, "offset": off, "form": form,
                  "unpack": got, "elementwise": want}), aligned


def _agg(bad, sig, detail, keep=2):
    key = json.dumps(sig, sort_keys=True)
    ent = bad.setdefault(key, [sig, 0, []])
    ent[1] += 1
    if len(ent[2]) < keep:
        ent[2].append(detail)


def work_forms(item):
    _, ti, quick = item
    base = _base()
    st = base.state()
    T, cls = base.TYPES[ti]
    size = st.info[T][0]
    counts = {}
    bad = {}
    ncases = ncont = 0
    distinct = set()
    for n in base.lengths(quick):
        cont = form_contents(T, cls, size, n, False)
        ncont += len(cont)
        for content in cont:
            for form in FORMS:
                for off in (form_offsets(quick) if form in NONOWNING else (0,)):
                    r = one_form(st, ti, content, n, off, form)
                    if r is None:
                        continue
                    prob, aligned = r
                    ncases += 1
                    k = "form/%s/%s" % (form, "aligned" if aligned else "misaligned")
                    counts[k] = counts.get(k, 0) + 1
                    if n > 0:
                        distinct.add((form, n, content, aligned))
                    if prob is not None:
                        _agg(bad, prob[0], prob[1])
    return ncases, len(distinct), counts, list(bad.values()), ncont


# ---------------------------------------------------------------------------- boundary

ZERO_SIZED = ["int[0]", "struct S4[0]"]


def work_boundary(item):
    """n = 0 on NULL / on items of unknown size; zero-sized items; (n >= 1 on unknown size: counted only)."""
    _, quick = item
    base = _base()
    st = base.state()
    ffi = st.ffi
    counts = {}
    bad = {}
    ncases = 0
    distinct = set()

    def cnt(k):
        counts[k] = counts.get(k, 0) + 1

    names = [(T, cls) for T, cls in base.TYPES[:base.ntypes(quick)]] + [(T, "unknown_size") for T in base.EXCLUDED] \
        + [(T, "zero_sized") for T in ZERO_SIZED]
    for T, cls in names:
        ischar = base.ischar_of(T, cls)
        ptype = ffi.typeof(ffi.getctype(T, "*"))
        # NULL, n = 0  (n >= 1 at NULL is not "within its memory": not executed)
        for where in ("null", "valid"):
            if where == "null":
                p = ffi.cast(ptype, 0)
            else:
                p = ffi.cast(ptype, st.cbase + st.pad)
            ncases += 1
            want = base.elementwise(st, p, 0, ischar)
            got = base.unpacked(st, p, 0, ischar)
            cnt("boundary/n0/%s/%s" % (where, cls if cls in ("unknown_size", "zero_sized") else "sized"))
            if got != want:
                if want[0] == "val" and got[0] == "exc":
                    sig = {"kind": "n0_unpack_raises", "exc": got[1],
                           "cause": "null_pointer" if where == "null" else
                                    "item_type_of_unknown_size" if cls == "unknown_size" else "other"}
                    if sig["cause"] == "other":
                        sig["class"] = cls
                else:
                    sig = {"kind": "n0_differs", "where": where, "class": cls}
                _agg(bad, sig, {"family": "boundary", "type": T, "where": where, "n": 0, "offset": 0,
                                "unpack": got, "elementwise": want})
        if cls == "unknown_size":
            # outside the statement (no n >= 1 items of unknown size lie "within its memory"); the pair of outcomes
            # is recorded in the histogram only
            p = ffi.cast(ptype, st.cbase + st.pad)
            want = base.elementwise(st, p, 1, ischar)
            got = base.unpacked(st, p, 1, ischar)
            cnt("outside_statement/unknown_size_n1/%s/itemread_%s/unpack_%s" % (
                T, want[1] if want[0] == "exc" else "value", got[1] if got[0] == "exc" else "value"))
        if cls == "zero_sized":
            for n in (1, 3):
                for off in base.offsets(quick):
                    start = st.pad + off
                    p = ffi.cast(ptype, st.cbase + start)
                    ncases += 1
                    want = base.elementwise(st, p, n, ischar)
                    got = base.unpacked(st, p, n, ischar)
                    cnt("boundary/zero_sized_item/n=%d" % n)
                    distinct.add((T, n, off))
                    if got != want:
                        _agg(bad, {"kind": "zero_sized_item_differs", "family": "boundary"},
                             {"family": "boundary", "type": T, "where": "valid", "n": n, "offset": off,
                              "unpack": got, "elementwise": want})
    counts["outside_statement/null_pointer_n>=1_not_executed"] = len(names)
    return ncases, len(distinct), counts, list(bad.values()), 0


def replay_boundary(detail):
    base = _base()
    st = base.state()
    ffi = st.ffi
    T = detail["type"]
    cls = dict(base.TYPES).get(T, "")
    ischar = base.ischar_of(T, cls)
    ptype = ffi.typeof(ffi.getctype(T, "*"))
    n = detail["n"]
    if detail["where"] == "null":
        if n != 0:
            raise InfraError("n >= 1 at NULL is never executed")
        p = ffi.cast(ptype, 0)
    else:
        p = ffi.cast(ptype, st.cbase + st.pad + detail["offset"])
    want = base.elementwise(st, p, n, ischar)
    got = base.unpacked(st, p, n, ischar)
    print("p = %r, n = %d" % (p, n))
    print("  ffi.unpack      ->", got)
    print("  [p[i] for i...] ->", want)
    return 0 if got == want else 1


# ---------------------------------------------------------------------------- forms of the length argument

NFORMS = ("keyword_length", "both_keywords", "int_subclass", "index_object", "bool", "backend_positional",
          "backend_keywords")
NFORM_TYPES = ("char", "int", "_Bool", "char32_t", "struct S4", "unsigned long")


class _IntSub(int):
    pass


class _Idx(object):
    def __init__(self, n):
        self.n = n

    def __index__(self):
        return self.n


def nform_call(st, p, n, nform):
    ffi = st.ffi
    if nform == "keyword_length":
        return lambda: ffi.unpack(p, length=n)
    if nform == "both_keywords":
        return lambda: ffi.unpack(length=n, cdata=p)
    if nform == "int_subclass":
        return lambda: ffi.unpack(p, _IntSub(n))
    if nform == "index_object":
        return lambda: ffi.unpack(p, _Idx(n))
    if nform == "bool":
        if n > 1:
            return None
        return lambda: ffi.unpack(p, bool(n))
    if nform == "backend_positional":
        return lambda: ffi._backend.unpack(p, n)
    if nform == "backend_keywords":
        return lambda: ffi._backend.unpack(cdata=p, length=n)
    raise InfraError("nform %r" % (nform,))


def one_nform(st, T, cls, content, n, off, nform):
    base = _base()
    ffi = st.ffi
    size, align, ptype, kind = st.info[T]
    start = st.pad + off
    nb = n * size
    st.ba[start:start + nb] = content[:nb]
    st.ba[start + nb:start + nb + 16] = b"\xee" * 16
    aligned = (st.addr + start) % align == 0
    p = ffi.cast(ptype, st.cbase + start)
    call = nform_call(st, p, n, nform)
    if call is None:
        return None
    ischar = base.ischar_of(T, cls)
    want = base.elementwise(st, p, n, ischar)
    got = base.unpacked(st, p, n, ischar, call)
    if got == want:
        return None, aligned
    sig = base.classify(st, cls, size, aligned, content, n, want, got, T)
    if sig.get("kind") != "char16_surrogate_pair_joined" and "cause" not in sig:
        sig["family"] = "nforms"
        sig["nform"] = nform
    return (sig, {"family": "nforms", "type": T, "content": content[:nb], "n": n, "offset": off, "nform": nform,
                  "unpack": got, "elementwise": want}), aligned


def work_nforms(item):
    _, quick = item
    base = _base()
    st = base.state()
    counts = {}
    bad = {}
    ncases = ncont = 0
    distinct = set()
    cls_of = dict(base.TYPES)
    for T in NFORM_TYPES:
        cls = cls_of[T]
        size = st.info[T][0]
        for n in base.lengths(quick):
            cont = form_contents(T, cls, size, n, True)
            ncont += len(cont)
            for content in cont:
                for off in base.offsets(quick):
                    for nform in NFORMS:
                        r = one_nform(st, T, cls, content, n, off, nform)
                        if r is None:
                            continue
                        ncases += 1
                        counts["nform/" + nform] = counts.get("nform/" + nform, 0) + 1
                        if n > 0:
                            distinct.add((T, nform, content, r[1]))
                        if r[0] is not None:
                            _agg(bad, r[0][0], r[0][1])
    return ncases, len(distinct), counts, list(bad.values()), ncont


# ---------------------------------------------------------------------------- compiled (API mode) module

LAZY_KINDS = (
    # (tag, cdef body, C body, packed, class, size, alignment)
    ("S", "{ short h; char c; }", "{ short h; char c; }", False, "struct", 4, 2),
    ("P", "{ char c; int i; }", "{ char c; int i; } __attribute__((packed))", True, "struct", 5, 1),
    ("U", "{ int a; char b[5]; }", "{ int a; char b[5]; }", False, "union", 8, 4),
    ("N", None, None, False, "struct", 6, 2),      # a struct containing another lazy struct
    ("Q", None, None, False, "pointer", 8, 8),     # item = pointer to a lazy struct (unpack never looks into it)
)
LAZY_FORMS = ("pointer", "pointer_kw", "array")
COMPILED_SCALARS = [
    # (cdef text, C text, item type, class)
    ("enum c18e1 { c18A1, c18B1, ... };", "enum __attribute__((packed)) c18e1 { c18A1, c18B1 };", "enum c18e1", "enum"),
    ("enum c18e2 { c18A2 = -1, c18B2, ... };", "enum __attribute__((packed)) c18e2 { c18A2 = -1, c18B2 };",
     "enum c18e2", "enum"),
    ("enum c18e3 { c18A3, c18B3 = 300, ... };", "enum __attribute__((packed)) c18e3 { c18A3, c18B3 = 300 };",
     "enum c18e3", "enum"),
    ("enum c18E { c18EA, c18EB };", "enum c18E { c18EA, c18EB };", "enum c18E", "enum"),
    ("enum c18F { c18FA = -1, c18FB };", "enum c18F { c18FA = -1, c18FB };", "enum c18F", "enum"),
    ("enum c18G { c18GA = 0x100000000 };", "enum c18G { c18GA = 0x100000000 };", "enum c18G", "enum"),
    ("enum c18H { c18HA = -1, c18HB = 0x100000000 };", "enum c18H { c18HA = -1, c18HB = 0x100000000 };",
     "enum c18H", "enum"),
    ("typedef int... c18int_t;", "typedef short c18int_t;", "c18int_t", "sint"),
    ("typedef int... c18uint_t;", "typedef unsigned char c18uint_t;", "c18uint_t", "uint"),
    ("typedef int... c18ulong_t;", "typedef unsigned long c18ulong_t;", "c18ulong_t", "uint"),
    ("typedef float... c18flt_t;", "typedef double c18flt_t;", "c18flt_t", "float"),
    ("typedef struct { short h; char c; ...; } c18anon_t;", "typedef struct { int hidden; short h; char c; } c18anon_t;",
     "c18anon_t", "struct"),
]


def lazy_cells(quick):
    """One distinct struct name per cell: the first access to that struct type in the process happens in the
    cell, either inside unpack() or inside p[0]."""
    cells = []
    i = 0
    for tag, cbody, csrc, packed, cls, size, align in LAZY_KINDS:
        for n in (0, 1, 3):
            for form in LAZY_FORMS:
                for first in ("unpack", "itemread"):
                    cells.append({"i": i, "tag": tag, "n": n, "form": form, "first": first, "cls": cls,
                                  "packed": packed, "size": size, "align": align})
                    i += 1
    return cells


def cell_decl(cell):
    """(cdef text, packed flag, C text, item type name)"""
    i, tag = cell["i"], cell["tag"]
    if tag in ("S", "P", "U"):
        kw = "union" if tag == "U" else "struct"
        body = [k for k in LAZY_KINDS if k[0] == tag][0]
        name = "%s c18L%d" % (kw, i)
        csrc = body[2]
        if "__attribute__" in csrc:
            ctext = "%s __attribute__((packed)) c18L%d %s;" % (kw, i, csrc.replace(" __attribute__((packed))", ""))
        else:
            ctext = "%s c18L%d %s;" % (kw, i, csrc)
        return "%s c18L%d %s;" % (kw, i, body[1]), body[3], ctext, name
    if tag == "N":
        text = "struct c18Li%d { short h; char c; }; struct c18L%d { struct c18Li%d in; char t; };" % (i, i, i)
        return text, False, text, "struct c18L%d" % i
    text = "struct c18L%d { long long q; char c; };" % i
    return text, False, text, "struct c18L%d *" % i


_COMPILED = None


def compiled_env():
    """Build (once per process) and import the API-mode module; returns (state for its ffi, cells)."""
    global _COMPILED
    if _COMPILED is not None and _COMPILED[0] == os.getpid():
        return _COMPILED[1], _COMPILED[2]
    import importlib.util
    import cffi
    from .. import build
    base = _base()
    cells = lazy_cells(False)
    ffi = cffi.FFI()
    csrc = []
    types = []
    for cell in cells:
        cd, packed, ct, name = cell_decl(cell)
        ffi.cdef(cd, packed=packed)
        csrc.append(ct)
        cell["type"] = name
        types.append((name, cell["cls"], cell["size"], cell["align"]))
    for cd, ct, name, cls in COMPILED_SCALARS:
        ffi.cdef(cd)
        csrc.append(ct)
        types.append((name, cls))
    modname = "_c18api_%d" % os.getpid()
    d = os.path.join(build.scratch(), modname)
    os.makedirs(d, exist_ok=True)
    ffi.set_source(modname, "\n".join(csrc), extra_compile_args=["-O0", "-g0", "-w"])
    so = ffi.compile(tmpdir=d, verbose=False)
    spec = importlib.util.spec_from_file_location(modname, so)
    mod = importlib.util.module_from_spec(spec)
    spec.loader.exec_module(mod)
    # ffi.sizeof / ffi.alignof force the lazy field list of a struct, ffi.typeof / getctype / cast / from_buffer do
    # not: the sizes of the cell structs are given by construction (checked against sizeof after the cell has run)
    st = base.mkstate(mod.ffi, types)
    st.mod = mod
    st.types = dict((t[0], t[1]) for t in types)
    _COMPILED = (os.getpid(), st, cells)
    return st, cells


def work_compiled(item):
    _, quick = item
    base = _base()
    st, cells = compiled_env()
    counts = {}
    bad = {}
    ncases = ncont = 0
    distinct = set()

    def run_one(T, cls, content, n, off, form, first, cellno, warm):
        prob, aligned = base.one(st, T, cls, content, n, off, form, unpack_first=(first == "unpack"))
        if n > 0:
            distinct.add((T, n, content, aligned, form))
        if prob is not None:
            sig, detail = prob
            if sig.get("kind") != "char16_surrogate_pair_joined" and "cause" not in sig:
                sig["family"] = "compiled"
            detail = dict(detail, family="compiled", first=first, warm=warm)
            _agg(bad, sig, detail)
        return aligned

    # 1. lazy structs: the first evaluation of each cell meets an untouched struct type
    import gc
    for cell in cells:
        T, cls, n = cell["type"], cell["cls"], cell["n"]
        size = st.info[T][0]
        cont = form_contents(T, cls, size, n, True)
        ncont += len(cont)
        sct = st.ffi.typeof("%s c18L%d" % ("union" if cell["tag"] == "U" else "struct", cell["i"]))
        if gc.get_referents(sct):
            raise InfraError("cell %r: the struct type has its field list already" % (cell,))
        warm = False
        for content in cont:
            for off in base.offsets(quick):
                run_one(T, cls, content, n, off, cell["form"], cell["first"], cell["i"], warm)
                ncases += 1
                if not warm:
                    # measured, not assumed: did this first evaluation realise the field list?
                    k = "compiled/first_touch/%s/n=%d/first=%s/%s" % (
                        cell["tag"], n, cell["first"], "forced" if gc.get_referents(sct) else "still_lazy")
                else:
                    k = "compiled/warm_struct/%s" % cell["tag"]
                counts[k] = counts.get(k, 0) + 1
                warm = True
        if (st.ffi.sizeof(T), st.ffi.alignof(T)) != (cell["size"], cell["align"]):
            raise InfraError("cell %r: size/alignment are %d/%d" % (cell, st.ffi.sizeof(T), st.ffi.alignof(T)))
    # 2. enums and typedefs sized by the C compiler
    for cd, ct, T, cls in COMPILED_SCALARS:
        size = st.info[T][0]
        for n in base.lengths(quick):
            cont = base.contents_for(T, cls, size, n, quick) if n <= 1 else form_contents(T, cls, size, n, False)
            ncont += len(cont)
            for content in cont:
                for off in base.offsets(quick):
                    for form in LAZY_FORMS:
                        aligned = run_one(T, cls, content, n, off, form, "itemread", None, True)
                        ncases += 1
                        k = "compiled/%s/%d/%s" % (cls, size, "aligned" if aligned else "misaligned")
                        counts[k] = counts.get(k, 0) + 1
    return ncases, len(distinct), counts, list(bad.values()), ncont


def replay_compiled(detail):
    base = _base()
    st, cells = compiled_env()
    T = detail["type"]
    cls = st.types[T]
    if detail.get("warm"):
        k = st.ffi.typeof(T)
        if k.kind in ("struct", "union"):
            k.fields                    # forces the lazy field list, as earlier cases of the cell had done
    print("compiled module, item type %s (size %d), n=%d, offset %d, form %s, %s first, bytes %s" % (
        T, st.info[T][0], detail["n"], detail["offset"], detail["form"], detail.get("first"), detail["content"].hex()))
    prob, aligned = base.one(st, T, cls, detail["content"], detail["n"], detail["offset"], detail["form"],
                             unpack_first=(detail.get("first") == "unpack"))
    if prob is None:
        print("no mismatch")
        return 0
    print("MISMATCH", prob[0])
    print("  ffi.unpack      ->", prob[1]["unpack"])
    print("  [p[i] for i...] ->", prob[1]["elementwise"])
    return 1


# ---------------------------------------------------------------------------- dispatch

def work(item):
    kind = item[0]
    if kind == "forms":
        return work_forms(item)
    if kind == "boundary":
        return work_boundary(item)
    if kind == "nforms":
        return work_nforms(item)
    if kind == "compiled":
        return work_compiled(item)
    raise InfraError("unknown item %r" % (item,))


def items(quick):
    base = _base()
    out = [("compiled", quick), ("boundary", quick), ("nforms", quick)]
    out += [("forms", ti, quick) for ti in range(base.ntypes(quick))]
    return out


def replay(detail):
    base = _base()
    fam = detail["family"]
    if fam == "boundary":
        return replay_boundary(detail)
    if fam == "compiled":
        return replay_compiled(detail)
    st = base.state()
    T = detail["type"]
    ti = [t for t, _ in base.TYPES].index(T)
    cls = base.TYPES[ti][1]
    print("family %s, item type %s, n=%d, start offset %d, %s, bytes %s" % (
        fam, T, detail["n"], detail["offset"], detail.get("form") or detail.get("nform"), detail["content"].hex()))
    if fam == "forms":
        r = one_form(st, ti, detail["content"], detail["n"], detail["offset"], detail["form"])
    elif fam == "nforms":
        r = one_nform(st, T, cls, detail["content"], detail["n"], detail["offset"], detail["nform"])
    else:
        raise InfraError("family %r" % (fam,))
    if r is None or r[0] is None:
        print("no mismatch")
        return 0
    print("aligned:", r[1])
    print("MISMATCH", r[0][0])
    print("  ffi.unpack      ->", r[0][1]["unpack"])
    print("  [p[i] for i...] ->", r[0][1]["elementwise"])
    return 1
