"""C31 helper: the families added after the audit round (.cache/audit/C31.md).

 * EXTRA: cdefs used by C31 only (appended to the shared corpus; the shared list itself is
   not changed, C30 enumerates it too).
 * NEW_INS: insertion kinds beyond the first alphabet, with their signature class and the
   placement rule they obey.
 * pp_inner(tok): the gaps INSIDE the two compound tokens of _corpus.tokenize ('#define' and
   a whole line-directive line).
 * find_cuts(text): line boundaries at which a cdef text can be given to two cdef() calls.
"""
import collections
import re

# ---------------------------------------------------------------------------
# corpus entries of C31 only (audit gap 6: constructs next to which an insertion matters)

EXTRA = [
    ("x_int_dots_words",           # every alternative of _r_int_dotdotdot
     "typedef short... xs_t;\ntypedef signed char... xsc_t;\ntypedef unsigned short int... xus_t;\n"
     "xs_t xadd(xsc_t, xus_t);\n"),
    ("x_extern_python_spellings",  # "C+Python", inner blanks: 'C' in match.group(1)
     "extern \"C+Python\" int xcb1(int);\nextern \"Python + C\" void xcb2(void);\n"),
    ("x_extern_python_stdcall",    # both rewrites on one declaration
     "extern \"Python\" int __stdcall xcbs(int);\nextern \"Python\" int WINAPI xcbw(void);\n"),
    ("x_array_dots_twice",
     "extern int xm[...][...];\nstruct xa { int n; char b[...][...]; };\n"),
    ("x_enum_dots_twice",          # the reversed(matches) renumbering
     "enum xe { XA = ..., XB = ..., XC, ... };\nenum xf { XD = ..., ... };\n"),
    ("x_line_directive_forms",     # number only, '#line' without name, flags, empty name, indented
     "# 3\nint xl1(int);\n#line 9\nint xl2(int);\n# 12 \"x.h\" 1 3 4\nint xl3(int);\n  #  14  \"\"\nint xl4(int);\n"),
    ("x_define_many",              # several tokens in a #define value, '#' followed by blanks, a continuation
     "# define XD1 0x1F\n#\tdefine XD2 7 \\\n\nint xdm(int);\n#define XD3 ...\n#define XD4 -1\n"),
    ("x_crlf_text",                # a text that already has CR LF line endings, form feed and vertical tab
     "int xr1(int);\r\nstruct xrs { int a;\n char b; };\r\n\x0cint\x0bxr2(void);\r\n"),
]


# ---------------------------------------------------------------------------
# insertion kinds

# placement rules:
#   'any'     wherever a blank may go (also strictly inside a '#' line)
#   'nl'      newline-bearing for C: not strictly inside a '#' line
#   'outside' white space that C does not allow inside a directive (form feed, vertical tab;
#             a lone CR, which some compilers read as a line end): not inside (h, e] of a '#' line
#   'eof'     only at the very end of the text
NEW_INS = collections.OrderedDict([
    # --- audit gap 1: comments that span lines
    ("mlcmt",    ("/* x\n y */",            "comment_multiline",  "any")),
    ("cmtcont",  ("/* a \\\n b */",         "comment_multiline",  "any")),
    ("lcmtcont", ("// x \\\n y\n",          "line_comment_cont",  "nl")),
    # --- audit gap 2: the other white space characters of C
    ("crlf",     ("\r\n",                   "newline_cr",         "nl")),
    ("cr",       ("\r",                     "space_other",        "outside")),
    ("ff",       ("\x0c",                   "space_other",        "outside")),
    ("vt",       ("\x0b",                   "space_other",        "outside")),
    # --- audit gap 5: comment contents
    ("cmt3",     ("/*/ \" ' ... // #define Q 3 **/", "comment",   "any")),
    ("lcmt2",    ("// /* \" ... */ x\n",    "line_comment",       "nl")),
    ("cmtdef",   ("/*\n#define Q 3\n*/",    "comment_multiline",  "any")),
    ("cmtdir",   ("/*\n# 7 \"f\"\n*/",      "comment_multiline",  "any")),
    # --- audit gap 4: spellings of a line directive
    ("linedir4", ("\n# 7\n",                        "linedir", "nl")),
    ("linedir5", ("\n# 9 \"bits/types/FILE.h\"\n",  "linedir", "nl")),
    ("linedir6", ("\n#line 3 \"a/*b*/c\\\\d\"\n",   "linedir", "nl")),
    ("linedir7", ("\n#line 7\n",                    "linedir", "nl")),
    ("linedir8", ("\n#7 \"\"\n",                    "linedir", "nl")),
    ("linedir9", ("\n\t#\tline\t7\t\"f\"\n",        "linedir", "nl")),
    ("linedir10", ("\n  #   7   \"f\"   1   3  \n", "linedir", "nl")),
    ("linedir_eof", ("\n# 7 \"f\"",                 "linedir", "eof")),
    # the words of the file name take part in the heuristics of _common_type_names
    ("linedir_words", ("\n# 9 \"typedef size_t;,(\"\n", "linedir_name_words", "nl")),
    # audit violation 3: a digit sequence with leading zeros
    ("linedir_zeros", ("\n# 007 \"f\"\n",           "linedir_leading_zeros", "nl")),
])

# classes whose failure does not depend on the neighbours: one signature for all positions
# (after the control with the plain 'linedir' kind at the same place passed)
COLLAPSED = ("linedir_name_words", "linedir_leading_zeros")
COMMENT_CLASSES = ("comment", "comment_multiline", "line_comment", "line_comment_cont")
FIRST_CLASSES = ("space", "newline", "comment", "line_comment", "linedir", "cont")

# the kinds that run in the quick tier as single insertions (the others: thorough)
QUICK_NEW = ("mlcmt", "cmtcont", "lcmtcont", "crlf", "cr", "ff", "cmt3",
             "linedir5", "linedir10", "linedir_eof", "linedir_words", "linedir_zeros")


# ---------------------------------------------------------------------------
# the gaps inside '#define' and inside a line-directive line

_r_sub = re.compile(r'"(?:[^"\\\n]|\\.)*"|[A-Za-z_][A-Za-z_0-9]*|[0-9]+|\S')


def pp_inner(tok):
    """[(offset, prev class, next class)] for every end of every gap between the sub-tokens of
    a 'pp_define' token ('#', 'define') or a 'pp_line' token ('#', ['line'], number, ["name"],
    flags...).  Offsets are absolute."""
    subs = []
    for m in _r_sub.finditer(tok.text):
        s = m.group()
        if s == "#":
            c = "pp_hash"
        elif s == "define":
            c = "pp_define_word"
        elif s == "line":
            c = "pp_line_word"
        elif s[0] == '"':
            c = "pp_name"
        elif s.isdigit():
            c = "pp_num"
        else:
            c = "pp_other"
        subs.append((tok.start + m.start(), tok.start + m.end(), c))
    out = []
    for (a0, a1, ac), (b0, b1, bc) in zip(subs, subs[1:]):
        for p in sorted({a1, b0}):
            out.append((p, ac, bc))
    return out


# ---------------------------------------------------------------------------

def find_cuts(text, toks, pplines):
    """Offsets just after a newline at which the text can be cut in two cdef() calls: bracket
    depth 0, not inside a '#' line, the part before ends with ';' '}' or a '#' line and
    contains at least one token, the part after too."""
    cuts = []
    for m in re.finditer(r"\n", text):
        cut = m.end()
        if cut >= len(text):
            continue
        if any(h < cut <= e for h, e, k in pplines):
            continue
        before = [t for t in toks if t.end <= cut]
        after = [t for t in toks if t.start >= cut]
        if not before or not after or len(before) + len(after) != len(toks):
            continue
        depth = 0
        for t in before:
            if t.kind == "punct" and t.text in "({[":
                depth += 1
            elif t.kind == "punct" and t.text in ")}]":
                depth -= 1
        if depth != 0:
            continue
        last = before[-1]
        if not (last.text in (";", "}") or last.pp is not None):
            continue
        cuts.append(cut)
    return cuts


# ---------------------------------------------------------------------------

def ml_comment_classes(text):
    """Input class of a mutated text for the signature: where do the block comments that
    contain a newline lie with respect to '#define' directives?  Returns a sorted list out of
      'define_before_name'  between '#define' and the macro name
      'define_first_line'   in a #define directive, begins on the physical line of the '#'
      'define_later_line'   in a #define directive, begins on a later physical line (after a
                            backslash-newline or after an earlier comment spanning lines)
      'outside'             anywhere else
    A scanner of its own (no cffi, no pycparser): directives are recognised at the start of a
    logical line; comments, backslash-newline and blanks may stand between '#' and 'define'."""
    out = set()
    i, n = 0, len(text)
    at_start = True          # only blanks/comments since the last real newline
    in_def = False
    later = False            # a physical newline was consumed inside the current directive
    seen_name = False
    while i < n:
        c = text[i]
        if c == "\\" and text.startswith("\\\n", i) or text.startswith("\\\r\n", i):
            i += 2 if text[i + 1] == "\n" else 3
            if in_def:
                later = True
            continue
        if c == "\n":
            in_def = False
            at_start = True
            i += 1
            continue
        if text.startswith("/*", i):
            j = text.find("*/", i + 2)
            j = n if j < 0 else j + 2
            if "\n" in text[i:j]:
                if in_def:
                    if not seen_name:
                        out.add("define_before_name")
                    out.add("define_later_line" if later else "define_first_line")
                    later = True
                else:
                    out.add("outside")
            i = j
            continue
        if text.startswith("//", i):
            # a line comment runs to the end of the logical line
            while i < n and text[i] != "\n":
                i += 3 if text.startswith("\\\r\n", i) else 2 if text.startswith("\\\n", i) else 1
            continue
        if c in " \t\r\x0b\x0c":
            i += 1
            continue
        if c == "#" and at_start and not in_def:
            # '#', then blanks / comments / continuations, then the directive name
            j = i + 1
            lat = False
            while j < n:
                if text[j] in " \t":
                    j += 1
                elif text.startswith("\\\n", j):
                    j += 2
                    lat = True
                elif text.startswith("/*", j):
                    k = text.find("*/", j + 2)
                    k = n if k < 0 else k + 2
                    lat = lat or "\n" in text[j:k]
                    j = k
                else:
                    break
            m = re.compile(r"[A-Za-z_0-9]+").match(text, j)
            word = m.group() if m else ""
            if word == "define":
                in_def, later, seen_name = True, lat, False
                i = m.end()
            else:
                # another directive: skip its line
                k = text.find("\n", i)
                i = n if k < 0 else k
            at_start = False
            continue
        at_start = False
        if in_def and not seen_name and (c.isalnum() or c == "_"):
            seen_name = True
        i += 1
    return sorted(out)
