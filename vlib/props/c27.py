"""C27 -- non-aggregate ctypes are canonical over any history (engine E2).

Histories of building types (type strings through fresh in-line FFIs, through
fresh compiled-style _cffi_backend.FFI objects, and through the new_*_type
constructors), dropping them, collecting, making pointer<->array ctypes cyclic
by slicing a pointer cdata, and dropping a type that is watched by a user
weakref whose callback rebuilds the very same type.  After every step: two live
ctype objects are the same object iff they have the same structural key, and
rebuilding a live type returns that object.
"""
import gc as _gc
import weakref

from .. import hist
from ..build import InfraError

ID = "C27"
LEVEL = "model_checking"
META = dict(
    engine="E2-hist", level="model_checking",
    technique="explicit-state breadth-first search over build/drop/collect/slice/watch histories of real ctype objects, "
              "against a structural-identity model (same key <=> same object among live types)",
    text="All histories up to depth 4 (quick; thorough 5, merged beyond the unmerged depth) over 4 slots: 12 type "
         "expressions (primitives, pointers, pointer-to-pointer, arrays with and without length, function types with "
         "and without ellipsis) built three independent ways, drop, gc.collect(), slicing a pointer cdata (creates the "
         "pointer<->array reference cycle, so the types die in the collector, not by refcount) and a user weakref "
         "whose callback rebuilds the dying type (the single-threaded way into the 'already replaced by a live "
         "weakref' arm of the cache clean-up).",
    note="automatic GC is disabled during the search so that collections happen exactly where a history says")

# type expressions: key -> (type string, constructor recipe)
TYPES = [
    ("int", "int"), ("char", "char"),
    ("int*", "int *"), ("char*", "char *"), ("int**", "int * *"),
    ("int[2]", "int[2]"), ("int[]", "int[]"), ("int*[2]", "int *[2]"),
    ("int(*)(int)", "int(*)(int)"), ("int(*)(int,...)", "int(*)(int, ...)"),
    ("char(*)(int)", "char(*)(int)"), ("int(*)(int*)", "int(*)(int *)"),
]
TSTR = dict(TYPES)
NSLOT = 4


def construct(key):
    """Build through the backend constructors only (no parser involved)."""
    import _cffi_backend as B
    i, c = B.new_primitive_type("int"), B.new_primitive_type("char")
    if key == "int":
        return i
    if key == "char":
        return c
    if key == "int*":
        return B.new_pointer_type(i)
    if key == "char*":
        return B.new_pointer_type(c)
    if key == "int**":
        return B.new_pointer_type(B.new_pointer_type(i))
    if key == "int[2]":
        return B.new_array_type(B.new_pointer_type(i), 2)
    if key == "int[]":
        return B.new_array_type(B.new_pointer_type(i), None)
    if key == "int*[2]":
        return B.new_array_type(B.new_pointer_type(B.new_pointer_type(i)), 2)
    if key == "int(*)(int)":
        return B.new_function_type((i,), i, False)
    if key == "int(*)(int,...)":
        return B.new_function_type((i,), i, True)
    if key == "char(*)(int)":
        return B.new_function_type((i,), c, False)
    if key == "int(*)(int*)":
        return B.new_function_type((B.new_pointer_type(i),), i, False)
    raise InfraError(key)


def build_via(key, via):
    if via in ("ctor-arr", "ctor-arr5"):
        # function types whose argument is given as an ARRAY ctype: it decays to the pointer type,
        # so the result must be the canonical type with the pointer argument
        import _cffi_backend as B
        i, c = B.new_primitive_type("int"), B.new_primitive_type("char")
        if key == "int(*)(int*)":
            arr = B.new_array_type(B.new_pointer_type(i), None if via == "ctor-arr" else 5)
            return B.new_function_type((arr,), i, False)
        return construct(key)
    if via == "ctor":
        return construct(key)
    if via == "inline":
        import cffi
        return cffi.FFI().typeof(TSTR[key])
    if via == "compiled":
        import _cffi_backend as B
        return B.FFI().typeof(TSTR[key])
    raise InfraError(via)


class Sys(object):
    def __init__(self, cfg):
        self.keys_alpha = cfg["keys"]
        self.slots = [None] * NSLOT
        self.mkeys = [None] * NSLOT
        self.watch = {}        # slot -> weakref (kept so that the callback stays armed)
        self.sliced = set()
        self.pending = []      # violations noticed inside weakref callbacks

    def enabled(self):
        ops = []
        free = [i for i in range(NSLOT) if self.mkeys[i] is None]
        if free:
            for k in self.keys_alpha:
                for via in ("ctor", "inline", "compiled"):
                    ops.append(("build", k, via))
                if k == "int(*)(int*)":
                    ops.append(("build", k, "ctor-arr"))
                    ops.append(("build", k, "ctor-arr5"))
        for i in range(NSLOT):
            if self.mkeys[i] is None:
                continue
            ops.append(("drop", i))
            if self.mkeys[i] in ("int*", "char*", "int**") and i not in self.sliced:
                ops.append(("slice", i))
            if len(free) >= 1 and i not in self.watch:
                ops.append(("watch", i))
        ops.append(("collect",))
        return ops

    def apply(self, op):
        try:
            self._apply(op)
        except InfraError:
            raise
        except Exception as e:
            return {"kind": "exception", "op": op, "error": "%s: %s" % (type(e).__name__, e)}
        if self.pending:
            return self.pending.pop(0)
        return self._check()

    def _apply(self, op):
        k = op[0]
        if k == "build":
            i = [j for j in range(NSLOT) if self.mkeys[j] is None][0]
            self.slots[i] = build_via(op[1], op[2])
            self.mkeys[i] = op[1]
        elif k == "drop":
            i = op[1]
            self.mkeys[i] = None
            self.sliced.discard(i)
            self.slots[i] = None            # may run a watcher callback right here
        elif k == "collect":
            _gc.collect()
        elif k == "slice":
            import _cffi_backend as B
            i = op[1]
            p = B.cast(self.slots[i], 0)
            arr = p[0:0]                    # realises P's cached array type: P <-> P[] cycle
            del arr, p
            self.sliced.add(i)
        elif k == "watch":
            i = op[1]
            key = self.mkeys[i]
            sysref = self

            def cb(ref, key=key, i=i):
                # the watched ctype is dying: rebuild the very same type right now
                sysref.watch.pop(i, None)
                free = [j for j in range(NSLOT) if sysref.mkeys[j] is None and sysref.slots[j] is None]
                if not free:
                    return
                j = free[-1]
                t = construct(key)
                if ref() is not None:
                    sysref.pending.append({"kind": "weakref-alive-in-callback"})
                sysref.slots[j] = t
                sysref.mkeys[j] = key
            self.watch[i] = weakref.ref(self.slots[i], cb)
        else:
            raise InfraError(op)

    def _check(self):
        live = [(i, self.slots[i], self.mkeys[i]) for i in range(NSLOT) if self.mkeys[i] is not None]
        for a in range(len(live)):
            for b in range(a + 1, len(live)):
                same_obj = live[a][1] is live[b][1]
                same_key = live[a][2] == live[b][2]
                if same_obj != same_key:
                    return {"kind": "distinct-objects-for-one-type" if same_key else "one-object-for-two-types",
                            "keys": [live[a][2], live[b][2]]}
        for i, obj, key in live:
            for via in ("ctor", "compiled", "ctor-arr"):
                again = build_via(key, via)
                if again is not obj:
                    return {"kind": "rebuild-of-live-type-is-another-object", "key": key, "via": via}
                del again
            # (the printed name of a function type keeps the spelling of the arguments it was first built
            #  with -- 'int(*)(int[])' -- which the statement does not speak about: not compared there)
            if key != "int(*)(int*)" and obj.cname.replace(" ", "") != key.replace(" ", ""):
                return {"kind": "wrong-type-built", "key": key, "cname": obj.cname}
        return None

    def key(self):
        return (tuple(self.mkeys), tuple(sorted(self.watch)), tuple(sorted(self.sliced)))

    def close(self):
        for i in range(NSLOT):
            self.mkeys[i] = None
            self.slots[i] = None
        if self.pending:
            return self.pending.pop(0)
        _gc.collect()
        if self.pending:
            return self.pending.pop(0)
        # every type rebuilt after everything was freed is unique again
        for key in self.keys_alpha:
            a = construct(key)
            b = build_via(key, "compiled")
            if a is not b:
                return {"kind": "rebuilt-type-not-unique", "key": key}
        return None


def run(ctx):
    _gc.disable()
    small = ["int*", "int**", "int[]", "int(*)(int*)"]
    allk = [k for k, _ in TYPES]
    if ctx.quick:
        plan = [(allk, 2, 2), (small, 4, 2)]
    else:
        plan = [(allk, 3, 3), (small, 5, 3)]
    total = hist.Stats()
    crashes_all = []
    for keys, depth, d0 in plan:
        st, crashes = hist.run_parallel(Sys, [{"keys": keys}], depth, d0, split=2 if depth > 2 else 1)
        total.merge(st)
        crashes_all.extend(crashes)
        ctx.count("transitions_%dkeys_depth%d" % (len(keys), depth), st.transitions)
    for item, cr, last in crashes_all:
        ctx.violation({"kind": "crash"}, {"prefix": item[1], "last_history": last, "how": cr.describe()})
    for h, info in total.violations:
        ctx.violation({"kind": info.get("kind")}, {"history": h, "info": info})
    for k, v in sorted(total.op_hist.items()):
        ctx.count("op_" + str(k), v)
    for smp in total.samples:
        ctx.sample({"history": smp})
    if not total.samples:
        ctx.sample({"note": "see class_histogram"})
    cov = {
        "states": total.states, "transitions": total.transitions,
        "traces_validated_against_impl": total.transitions, "max_depth": total.max_depth,
        "unmerged_depth_d0": [p[2] for p in plan], "merged_states_skipped": total.merged,
        "histories_closed": total.histories_closed,
        "evaluations": total.transitions, "distinct_nontrivial": total.states,
        "rule": "a state is an operation history (merged by model key beyond d0); each transition runs on real ctypes",
        "plan": [{"type_expressions": len(k), "depth": d, "d0": z} for k, d, z in plan],
        "exhaustive": True,
    }
    return ctx.finish(cov, ["gc disabled during the search; collections only where a history says"])


def replay(detail):
    _gc.disable()
    h = detail.get("history")
    if h is None:
        print(detail)
        return 1
    s = Sys({"keys": [k for k, _ in TYPES]})
    for op in [tuple(o) for o in h if tuple(o) != ("<close>",)]:
        bad = s.apply(op)
        print(op, "->", bad)
        if bad:
            return 1
    bad = s.close()
    print("<close> ->", bad)
    return 1 if bad else 0
