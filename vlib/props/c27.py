"""C27 -- non-aggregate ctypes are canonical over any history (engine E2).

Histories of building types (type strings in several spellings through fresh and through long-lived in-line FFIs,
compiled-style _cffi_backend.FFI objects and instances of a generated out-of-line module; the new_*_type
constructors, with every ABI libffi accepts here; navigation: slicing, addressof, typeof(lib.func)), dropping them,
dropping the FFI objects that hold them, collecting (full and young-generation), making pointer<->array ctypes cyclic
by slicing a pointer cdata, and dropping a type that is watched by a user weakref whose callback rebuilds the same
type or a type that depends on it.  After every step: two live ctype objects are the same object iff they have the
same structural key, rebuilding a live type returns that object, and the components a type reports (.item, .args,
.result, .ellipsis, .abi, .length) are the canonical objects too.

The families are separate finite alphabets (see PLAN below); each one is explored exhaustively to its depth.
"""
import collections
import gc as _gc
import time
import weakref

from .. import hist
from .. import pool
from ..build import InfraError
from . import _c27types as T

ID = "C27"
LEVEL = "model_checking"
META = dict(
    engine="E2-hist", level="model_checking",
    technique="explicit-state breadth-first search over build/drop/collect/slice/watch/drop-FFI histories of real "
              "ctype objects, against a structural-identity model (same key <=> same object among live types)",
    text="All histories over 4 slots in 9 exhaustively explored families of alphabets, plus populations.  (all) 36 "
         "type expressions -- primitives, void, pointers (to pointers, void, arrays, two distinct 'struct S', an "
         "enum), arrays (open, 0, nested, of structs), function types (0-2 arguments, ellipsis, struct by value as "
         "argument and result, function-pointer argument, pointer-to-array result, 3 ABIs) -- built by the "
         "constructors, through both parsers and by addressof(), depth 2 (thorough also: the 15 base+ABI and the 18 "
         "shape expressions at depth 3).  (small) 4 expressions to depth 4 (thorough 5) with slicing a pointer cdata "
         "(pointer<->array reference cycle: the types die in the collector, not by refcount) and a user weakref "
         "whose callback rebuilds the dying type.  (abi) function types that differ only in ABI and/or ellipsis, "
         "depth 4.  (holders) long-lived in-line and C-level FFI objects that keep what they parsed, drop of the "
         "FFI, young-generation collections, depth 4.  (module) instances of a generated out-of-line module: typedef "
         "names, typeof(lib.func), drop of the module's FFI, depth 4.  (spell, spell-module) per type every spelling "
         "(qualifiers, hex/octal/expression lengths, parameter names, array and function parameters that decay, "
         "(void), __stdcall, blanks, typedef names) through fresh and long-lived FFIs of both parsers and through "
         "the module, all pairs (thorough: all triples on the long-lived routes).  (watch) weakref callbacks that "
         "rebuild the dying type through the constructors, through the in-line route, or build a pointer / array "
         "type that depends on it, one or two watchers on the members of a pointer<->array cycle whose slice type is "
         "kept, depth 5 (6).  (nav) array types reached by slicing (kept as live types) and pointer types by "
         "addressof, depth 4 (5).  (population) 100 and 3000 array / pointer-chain / function types, half dropped, "
         "collected, other types built on the freed addresses, all rebuilt.  After every step: pairwise identity "
         "<=> equal key among the slots AND every ctype the history ever obtained that is still alive for whatever "
         "reason (cycle, FFI cache, module table; followed by the unique cache's own weakref), rebuilds of live "
         "types return them, and .item / .args / .result / .length / .ellipsis / .abi are the canonical components.",
    note="automatic GC is disabled during the search so that collections happen exactly where a history says; every "
         "history starts from the same process-wide state (previous system disposed and collected, cffi's in-line "
         "type cache emptied, primitives and -- second phase -- the module's types pinned before the workers fork). "
         "Expected wall time on the idle 16-core machine: quick about 40 s, thorough about 8 min")

NSLOT = 4
TERMS, NAMES = T.TERMS, T.NAMES
_CURRENT = None                    # weakref to the system most recently created in this process
COUNT = collections.Counter()      # in-process class counters (read by run() after a small in-process exploration)


def _sliceable(key):
    t = TERMS[key]
    return t[0] == "ptr" and NAMES.get(T.Arr(t[1], None)) is not None and t[1][0] in ("prim", "ptr")


def _derived(key, what):
    """Key of the type a watcher's callback builds when the watched `key` dies (None: not in the table)."""
    if what == "same-ctor":
        return key
    if what == "same-inline":
        return key if key in T.PLAIN else None
    if what == "pointer-to":
        return NAMES.get(T.Ptr(TERMS[key]))
    if what == "array-of":
        return NAMES.get(T.Arr(TERMS[key], 2))
    raise InfraError(what)


_BUILDS = {}


def _build_ops(keys, vias, spell):
    ck = (tuple(keys), tuple(vias), bool(spell))
    if ck not in _BUILDS:
        ops = []
        for k in keys:
            for via in vias:
                sp = T.spellings(k, via)
                for n in range(len(sp) if spell else min(1, len(sp))):
                    ops.append(("build", k, via, n))
        _BUILDS[ck] = ops
    return _BUILDS[ck]


DEFAULT_VIAS = ["ctor", "inline", "compiled", "ctor-arr", "ctor-arr5"]
DEFAULT_OPS = ["slice", "watch:same-ctor"]
ALL_OPS = ["slice", "slicekeep", "watch:same-ctor", "watch:same-inline", "watch:pointer-to", "watch:array-of",
           "collect0", "dropall", "dropffi"]


class Sys(object):
    def __init__(self, cfg):
        # start clean.  The explorer builds the next system while the previous one still exists, and it does not
        # close() a system whose state was merged; what such a system holds (ctypes in its slots, FFI objects in
        # reference cycles with the ctypes they cache) would decide whether a type of THIS system dies when it is
        # dropped, i.e. whether a watcher's callback runs: the model would not be a function of the history any more.
        global _CURRENT
        old = _CURRENT() if _CURRENT is not None else None
        if old is not None:
            old._dispose()
        del old
        # cffi's own process-wide cache of the in-line route (model._typecache_cffi_backend: a WeakValueDictionary
        # whose KEYS hold the argument ctypes strongly) is emptied as well: 'int[]' built in-line and then cached as
        # the slice type of 'int *' makes both immortal (key -> int * -> ct_stuff -> int[] <- weak value), so one
        # history would decide for all later ones of the same worker process that 'int *' never dies.  Inside one
        # history the cache works as it does for any user.
        from cffi import model
        tc = getattr(model, "_typecache_cffi_backend", None)
        if tc is not None:
            tc.data.clear() if hasattr(tc, "data") else tc.clear()
        _gc.collect()
        _CURRENT = weakref.ref(self)
        self.cfg = cfg
        self.keys_alpha = cfg["keys"]
        self.vias = cfg.get("vias", DEFAULT_VIAS)
        self.x = cfg.get("ops", DEFAULT_OPS)
        self.whats = [o.split(":", 1)[1] for o in self.x if o.startswith("watch:")]
        self.builds = _build_ops(self.keys_alpha, self.vias, cfg.get("spell", False))
        self.env = T.Env()
        self.slots = [None] * NSLOT
        self.mkeys = [None] * NSLOT
        self.watch = {}        # slot -> (weakref kept so that the callback stays armed, key, what)
        self.sliced = set()
        self.limbo = set()     # model: keys of dropped types that sit in a reference cycle until the next collection
        self.holders = {}      # via -> long-lived FFI object
        self.held = {}         # via -> set of keys built through that FFI (model)
        self.ghosts = []       # (key, callback-less weakref) of every ctype this system ever obtained
        self.pending = []      # violations noticed inside weakref callbacks

    def _dispose(self):
        self.watch.clear()              # disarm first: no callback may run any more
        self.slots = [None] * NSLOT
        self.mkeys = [None] * NSLOT
        self.holders.clear()
        self.held.clear()
        self.ghosts = []
        self.env = None

    # ---- alphabet -------------------------------------------------------------------------------
    def enabled(self):
        ops = []
        free = [i for i in range(NSLOT) if self.mkeys[i] is None]
        if free:
            ops.extend(self.builds)
        for i in range(NSLOT):
            k = self.mkeys[i]
            if k is None:
                continue
            ops.append(("drop", i))
            if _sliceable(k):
                if "slice" in self.x and i not in self.sliced:
                    ops.append(("slice", i))
                if "slicekeep" in self.x and free:
                    ops.append(("slicekeep", i))
            if len(free) >= 1 and i not in self.watch:
                for what in self.whats:
                    if _derived(k, what) is not None:
                        ops.append(("watch", i, what))
        ops.append(("collect",))
        if "collect0" in self.x:
            ops.append(("collect", 0))
        if "dropall" in self.x and len(free) < NSLOT:
            ops.append(("dropall",))
        if "dropffi" in self.x:
            for h in T.HOLDERS:
                if h in self.holders:
                    ops.append(("dropffi", h))
        return ops

    # ---- building -------------------------------------------------------------------------------
    def construct(self, key):
        return T.construct(key, self.env)

    def holder(self, via):
        if via not in self.holders:
            import _cffi_backend as B
            if via == "inline-shared":
                import cffi
                f = cffi.FFI()
                f.cdef(T.CDEF)
            elif via == "compiled-shared":
                f = B.FFI()
            elif via == "module":
                f = T.new_module_ffi()
            else:
                raise InfraError(via)
            self.holders[via] = f
            self.held[via] = set()
        return self.holders[via]

    def build_via(self, key, via, sp=0):
        import _cffi_backend as B
        if via == "ctor":
            return self.construct(key)
        if via in ("ctor-arr", "ctor-arr5"):
            # function types whose argument is given as an ARRAY ctype: it decays to the pointer type,
            # so the result must be the canonical type with the pointer argument
            if key == "int(*)(int*)":
                i = B.new_primitive_type("int")
                arr = B.new_array_type(B.new_pointer_type(i), None if via == "ctor-arr" else 5)
                return B.new_function_type((arr,), i, False)
            return self.construct(key)
        if via == "module-func":
            if key != "int(*)(int)":
                raise InfraError((key, via))
            m = self.holder("module")
            self.held["module"].add(key)
            return B.typeof(m.dlopen(None).abs)
        if via == "addressof":
            arr = self.construct(NAMES[TERMS[key][1]])
            return B.typeof(B.FFI().addressof(B.newp(arr, None)))
        s = T.spellings(key, via)[sp]
        if via == "inline":
            import cffi
            return cffi.FFI().typeof(s)
        if via == "compiled":
            return B.FFI().typeof(s)
        f = self.holder(via)
        self.held[via].add(key)
        return f.typeof(s)

    def _obtained(self, obj, key):
        self.ghosts.append((key, weakref.ref(obj)))    # the very weakref object the unique cache uses: no new state

    # ---- operations -----------------------------------------------------------------------------
    def apply(self, op):
        try:
            self._apply(op)
        except InfraError:
            raise
        except Exception as e:
            return self._info({"kind": "exception", "op": op, "error": "%s: %s" % (type(e).__name__, e)})
        if self.pending:
            return self._info(self.pending.pop(0))
        return self._info(self._check())

    def _info(self, info):
        if info is not None:
            info["cfg"] = self.cfg
        return info

    def _drop(self, i):
        if self.mkeys[i] is None:
            return
        if i in self.sliced or TERMS[self.mkeys[i]][0] == "arr" and TERMS[self.mkeys[i]][2] is None:
            self.limbo.add(self.mkeys[i])
        self.mkeys[i] = None
        self.sliced.discard(i)
        self.slots[i] = None            # may run a watcher callback right here

    def _apply(self, op):
        import _cffi_backend as B
        k = op[0]
        if k == "build":
            i = [j for j in range(NSLOT) if self.mkeys[j] is None][0]
            obj = self.build_via(op[1], op[2], op[3] if len(op) > 3 else 0)
            self.slots[i] = obj
            self.mkeys[i] = op[1]
            self._obtained(obj, op[1])
        elif k == "drop":
            self._drop(op[1])
        elif k == "dropall":
            for i in range(NSLOT):
                self._drop(i)
            _gc.collect()
            self.limbo.clear()
        elif k == "collect":
            if len(op) > 1:
                _gc.collect(op[1])      # young generation only: frees what it frees, nothing is predicted
            else:
                _gc.collect()
                self.limbo.clear()
        elif k == "dropffi":
            self.held.pop(op[1], None)
            self.holders.pop(op[1], None)
        elif k in ("slice", "slicekeep"):
            i = op[1]
            p = B.cast(self.slots[i], 0)
            arr = p[0:0]                    # realises P's cached array type: P <-> P[] cycle
            if k == "slicekeep":
                # the array ctype reached by navigation is a live ctype like any other
                akey = NAMES[T.Arr(TERMS[self.mkeys[i]][1], None)]
                j = [j for j in range(NSLOT) if self.mkeys[j] is None][0]
                self.slots[j] = B.typeof(arr)
                self.mkeys[j] = akey
                self._obtained(self.slots[j], akey)
            del arr, p
            self.sliced.add(i)
        elif k == "watch":
            self._watch(op[1], op[2] if len(op) > 2 else "same-ctor")
        else:
            raise InfraError(op)

    def _watch(self, i, what):
        key = self.mkeys[i]
        nkey = _derived(key, what)
        sysref = self

        def cb(ref):
            # the watched ctype is dying: rebuild the very same type (or one that depends on it) right now
            try:
                sysref.watch.pop(i, None)
                COUNT["callback_fired:" + what] += 1
                free = [j for j in range(NSLOT) if sysref.mkeys[j] is None and sysref.slots[j] is None]
                if not free:
                    return
                j = i if i in free else free[-1]      # (independent of the order of two callbacks in one collection)
                if what == "same-inline":
                    import cffi
                    t = cffi.FFI().typeof(T.PLAIN[key][0])
                else:
                    t = sysref.construct(nkey)
                if ref() is not None:
                    sysref.pending.append({"kind": "weakref-alive-in-callback"})
                sysref.slots[j] = t
                sysref.mkeys[j] = nkey
                sysref._obtained(t, nkey)
            except InfraError:
                raise
            except Exception as e:
                sysref.pending.append({"kind": "exception-in-callback", "what": what,
                                       "error": "%s: %s" % (type(e).__name__, e)})
        self.watch[i] = (weakref.ref(self.slots[i], cb), key, what)

    # ---- the oracle -----------------------------------------------------------------------------
    def _check(self):
        import _cffi_backend as B
        live = [(i, self.slots[i], self.mkeys[i]) for i in range(NSLOT) if self.mkeys[i] is not None]
        # every ctype this system ever obtained and that is STILL ALIVE (kept by a reference cycle, by an FFI
        # object's cache, by a module's type table ...) is a live ctype in the sense of the statement
        extra = []
        for key, w in self.ghosts:
            o = w()
            if o is not None and not any(o is x[1] for x in live) and not any(o is x[1] for x in extra):
                extra.append(("ghost", o, key))
        allv = live + extra
        for a in range(len(allv)):
            for b in range(a + 1, len(allv)):
                same_obj = allv[a][1] is allv[b][1]
                same_key = allv[a][2] == allv[b][2]
                if same_obj != same_key:
                    return {"kind": "distinct-objects-for-one-type" if same_key else "one-object-for-two-types",
                            "keys": [allv[a][2], allv[b][2]], "where": [allv[a][0], allv[b][0]]}
        for _, obj, key in extra:
            COUNT["live_type_outside_slots_rebuilt:" + (
                "held-by-ffi" if any(key in ks for ks in self.held.values()) else
                "in-cycle" if key in self.limbo else "other")] += 1
            again = self.construct(key)
            if again is not obj:
                return {"kind": "rebuild-of-live-type-is-another-object", "key": key, "via": "ctor",
                        "holder": "not-in-a-slot"}
            del again
        del extra, allv
        for i, obj, key in live:
            for via in ("ctor", "compiled", "ctor-arr"):
                if not T.spellings(key, via):
                    continue
                again = self.build_via(key, via)
                if again is not obj:
                    return {"kind": "rebuild-of-live-type-is-another-object", "key": key, "via": via}
                del again
            cn = T.CNAME[key]
            if cn is not None and obj.cname.replace(" ", "") != cn.replace(" ", ""):
                return {"kind": "wrong-type-built", "key": key, "cname": obj.cname}
            bad = self._components(obj, key, B)
            if bad:
                return {"kind": "component-is-another-object", "key": key, "component": bad}
        return None

    def _components(self, obj, key, B):
        """ctype objects reached by navigation (.item / .args / .result) are live ctypes too; the other parts of
        the structural key (.length / .ellipsis / .abi) must be the ones asked for."""
        t = TERMS[key]
        COUNT["components_compared:" + t[0]] += 1
        if t[0] in ("ptr", "arr"):
            if obj.item is not T.construct_term(t[1], self.env):
                return "item"
            if t[0] == "arr" and obj.length != t[2]:
                return "length"
        elif t[0] == "fn":
            args = obj.args
            if len(args) != len(t[1]):
                return "nargs"
            for n, a in enumerate(t[1]):
                if args[n] is not T.construct_term(a, self.env):
                    return "args[%d]" % n
            if obj.result is not T.construct_term(t[2], self.env):
                return "result"
            if bool(obj.ellipsis) != t[3]:
                return "ellipsis"
            if obj.abi != (B.FFI_DEFAULT_ABI if t[4] is None else t[4]):
                return "abi"
        return None

    def key(self):
        return (tuple(self.mkeys), tuple(sorted((i, w[1], w[2]) for i, w in self.watch.items())),
                tuple(sorted(self.sliced)), tuple(sorted(self.limbo)),
                tuple(sorted((h, tuple(sorted(ks))) for h, ks in self.held.items())))

    def close(self):
        seen = set(self.keys_alpha) | set(k for k, _ in self.ghosts)
        for _ in range(2):              # (a watcher's callback may refill a slot once; watchers fire only once)
            for i in range(NSLOT):
                self.mkeys[i] = None
                self.slots[i] = None
        self.holders.clear()
        self.held.clear()
        if self.pending:
            return self._info(self.pending.pop(0))
        _gc.collect()
        if self.pending:
            return self._info(self.pending.pop(0))
        # every type rebuilt after everything was freed is unique again
        for key in sorted(seen):
            a = self.construct(key)
            b = self.build_via(key, "compiled") if T.spellings(key, "compiled") else self.construct(key)
            if a is not b:
                return self._info({"kind": "rebuilt-type-not-unique", "key": key})
        return None


# ---- cache population: dict growth / shrink and address reuse of freed ctypes ---------------------------------
def _population(item):
    """N types of one shape; half of them dropped and collected; other types built on the freed addresses; all
    rebuilt: survivors identical, the others fresh, pairwise distinct and right; a second rebuild identical."""
    import _cffi_backend as B
    shape, n = item
    i = B.new_primitive_type("int")
    ip = B.new_pointer_type(i)

    def make_all():
        out = []
        if shape == "array":
            for k in range(n):
                out.append(B.new_array_type(ip, k))
        elif shape == "pointer":
            t = i
            for k in range(n):
                t = B.new_pointer_type(t)
                out.append(t)
        elif shape == "function":
            for k in range(n):
                out.append(B.new_function_type((i,) * k, i, False))
        else:
            raise InfraError(shape)
        return out

    def right(objs):
        if len(set(id(o) for o in objs)) != len(objs):
            return "two-types-share-one-object"
        for k, o in enumerate(objs):
            if shape == "array" and (o.length != k or o.item is not i):
                return "wrong-array"
            if shape == "pointer" and o.item is not (objs[k - 1] if k else i):
                return "wrong-pointee"
            if shape == "function" and (len(o.args) != k or o.result is not i):
                return "wrong-function"
        return None

    def same(a, b):
        return all(x is y for x, y in zip(a, b))

    _gc.collect()
    first = make_all()
    bad = right(first)
    if bad:
        return {"step": "first-build", "what": bad}
    if not same(first, make_all()):
        return {"step": "second-build", "what": "rebuild-of-live-type-is-another-object"}
    # drop half: every 2nd array / function type, the upper half of the pointer chain (each level's cache key is the
    # ADDRESS of the level below; the chain is freed top-down)
    if shape == "pointer":
        keep = [o if k < n // 2 else None for k, o in enumerate(first)]
    else:
        keep = [o if k % 2 == 0 else None for k, o in enumerate(first)]
    del first
    _gc.collect()
    # let OTHER types take the freed addresses before the dropped ones are asked for again
    soak = [B.new_array_type(ip, n + 7 + k) for k in range(n // 2)]
    soak += [B.new_function_type((ip,) * (k + 1), ip, True) for k in range(min(n // 4, 200))]
    again = make_all()
    bad = right(again)
    if bad:
        return {"step": "rebuild-after-drop", "what": bad}
    for k, o in enumerate(keep):
        if o is not None and again[k] is not o:
            return {"step": "rebuild-after-drop", "what": "survivor-rebuilt-as-another-object"}
    soak_ids = set(id(o) for o in soak)          # (the soak types are alive: their ids are theirs alone)
    if any(id(o) in soak_ids for o in again):
        return {"step": "rebuild-after-drop", "what": "one-object-for-two-types"}
    if not same(again, make_all()):
        return {"step": "third-build", "what": "rebuild-of-live-type-is-another-object"}
    nfresh = sum(1 for o in keep if o is None)
    del keep, again, soak
    _gc.collect()
    a, b = make_all(), make_all()
    if right(a) or not same(a, b):
        return {"step": "rebuild-after-all-freed", "what": right(a) or "rebuilt-type-not-unique"}
    return {"ok": True, "types": n, "dropped_and_rebuilt": nfresh}


# ---- the plan -------------------------------------------------------------------------------------------------
def _plan(quick):
    """(family, [cfg...], depth, d0): every cfg is a finite alphabet that is explored exhaustively to `depth`.

    The families that go through an instance of the generated module ('module', 'spell-module') run in a second
    phase, in worker processes of their own: a ctype realised into a module's types[] table is never released (not
    even when the module's FFI object dies), so it is immortal for the rest of the PROCESS.  Mixed with the other
    families it would depend on the distribution of the work whether 'int *' can still die in a history."""
    allk = T.BASE12 + T.ABI3 + T.SHAPES + ["unsigned int", "long", "_Bool", "int(*)[3]"]
    small = ["int*", "int**", "int[]", "int(*)(int*)"]
    abik = ["int(*)(int)", "int(*)(int)@3", "int(*)(int)@4", "int(*)(int,...)", "int(*)(int,...)@3"]
    spellk = [k for k in T.PLAIN if len(T.spellings(k, "module")) > 1]
    hold_vias = ["ctor", "inline-shared", "compiled-shared"]
    mod_vias = ["ctor", "module", "module-func"]
    hold_ops = ["dropffi", "collect0", "watch:same-ctor"]
    watch_ops = ["slice", "slicekeep", "dropall"]
    whats = ["same-ctor", "same-inline", "pointer-to", "array-of"]
    navk = ["int*", "char*", "int**", "int[]", "int[2]", "int(*)[2]"]
    nav_ops = ["slice", "slicekeep", "collect0"]

    def c(name, keys, **kw):
        d = {"name": name, "keys": list(keys)}
        d.update(kw)
        return d

    def spell(prefix, vias, ops=()):
        return [c(prefix + ":" + k, [k], vias=list(vias), spell=True, ops=list(ops)) for k in spellk]

    plan = []
    plan.append(("all", [c("all", allk, vias=DEFAULT_VIAS + ["addressof"])], 2, 2))
    if quick:
        plan.append(("small", [c("small", small)], 4, 2))
        plan.append(("abi", [c("abi", abik, vias=["ctor", "compiled"], ops=["watch:same-ctor"])], 4, 4))
        plan.append(("holders", [c("holders", ["int*", "int(*)(int)"], vias=hold_vias, ops=hold_ops)], 4, 2))
        plan.append(("spell", spell("spell", ["inline", "compiled", "inline-shared", "compiled-shared"]), 2, 2))
        plan.append(("watch", [c("watch:" + w, ["int*"], vias=["ctor"], ops=watch_ops + ["watch:" + w])
                               for w in whats], 5, 2))
        plan.append(("nav", [c("nav", navk, vias=["ctor", "addressof"], ops=nav_ops)], 4, 2))
        plan.append(("module", [c("module", ["int*", "int**", "int(*)(int)"], vias=mod_vias, ops=hold_ops)], 4, 2))
        plan.append(("spell-module", spell("spellm", ["module", "inline-shared"]), 2, 2))
    else:
        plan.append(("all", [c("base+abi", T.BASE12 + T.ABI3)], 3, 3))
        plan.append(("all", [c("shapes", T.SHAPES + ["int(*)[3]"], vias=DEFAULT_VIAS + ["addressof"])], 3, 3))
        plan.append(("small", [c("small", small)], 5, 3))
        plan.append(("abi", [c("abi", abik, vias=["ctor", "compiled"], ops=["watch:same-ctor"])], 4, 4))
        plan.append(("holders", [c("holders", ["int", "int*", "int*[2]", "int(*)(int)"], vias=hold_vias,
                                   ops=hold_ops)], 3, 3))
        plan.append(("holders", [c("holders:deep", ["int*", "int(*)(int)"], vias=hold_vias, ops=hold_ops)], 4, 3))
        plan.append(("spell", spell("spell", ["inline", "compiled", "inline-shared", "compiled-shared"]), 2, 2))
        plan.append(("spell", spell("spell3", ["inline-shared", "compiled-shared"], ["dropffi"]), 3, 3))
        plan.append(("watch", [c("watch:" + w, ["int*"], vias=["ctor"], ops=watch_ops + ["watch:" + w])
                               for w in whats], 6, 3))
        plan.append(("watch", [c("watch:mixed1", ["int*"], vias=["ctor"],
                                 ops=watch_ops + ["watch:" + w for w in whats])], 5, 3))
        plan.append(("watch", [c("watch:mixed", ["int*", "int[]"], vias=["ctor", "inline"],
                                 ops=watch_ops + ["watch:" + w for w in whats])], 4, 3))
        plan.append(("nav", [c("nav", navk, vias=["ctor", "addressof"], ops=nav_ops)], 4, 3))
        plan.append(("nav", [c("nav:deep", ["int*", "int[]", "int[2]", "int(*)[2]"], vias=["ctor", "addressof"],
                               ops=nav_ops)], 5, 3))
        plan.append(("module", [c("module", ["int", "int*", "int**", "int*[2]", "int(*)(int)"], vias=mod_vias,
                                  ops=hold_ops)], 3, 3))
        plan.append(("module", [c("module:deep", ["int*", "int**", "int(*)(int)"], vias=mod_vias, ops=hold_ops)],
                     4, 3))
        plan.append(("spell-module", spell("spellm", ["module", "inline-shared"]), 2, 2))
        plan.append(("spell-module", spell("spellm3", ["module", "inline-shared"], ["dropffi"]), 3, 3))
    return plan


def _uses_module(cfg):
    return any(v in ("module", "module-func") for v in cfg.get("vias", DEFAULT_VIAS))


def _pin():
    """Make what cffi keeps for the life of the process the same in every worker, before they are forked: the
    primitives the compiled route realises once (realize_c_type.c all_primitives[]) ..."""
    import _cffi_backend as B
    f = B.FFI()
    for k in T.PLAIN:
        if TERMS[k][0] in ("prim", "void"):
            f.typeof(T.PLAIN[k][0])


def _pin_module():
    """... and, for the second phase, everything an instance of the generated module can realise into its types[]
    table (typedef names, the function global)."""
    import _cffi_backend as B
    m = T.new_module_ffi()
    for name in T.MODULE_TYPENAMES:
        m.typeof(name)
    B.typeof(m.dlopen(None).abs)


POPULATION = [("array", 100), ("array", 3000), ("pointer", 100), ("pointer", 3000), ("function", 100),
              ("function", 1000)]


def _work(item):
    """One pool item: a population, or the exploration of one subtree of one alphabet (the two stages of
    hist.run_parallel, here for all families in one pool so that the per-family counters come back)."""
    if item[0] == "population":
        return _population(item[1])
    import mmap
    _, cfg, prefix, depth, d0, want_frontier = item
    path = hist._journal_path(item)
    with open(path, "wb") as f:
        f.write(b"\0" * hist._JSIZE)
    f = open(path, "r+b")
    hist._journal = mmap.mmap(f.fileno(), hist._JSIZE)      # crash attribution: the history about to be executed
    COUNT.clear()
    t0 = time.time()
    try:
        st = hist.explore(Sys, cfg, depth, min(d0, depth) if want_frontier else d0, tuple(prefix), True,
                          want_frontier=want_frontier)
        return st, dict(COUNT), time.time() - t0
    finally:
        hist._journal.close()
        f.close()
        hist._journal = None


def run(ctx):
    import cffi                 # noqa: F401  (imported before the freeze below)
    import _cffi_backend        # noqa: F401
    _gc.disable()
    T.module_source()           # generated once, inherited by the forked workers
    # everything that exists now (modules, parser tables) is taken out of the collector's sight: the collections of
    # the histories then only look at what the histories created (2x faster, no copy-on-write storm in the workers)
    _pin()
    _gc.collect()
    _gc.freeze()
    plan = _plan(ctx.quick)
    fam_stats = collections.OrderedDict()       # (family, depth) -> Stats
    fam_of = {}
    counters = collections.Counter()
    fam_secs = collections.Counter()
    total = hist.Stats()
    crashes = []
    viol = []
    pops = {}

    def take(item, r):
        if isinstance(r, pool.WorkerError):
            raise InfraError(r.tb)
        if item[0] == "population":
            pops[item[1]] = r
            return None
        if isinstance(r, pool.Crash):
            crashes.append((item, r, hist._read_journal(item)))
            return None
        st, cnt, secs = r
        if item[5] and jobs[item[1]["name"]][1] > item[3]:
            st.samples = []                 # (prefixes, not complete histories)
        fam_secs[fam_of[item[1]["name"]]] += secs
        fam_stats[fam_of[item[1]["name"]]].merge(st)
        total.merge(st)
        counters.update(cnt)
        viol.extend(st.violations)
        return st

    jobs = {}
    for fam, cfgs, depth, d0 in plan:
        fam_stats.setdefault((fam, depth), hist.Stats())
        for cfg in cfgs:
            if cfg["name"] in jobs:
                raise InfraError("duplicate alphabet name %r" % cfg["name"])
            fam_of[cfg["name"]] = (fam, depth)
            jobs[cfg["name"]] = (cfg, depth, d0)
    for phase in (1, 2):
        if phase == 2:
            _pin_module()
        stage1 = [("population", p) for p in POPULATION] if phase == 1 else []
        for cfg, depth, d0 in jobs.values():
            if _uses_module(cfg) == (phase == 2):
                stage1.append(("explore", cfg, (), min(2 if depth > 2 else 1, depth), d0, True))
        stage2 = []
        for item, r in pool.pmap(_work, [[it] for it in stage1], contain_crashes=True, item_timeout=3600):
            st = take(item, r)
            if st is not None:
                cfg, depth, d0 = jobs[item[1]["name"]]
                if depth > item[3]:
                    for h in st.frontier:
                        stage2.append(("explore", cfg, h, depth, d0, False))
        # the deepest alphabets first (their subtrees are the big ones)
        stage2.sort(key=lambda it: -it[3])
        ctx.log("phase %d stage 1 done: %d subtrees to explore" % (phase, len(stage2)))
        for item, r in pool.pmap(_work, [[it] for it in stage2], contain_crashes=True, item_timeout=3600):
            take(item, r)
    for (fam, depth), st in fam_stats.items():
        ctx.count("transitions_%s_depth%d" % (fam, depth), st.transitions)
        ctx.count("family_" + fam, st.transitions)
        ctx.log("family %s depth %d: %d transitions, %d states, %.0f worker-seconds" % (
            fam, depth, st.transitions, st.states, fam_secs[(fam, depth)]))
    for item, cr, last in crashes:
        ctx.violation({"kind": "crash", "family": fam_of[item[1]["name"]][0]},
                      {"prefix": item[2], "last_history": last, "how": cr.describe(), "cfg": item[1]})
    for h, info in viol:
        cfg = info.get("cfg") or {}
        sig = {"kind": info.get("kind"), "family": fam_of.get(cfg.get("name"), ("?",))[0]}
        for extra in ("via", "holder", "component", "what"):
            if info.get(extra) is not None:
                sig[extra] = info[extra]
        last = [o for o in h if tuple(o) != ("<close>",)][-1]
        sig["last_op"] = last[0] if last[0] != "build" else "build:" + last[2]
        ctx.violation(sig, {"history": h, "info": info})
    npop = 0
    for p in POPULATION:
        r = pops.get(p)
        if isinstance(r, pool.Crash):
            ctx.violation({"kind": "crash", "family": "population", "shape": p[0]},
                          {"population": list(p), "how": r.describe()})
        elif not r.get("ok"):
            ctx.violation({"kind": r["what"], "family": "population", "shape": p[0], "step": r["step"]},
                          {"population": list(p), "info": r})
        else:
            npop += 1
            ctx.count("population_%s_types" % p[0], r["types"])
            ctx.count("population_%s_dropped_and_rebuilt" % p[0], r["dropped_and_rebuilt"])
    for k, v in sorted(counters.items()):
        ctx.count("oracle_" + k, v)
    for k, v in sorted(total.op_hist.items()):
        ctx.count("op_" + str(k), v)
    for smp in total.samples:
        ctx.sample({"history": smp})
    if not total.samples:
        ctx.sample({"note": "see class_histogram"})
    cov = {
        "states": total.states, "transitions": total.transitions,
        "traces_validated_against_impl": total.transitions, "max_depth": total.max_depth,
        "unmerged_depth_d0": [p[3] for p in plan], "merged_states_skipped": total.merged,
        "histories_closed": total.histories_closed,
        "evaluations": total.transitions, "distinct_nontrivial": total.states,
        "rule": "a state is an operation history (merged by model key beyond d0); each transition runs on real "
                "ctypes.  Families: all / small / abi (function types differing in ABI) / holders (long-lived FFI "
                "objects, drop of the FFI) / module (instances of a generated module, typedef names, lib.func) / "
                "spell and spell-module (every spelling of a type, 5 parser routes) / watch (4 kinds of rebuilding "
                "weakref callbacks, kept slice types) / nav (slice, addressof) are histories; population (%d "
                "populations of 100..3000 types, half dropped and rebuilt on reused addresses) is counted in "
                "class_histogram only" % npop,
        "plan": [{"family": f, "alphabets": len(cf), "type_expressions": len(set(k for x in cf for k in x["keys"])),
                  "depth": d, "d0": z} for f, cf, d, z in plan],
        "populations": npop,
        "exhaustive": True,
    }
    return ctx.finish(cov, ["gc disabled during the search; collections only where a history says",
                            "objects that exist before the search starts (modules, parser tables) are gc.freeze()d"])


def replay(detail):
    _gc.disable()
    if detail.get("population") is not None:
        r = _population(tuple(detail["population"]))
        print(detail["population"], "->", r)
        return 0 if r.get("ok") else 1
    h = detail.get("history")
    if h is None:
        h = detail.get("last_history")
        if isinstance(h, str):
            import ast
            try:
                h = ast.literal_eval(h)
            except (ValueError, SyntaxError):
                h = None
    if h is None:
        print(detail)
        return 1
    cfg = (detail.get("info") or {}).get("cfg") or detail.get("cfg")
    if not cfg:
        cfg = {"name": "replay", "keys": list(TERMS), "vias": DEFAULT_VIAS, "ops": ALL_OPS}
    _pin()                      # the process-wide state the workers of run() start from
    if _uses_module(cfg):
        _pin_module()
    s = Sys(cfg)
    for op in [tuple(o) for o in h if tuple(o) != ("<close>",)]:
        bad = s.apply(op)
        print(op, "->", bad)
        if bad:
            return 1
    bad = s.close()
    print("<close> ->", bad)
    return 1 if bad else 0
