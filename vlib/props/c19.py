"""C19 -- ffi.buffer, ffi.from_buffer and ffi.memmove match a byte-array model.

Engine E2 (vlib/hist.py).  Memory: 12 bytes owned by (a) a bytearray, (b) an
array.array('H'), (c) an ffi.new("char[12]"), (d) a 12-byte window in the
middle of a larger bytearray whose other bytes are canaries.  Operations:

    buf   b = ffi.buffer(p + off, n)              (len, bytes(b), b[:])
    get   b[i]            set  b[i] = c
    gs    b[i:j]          ss   b[i:j] = src       (src: bytes of the right / a wrong length, bytearray,
                                                   an overlapping cffi buffer shifted by +-1, b itself)
    fb    c = FFI.from_buffer(T, window-of-the-object)  for T in char[], short[], int[], int[2], int[3],
          int[4], char[12], char[13], both FFI front ends; len(c), every item, address; write one item
    mm    ffi.memmove(dst, src, n) for every (dst offset, src offset, n) inside the 12 bytes and every
          pairing of {cdata pointer, Python buffer, cffi buffer} (+ an external bytes source)
    poke  change one byte behind cffi's back (the views must be live)

Added after the audit (.cache/audit/C19.md; handlers in _c19x.py, large sizes in large_slices below):
    ss    further sources: memoryview, array.array('H'), non-contiguous view, list, str, cdata array /
          pointer / primitive
    del, dels, gs3, ss3     del b[i], del b[i:j], b[i:j:step] reads and writes (step None, 1, True,
          __index__ object, 2, -1, 0, +-2**63)
    setv, geti, seti, gsi, ssi   other value kinds for b[i] = v; bool / __index__ / float / str / None
          objects as index and as slice bounds
    rd, cmp, mvset, mvset1, pack, unpack, readinto   iteration, in, reversed, memoryview(b), bytearray(b),
          join; the six comparisons; writes through memoryview(b), struct.pack_into, readinto
    fb (more types / windows), fbf (call forms), fbx (external read-only, 2-D, strided, str objects)
    mm kinds int* / void*; mmx: keywords, size objects, refused operands, owner object, struct pointer
    bufp  ffi.buffer over int* / void* / struct* cdata, keyword form, __index__ size
Three expectation modes: EXACT (the bytearray's outcome), TOLERANT (refused with nothing changed, or
the bytearray's outcome: inputs the statement does not oblige cffi to take), REFUSE (must raise, nothing
changed: deletions, length changes, inputs a bytearray refuses too).

Reference model: a Python bytearray with Python's own index / slice semantics
(the model literally evaluates the same expression on a bytearray), with the
one exception the statement makes: an assignment that would change the length
must be refused and change nothing.  After every step the whole memory is read
through a channel that does not involve cffi and compared with the model.
"""
import array
import ctypes

from .. import hist, pool
from ..build import InfraError
from . import _c19x
from ._c19x import get_ffi

ID = "C19"
LEVEL = "model_checking"
META = dict(
    engine="E2-hist", level="model_checking",
    technique="explicit-state search over all operation histories (buffer views, index/slice reads and writes, "
              "from_buffer, memmove) on real memory in lock-step with a Python bytearray as reference model",
    text="From four kinds of 12-byte memory (bytearray, array.array, ffi.new, a canary-guarded window): every single "
         "operation of the full alphabet (13.9k operations, including ffi.memmove for all 819 (dst offset, src offset, "
         "n) triples x 14 pairings of cdata char* / int* / void* / Python buffer / cffi buffer / bytes); quick = all "
         "histories of length 2 with at most one operation outside a 44-operation core alphabet (163-operation "
         "alphabet) and the core alphabet to depth 3 (merging beyond depth 1); thorough = length 2 with one operation "
         "from the full alphabet, length 3 with one operation from the 163-operation alphabet, all core triples (no "
         "merging), core to depth 4 with merging beyond depth 2.  Slice bounds straddle the clamping comparisons of "
         "mb_slice/mb_ass_slice (None, -n-1, -1, 0, 3, n, n+1, +-2**63); from_buffer windows of 12, 11, 8, 7, 5, 3 "
         "and 0 bytes straddle the rounding and the fixed-size check of direct_from_buffer.  Families added after the "
         "audit (all enumerated, same bytearray oracle): slice-assignment sources memoryview / array.array / "
         "non-contiguous view / list / str / cdata array, pointer and primitive (ss, +424 ops); del b[i], del b[i:j], "
         "three-part slices with step None, 1, True, __index__ object, 2, -1, 0, +-2**63 for reads and writes "
         "(del/dels/gs3/ss3, 170 ops); item assignment of int, bytearray, memoryview, empty, 2-byte, str, None "
         "values and bool / __index__ / float / str / None index objects as indices and slice bounds "
         "(setv/geti/seti/gsi/ssi, 66 ops); iteration, reversed, in, memoryview reads, bytearray(), join, the six "
         "rich comparisons against 11 kinds of operand, writes through memoryview(b), struct.pack_into, readinto "
         "(rd/cmp/mvset/mvset1/pack/unpack/readinto, 105 ops); from_buffer with item sizes 8, 3 (char[][3]), 16, 0, "
         "nested items, int[0], a pointer type, windows of 3 and 11 bytes, the type as ctype object, the "
         "one-argument form, require_writable positional / keyword, cdecl= / python_buffer= keywords on both front "
         "ends, and external bytes / read-only memoryview / 2-D memoryview / array('I') / non-contiguous / str "
         "objects (fb/fbf/fbx, +1042 ops); memmove with keywords, __index__ / bool / float / negative / 2**63 "
         "sizes, read-only, primitive, struct, non-contiguous and str operands, the owner object itself, int[3] and "
         "struct pointer cdata (mmx, 40 ops); ffi.buffer over int* / void* / struct* cdata, keyword and __index__ "
         "forms (bufp, 25 ops); slice reads and overlapping slice assignments on 4 KiB - 1 MiB buffers "
         "(large_slices, 69 cases quick / 115 thorough).",
    note="Python's bytearray is the oracle for index/slice semantics; 'len(obj)' in the statement is read as the "
         "byte length of obj's buffer (array.array('H') of 6 items = 12 bytes); where the statement does not oblige "
         "cffi to accept an input that a bytearray accepts (extended slices, non-bytes values, lists, cdata or "
         "non-contiguous sources, index objects as sizes) the rule is 'refused with every byte unchanged, or exactly "
         "the bytearray's result'; deletion and every length-changing assignment must be refused")

N = 12
MAXS = 2 ** 63 - 1
BIG = 2 ** 63
PAD = 8
ANY = 99
MEMS = ("bytearray", "array", "cdata", "window")
INIT = bytes(range(0x10, 0x10 + N))
EXT = bytes(range(0xE0, 0xE0 + N))

# from_buffer tables (FB_TYPES, FB_WINS), the two FFI front ends (get_ffi) and every operation family added
# after the audit live in _c19x.py; the lists below are the part of them this module enumerates itself
FB_OLD_TYPES = _c19x.FB_OLD_TYPES
FB_WINS = _c19x.FB_OLD_WINS                               # (offset, length); (0, 12) is the object itself
if (N, MAXS, BIG, EXT) != (_c19x.N, _c19x.MAXS, _c19x.BIG, _c19x.EXT):
    raise InfraError("c19 / _c19x constants differ")

# sources of a slice assignment: EXACT = a buffer of bytes, accepted iff the length fits; TOLERANT = an object a
# bytearray would take but the statement does not oblige cffi to (refused and nothing changed, or the bytearray's
# result); REFUSE = a bytearray refuses it as well
SS_OLD = ("bytes", "short", "long", "bytearray", "ovl+", "ovl-", "self")
SS_NEW_EXACT = ("mview", "arrayH")
SS_TOLERANT = ("noncontig", "list", "cdata_arr", "cdata_ptr")
SS_REFUSE = ("str", "cdata_prim")


# ---------------------------------------------------------------------------
# alphabet: level 0 core, 1 narrow, 2 wide, 3 full (all memmove triples)

def _dedupe(seq):
    out = []
    for x in seq:
        if x not in out:
            out.append(x)
    return out


_OPS_CACHE = {}


_GEN_CACHE = {}
BUF_WINDOWS = [(0, 12), (0, 0), (0, 5), (3, 5), (7, 5), (0, None), (12, 0), (11, 1)]


def ops_for(bufwin, lvl):
    key = (bufwin, lvl)
    r = _OPS_CACHE.get(key)
    if r is None:
        g = _GEN_CACHE.get(bufwin)
        if g is None:
            g = _GEN_CACHE[bufwin] = _gen_ops(bufwin)
        r = [op for (l, op) in g if l <= lvl]
        if len(set(r)) != len(r):
            raise InfraError("duplicate ops for %r" % (key,))
        _OPS_CACHE[key] = r
    return r


def precompute_ops(maxlvl):
    """In the driver, before the workers are forked: they inherit the tables."""
    for (off, n) in BUF_WINDOWS:
        w = (off, N - off if n is None else n)
        for l in range(maxlvl + 1):
            ops_for(w, l)


def _gen_ops(bufwin):
    off, n = bufwin
    out = []

    def lv(core, narrow=False):
        return 0 if core else 1 if narrow else 2
    # windows for ffi.buffer(p + off, n); n = None: ffi.buffer(p) (size taken from the cdata's type)
    for w in BUF_WINDOWS:
        out.append((lv(w in ((0, 12), (3, 5), (0, 0)), w in ((0, 5), (0, None))), ("buf",) + w))
    idx = _dedupe([0, -1, n - 1, n, -n, -n - 1, 3, MAXS, BIG, -BIG - 1])
    for i in idx:
        out.append((lv(i in (0, -1, n, -n - 1), i in (n - 1, -n, BIG)), ("get", i)))
    for i in idx:
        out.append((lv(i in (-1, n), i in (0, -n - 1)), ("set", i, 0)))
        if i in (0, -1):
            out.append((lv(False, i == 0), ("set", i, 1)))
    sv = _dedupe([None, 0, 3, -1, n, n + 1, -n - 1, 12, 13, -13])
    pairs = [(i, j) for i in sv for j in sv] + [(0, BIG), (-BIG - 1, 3), (BIG, None), (None, -BIG - 1)]
    core_gs = _dedupe([(None, None), (3, -1), (-1, n + 1), (-n - 1, 3), (3, 0)])
    narrow_gs = core_gs + [(0, n), (None, 3), (3, None), (0, BIG), (n, n + 1), (13, None), (-13, 13)]
    for (i, j) in pairs:
        out.append((lv((i, j) in core_gs, (i, j) in narrow_gs), ("gs", i, j)))
    core_ss = {(None, None): ("bytes", "long", "self", "ovl+"), (3, -1): ("bytes", "short", "ovl-", "ovl+"),
               (-1, n + 1): ("bytes", "long"), (3, 0): ("bytes", "long"), (-n - 1, 3): ("bytearray", "ovl+")}
    for (i, j) in pairs:
        for src in ("bytes", "short", "long", "bytearray", "ovl+", "ovl-", "self"):
            if (i, j) in core_ss:
                l = lv(src in core_ss[(i, j)], True)
            elif (i, j) in narrow_gs:
                l = lv(False, src in ("bytes", "long"))
            else:
                l = 2
                if src in ("bytearray", "self") and (i, j) not in narrow_gs:
                    continue
            out.append((l, ("ss", i, j, src)))
    # more kinds of source objects (audit gap 1)
    core_new = (((None, None), "cdata_arr"),)
    narrow_new = (((None, None), "mview"), ((3, -1), "arrayH"), ((None, None), "noncontig"), ((3, -1), "cdata_ptr"),
                  ((-1, n + 1), "list"), ((3, -1), "str"))
    for (i, j) in pairs:
        for src in SS_NEW_EXACT + SS_TOLERANT + SS_REFUSE:
            out.append((lv(((i, j), src) in core_new, ((i, j), src) in narrow_new), ("ss", i, j, src)))
    # from_buffer
    for fk in ("inline", "ool"):
        for T in FB_OLD_TYPES:
            for w in FB_WINS:
                for wk in ("none", "last", "first"):
                    core = (fk, T, w, wk) in (("inline", "int[]", (0, 12), "last"), ("ool", "short[]", (0, 5), "last"),
                                              ("inline", "int[2]", (0, 5), "none"), ("ool", "int[]", (4, 7), "first"),
                                              ("ool", "int[4]", (0, 12), "none"), ("inline", "int[3]", (0, 12), "last"))
                    narrow = wk == "last" and w in ((0, 12), (0, 5)) and T in ("char[]", "short[]", "int[]", "int[2]")
                    if wk == "first" and not core and not (T.endswith("[]") and w == (4, 7)):
                        continue
                    out.append((lv(core, narrow), ("fb", fk, T, w[0], w[1], wk)))
    # memmove
    core_mm = [("c", 1, "c", 0, 11), ("c", 0, "c", 1, 11), ("y", 2, "b", 0, 10), ("b", 0, "y", 3, 9),
               ("c", 7, "y", 2, 5), ("b", 3, "b", 3, 0), ("y", 0, "x", 4, 8), ("c", 4, "b", 2, 5)]
    narrow_mm = [("b", 1, "c", 0, 11), ("y", 0, "y", 1, 11), ("c", 0, "c", 0, 12), ("b", 5, "x", 0, 7),
                 ("y", 6, "c", 0, 6), ("c", 0, "b", 6, 6),
                 # cdata operands that are not char pointers: n stays a number of BYTES (audit gap 6)
                 ("i", 1, "c", 0, 11), ("c", 0, "v", 1, 11), ("v", 4, "i", 2, 5)]
    seen = set()
    for m in core_mm:
        out.append((0, ("mm",) + m))
        seen.add(m)
    for m in narrow_mm:
        out.append((1, ("mm",) + m))
        seen.add(m)
    for dk, sk in [(d, s_) for d in ("c", "y", "b") for s_ in ("c", "y", "b", "x")] + [("i", "v"), ("v", "i")]:
        for n_ in range(N + 1):
            for doff in range(N - n_ + 1):
                for soff in range(N - n_ + 1):
                    m = (dk, doff, sk, soff, n_)
                    if m in seen:
                        continue
                    # wide: every triple whose ranges overlap by exactly one byte or fully, or touch an end
                    wide = (dk, sk) in (("c", "c"), ("y", "b"), ("b", "y")) and n_ in (1, 5, 11) and \
                        doff in (0, 1, N - n_) and soff in (0, 1, N - n_)
                    out.append((2 if wide else 3, ("mm",) + m))
    for k, v in ((4, 0x99), (0, 0x77), (11, 0x55)):
        out.append((lv(k == 4), ("poke", k, v)))
    # deletion, three-part slices, value / index object kinds, other slots of the buffer type, more from_buffer
    # types / windows / call forms / objects, memmove refusals and keywords, ffi.buffer over other pointer types
    out.extend(_c19x.gen_ext_ops(bufwin))
    return out


# ---------------------------------------------------------------------------
# class histogram plumbing: a Sys instance lives for exactly one explored transition
# (hist.build() replays the prefix, then exactly one new op is applied to it)

_COUNTS = {}
_CUR = [None]


def _flush():
    s = _CUR[0]
    if s is not None and s.last_class is not None:
        _COUNTS[s.last_class] = _COUNTS.get(s.last_class, 0) + 1
    _CUR[0] = None


def _slice_class(i, j, n):
    def c(v):
        if v is None:
            return "None"
        if abs(v) > MAXS:
            return "huge"
        if v < -n:
            return "<-n"
        if v < 0:
            return "neg"
        if v > n:
            return ">n"
        if v == n:
            return "n"
        return "in"
    return c(i) + ":" + c(j)


class Sys(object):
    def __init__(self, cfg):
        _flush()
        _CUR[0] = self
        self.last_class = None
        lvl, budget, mem = cfg
        self.cfg = cfg
        self.lvl, self.budget, self.mem = lvl, budget, mem
        self.noncore = 0
        self.ffi = ffi = get_ffi("inline")
        self.keep = []
        self.lo = 0
        if mem == "bytearray":
            self.o = o = bytearray(INIT)
            hold = (ctypes.c_char * N).from_buffer(o)
            self.base_addr = ctypes.addressof(hold)
            self.keep.append(hold)
            self.p = ffi.from_buffer(o)
            self.obj = o
        elif mem == "array":
            self.o = o = array.array("H", [INIT[2 * k] | (INIT[2 * k + 1] << 8) for k in range(N // 2)])
            hold = (ctypes.c_char * N).from_buffer(o)
            self.base_addr = ctypes.addressof(hold)
            self.keep.append(hold)
            self.p = ffi.from_buffer(o)
            self.obj = o
        elif mem == "window":
            self.o = o = bytearray((0xA0 + k) & 0xFF for k in range(PAD + N + PAD))
            o[PAD:PAD + N] = INIT
            self.lo = PAD
            win = (ctypes.c_char * N).from_buffer(o, PAD)
            self.base_addr = ctypes.addressof(win)
            self.p = ffi.from_buffer(win)
            self.obj = win
        elif mem == "cdata":
            self.o = o = ffi.new("char[12]")
            self.base_addr = int(ffi.cast("uintptr_t", o))
            ctypes.memmove(self.base_addr, INIT, N)
            self.p = o
            self.obj = None
        else:
            raise InfraError("bad mem %r" % (mem,))
        self.M = bytearray(self.actual())
        if bytes(self.M[self.lo:self.lo + N]) != INIT:
            raise InfraError("initial memory not as expected")
        self.bufwin = (0, N)
        self.b = ffi.buffer(self.p, N)

    # -- channels that do not involve cffi ----------------------------------------
    def actual(self):
        if self.mem in ("bytearray", "window"):
            return bytes(self.o)
        if self.mem == "array":
            return self.o.tobytes()
        return ctypes.string_at(self.base_addr, N)

    def _poke(self, k, v):
        if self.mem == "bytearray":
            self.o[k] = v
        elif self.mem == "window":
            self.o[PAD + k] = v
        else:
            ctypes.memmove(self.base_addr + k, bytes([v]), 1)

    # -- objects handed to cffi ------------------------------------------------------
    def _ptr(self, off):
        return self.p + off if off else self.p

    def _pybuf(self, off, length=None):
        """A writable Python buffer over bytes [off, off+length) of the memory."""
        end = N if length is None else off + length
        if self.mem == "cdata":
            return memoryview(self.ffi.buffer(self.p, N))[off:end]
        if self.mem == "window":
            return memoryview(self.o)[PAD + off:PAD + end]
        return memoryview(self.obj).cast("B")[off:end]

    def _window_obj(self, off, length):
        """The Python object given to from_buffer: the memory's owner itself for the full range,
        otherwise a window object of exactly `length` bytes (a ctypes array sharing the memory, or a cffi
        buffer when the memory belongs to cffi)."""
        if self.mem == "cdata":
            return self.ffi.buffer(self.p + off, length)
        if (off, length) == (0, N):
            return self.obj
        if self.mem == "window":
            return (ctypes.c_char * length).from_buffer(self.o, PAD + off)
        return (ctypes.c_char * length).from_buffer(self.o, off)

    def enabled(self):
        return ops_for(self.bufwin, self.lvl if self.noncore < self.budget else 0)

    def key(self):
        return (self.bufwin, bytes(self.M), len(self.b), min(self.noncore, self.budget))

    def _bad(self, kind, **kw):
        d = {"kind": kind, "buf": list(self.bufwin)}
        d.update(kw)
        return d

    def _memcheck(self, what):
        a = self.actual()
        if a != bytes(self.M):
            diff = [k for k in range(len(a)) if a[k] != self.M[k]]
            where = "canary" if any(k < self.lo or k >= self.lo + N for k in diff) else "memory"
            return self._bad("memory-after-" + what, where=where, offsets=[k - self.lo for k in diff],
                             actual=a.hex(), model=bytes(self.M).hex())
        return None

    def apply(self, op):
        if self.lvl and op not in ops_for(self.bufwin, 0):
            self.noncore += 1
        info = self._apply(op)
        if info is None:
            info = self._memcheck(op[0])
        if info is not None:
            info["op"] = list(op)
            info["cfg"] = list(self.cfg)
        return info

    def _apply(self, op):
        ffi = self.ffi
        name = op[0]
        off, n = self.bufwin
        a = self.lo + off
        b = self.b

        if name == "buf":
            woff, wn = op[1], op[2]
            self.last_class = "buf/n=%s" % (wn,)
            try:
                nb = ffi.buffer(self._ptr(woff)) if wn is None else ffi.buffer(self._ptr(woff), wn)
            except Exception as e:
                return self._bad("buffer-raises", error=repr(e))
            wn = N - woff if wn is None else wn
            want = bytes(self.M[self.lo + woff:self.lo + woff + wn])
            if len(nb) != wn or bytes(nb) != want or nb[:] != want:
                return self._bad("buffer-view", want_len=wn, got_len=len(nb), got=bytes(nb).hex(), want=want.hex())
            self.b = nb
            self.bufwin = (woff, wn)
            return None

        V = bytearray(self.M[a:a + n])       # what a length-n bytearray over the same bytes would be

        if name == "get":
            i = op[1]
            try:
                want = bytes([V[i]])
            except IndexError:
                want = None
            self.last_class = "get/%s" % ("ok" if want is not None else "huge" if abs(i) > MAXS else "out")
            try:
                got = b[i]
                exc = None
            except Exception as e:
                exc = e.with_traceback(None)
            if want is None:
                if exc is None:
                    return self._bad("index-accepted-out-of-range", i=i, got=repr(got))
                if not isinstance(exc, IndexError):
                    return self._bad("index-wrong-exception", i=i, error=repr(exc))
                return None
            if exc is not None:
                return self._bad("index-rejected", i=i, error=repr(exc))
            if got != want:
                return self._bad("index-value", i=i, got=repr(got), want=repr(want))
            return None

        if name == "set":
            i, t = op[1], op[2]
            c = bytes([0xC1 + t])
            try:
                V[i] = c[0]
                ok = True
            except IndexError:
                ok = False
            self.last_class = "set/%s" % ("ok" if ok else "huge" if abs(i) > MAXS else "out")
            try:
                b[i] = c
                exc = None
            except Exception as e:
                exc = e.with_traceback(None)
            if not ok:
                if exc is None:
                    return self._bad("index-accepted-out-of-range", i=i, write=True)
                if not isinstance(exc, IndexError):
                    return self._bad("index-wrong-exception", i=i, error=repr(exc))
                return None
            if exc is not None:
                return self._bad("index-rejected", i=i, error=repr(exc))
            self.M[a:a + n] = V
            return None

        if name == "gs":
            i, j = op[1], op[2]
            want = bytes(V[i:j])
            self.last_class = "gs/%s/%s" % (_slice_class(i, j, n), "empty" if not want else "nonempty")
            try:
                got = b[i:j]
            except Exception as e:
                return self._bad("slice-read-raises", slice=[i, j], error=repr(e))
            if got != want or type(got) is not bytes:
                return self._bad("slice-read-value", slice=[i, j], got=repr(got), want=repr(want))
            return None

        if name == "ss":
            i, j, src = op[1], op[2], op[3]
            start, stop, _ = slice(i, j).indices(n)
            if stop < start:
                stop = start
            L = stop - start                 # == len(V[i:j])
            if L != len(V[i:j]):
                raise InfraError("slice arithmetic")
            srcobj = None
            if src == "bytes":
                data = bytes(0xD0 + k for k in range(L))
                srcobj = data
            elif src == "bytearray":
                data = bytes(0xB0 + k for k in range(L))
                srcobj = bytearray(data)
            elif src == "short":
                data = bytes(0xD0 + k for k in range(max(L - 1, 0))) if L else b"\xd9"
                srcobj = data
            elif src == "long":
                data = bytes(0xD0 + k for k in range(L + 1))
                srcobj = data
            elif src in ("ovl+", "ovl-"):
                # another cffi buffer of the right length over the same memory, shifted by one byte
                so = off + start + (1 if src == "ovl+" else -1)
                if so < 0 or so + L > N:
                    so = off + start
                data = bytes(self.M[self.lo + so:self.lo + so + L])
                srcobj = ffi.buffer(self._ptr(so), L)
            elif src == "self":
                data = bytes(V)
                srcobj = b
            elif src == "mview":
                data = bytes(0xD0 + k for k in range(L))
                srcobj = memoryview(data)
            elif src == "arrayH":
                # the length of a source counts in BYTES: an odd L gets L + 1 bytes, which must be refused
                data = bytes(0xA0 + k for k in range(L + (L & 1)))
                srcobj = array.array("H")
                srcobj.frombytes(data)
            elif src == "noncontig":
                data = bytes(0x90 + k for k in range(L))
                raw = bytearray(2 * L)
                raw[::2] = data
                srcobj = memoryview(raw)[::2]
            elif src == "list":
                data = bytes(0x80 + k for k in range(L))
                srcobj = list(data)
            elif src in ("cdata_arr", "cdata_ptr"):
                data = bytes(0x70 + k for k in range(L))
                arr = ffi.new("char[]", L)
                ctypes.memmove(int(ffi.cast("uintptr_t", arr)), data, L)
                srcobj = arr if src == "cdata_arr" else ffi.cast("char *", arr)
            elif src == "str":
                data = b""
                srcobj = "x" * L
            elif src == "cdata_prim":
                data = b""
                srcobj = ffi.cast("int", L)
            else:
                raise InfraError("ss source %r" % (src,))
            fits = len(data) == L
            try:
                b[i:j] = srcobj
                exc = None
            except Exception as e:
                exc = e.with_traceback(None)
            if src in SS_REFUSE or src in SS_TOLERANT:
                self.last_class = "ss/%s/%s/%s" % (_slice_class(i, j, n), src, "refused" if exc is not None else "accepted")
                if exc is not None:
                    return None               # refused: the memory check below requires that nothing changed
                if src in SS_REFUSE:
                    return self._bad("slice-assign-accepted-non-buffer", slice=[i, j], src=src)
                V[i:j] = data                 # accepted: then it must be what a bytearray does with these bytes
                if len(V) != n:
                    raise InfraError("model length changed")
                self.M[a:a + n] = V
                return None
            self.last_class = "ss/%s/%s/%s" % (_slice_class(i, j, n), src, "fits" if fits else "wrong-length")
            if fits:
                if exc is not None:
                    return self._bad("slice-assign-rejected", slice=[i, j], src=src, error=repr(exc))
                V[i:j] = data          # Python's own slice assignment on the model (source snapshot taken above)
                if len(V) != n:
                    raise InfraError("model length changed")
                self.M[a:a + n] = V
                return None
            if exc is None:
                return self._bad("slice-assign-wrong-length-accepted", slice=[i, j], src=src, need=L, given=len(data))
            return None                   # refused: the memory check below requires that nothing changed

        if name == "fb":
            return _c19x._fb(self, op)

        if name == "mm":
            dk, doff, sk, soff, cnt = op[1:]
            self.last_class = "mm/%s<-%s/%s" % (
                dk, sk, "external" if sk == "x" else "n=0" if cnt == 0 else "same" if doff == soff else
                "disjoint" if abs(doff - soff) >= cnt else "overlap-fwd" if doff > soff else "overlap-bwd")

            def side(kind, o):
                if kind == "c":
                    return self._ptr(o)
                if kind == "y":
                    return self._pybuf(o)
                if kind == "b":
                    return ffi.buffer(self._ptr(o), N - o)
                if kind == "i":
                    return ffi.cast("int *", self._ptr(o))
                if kind == "v":
                    return ffi.cast("void *", self._ptr(o))
                return EXT[o:]
            data = EXT[soff:soff + cnt] if sk == "x" else bytes(self.M[self.lo + soff:self.lo + soff + cnt])
            try:
                r = ffi.memmove(side(dk, doff), side(sk, soff), cnt)
            except Exception as e:
                return self._bad("memmove-raises", error=repr(e))
            if r is not None:
                return self._bad("memmove-result", got=repr(r))
            self.M[self.lo + doff:self.lo + doff + cnt] = data     # a copy through an intermediate buffer
            return None

        if name == "poke":
            self.last_class = "poke"
            self._poke(op[1], op[2])
            self.M[self.lo + op[1]] = op[2]
            # the current view is live
            want = bytes(self.M[a:a + n])
            if bytes(b) != want:
                return self._bad("buffer-not-live", got=bytes(b).hex(), want=want.hex())
            return None

        handled, info = _c19x.apply_ext(self, op)
        if handled:
            return info
        raise InfraError("unknown op %r" % (op,))

    def close(self):
        # end of history: the current buffer still shows exactly the model's bytes
        off, n = self.bufwin
        want = bytes(self.M[self.lo + off:self.lo + off + n])
        try:
            got = self.b[:]
        except Exception as e:
            return {"kind": "final-read-raises", "error": repr(e), "cfg": list(self.cfg)}
        if got != want or len(self.b) != n:
            return {"kind": "final-view", "got": got.hex(), "want": want.hex(), "cfg": list(self.cfg)}
        return None


# ---------------------------------------------------------------------------
# driver (same scheme as c16: hist.explore inside contained pool workers)

class MemJournal(object):
    """Drop-in for the file hist._note() writes to, backed by a shared file mapping: no system
    call per transition, and the driver can still read the last history after the worker died."""

    SIZE = 8192

    def __init__(self, path):
        import mmap
        with open(path, "wb") as f:
            f.write(b"\0" * self.SIZE)
        self.f = open(path, "r+b")
        self.m = mmap.mmap(self.f.fileno(), self.SIZE)

    def seek(self, pos):
        pass

    def write(self, s):
        b = s.encode()[:self.SIZE - 1]
        self.m[0:len(b) + 1] = b + b"\0"

    def truncate(self):
        pass

    def flush(self):
        pass

    def close(self):
        self.m.close()
        self.f.close()

    @staticmethod
    def read(path):
        try:
            with open(path, "rb") as f:
                return f.read().split(b"\0", 1)[0].decode().strip() or None
        except OSError:
            return None


def _work(item):
    pname, cfg, prefix, depth, d0 = item
    _COUNTS.clear()
    _CUR[0] = None
    hist._journal = MemJournal(hist._journal_path(item))
    try:
        st = hist.explore(Sys, cfg, depth, d0, prefix, True)
    finally:
        hist._journal.close()
        hist._journal = None
    _flush()
    return st, dict(_COUNTS)


def run_contained(jobs, split):
    """hist.run_parallel for several passes at once.  jobs = [(pass name, cfg, depth, d0)].  Differences:
    (a) the shallow part (histories no longer than `split`) is also executed inside pool workers, so a crash
    at depth 1 is contained and reported; (b) a violation on one shallow history does not stop the exploration
    below the other prefixes; (c) the passes share the two pool start-ups (shallow stage, deep stage).
    Returns {pass name: (Stats, class counts, crashes, samples)}."""
    res = {}
    for pname, cfg, depth, d0 in jobs:
        res.setdefault(pname, (hist.Stats(), {}, [], []))

    def drain(items):
        done = {}
        # a few blocks per worker (interleaved): one pipe round trip per block, not per sub-tree
        nb = max(1, min(len(items), pool.NPROC * 4))
        for item, r in pool.pmap(_work, [items[k::nb] for k in range(nb)]):
            total, counts, crashes, samples = res[item[0]]
            if isinstance(r, pool.WorkerError):
                raise InfraError(r.tb)
            if isinstance(r, pool.Crash):
                crashes.append((item, r, MemJournal.read(hist._journal_path(item))))
                continue
            st, cnt = r
            total.merge(st)
            if st.samples and len(samples) < 200:
                samples.append((list(item[1]), st.samples[-1]))
            for k, v in cnt.items():
                counts[k] = counts.get(k, 0) + v
            done.setdefault((item[0], item[1]), set()).update(h for h, info in st.violations)
        return done

    done = drain([(pname, cfg, (), min(split, depth), min(d0, split, depth)) for pname, cfg, depth, d0 in jobs])
    items = []
    for pname, cfg, depth, d0 in jobs:
        sd = min(split, depth)
        if depth > sd and (pname, cfg) in done:
            # replaying these prefixes in the driver is safe: the same executions just ran in a worker
            for p in hist.prefixes(Sys, cfg, sd):
                if not any(p[:k] in done[(pname, cfg)] for k in range(1, len(p) + 1)):
                    items.append((pname, cfg, p, depth, d0))
    _flush()
    if items:
        drain(items)
    return res


def _passes(ctx):
    # (name, alphabet level, max ops outside the core alphabet per history, depth, d0)
    if ctx.quick:
        return [("full1", 3, ANY, 1, 1), ("narrow2", 1, 1, 2, 2), ("core3", 0, 0, 3, 1)]
    return [("full2", 3, 1, 2, 2), ("narrow3", 1, 1, 3, 3), ("core3", 0, 0, 3, 3), ("deep", 0, 0, 4, 2)]


def large_memmove(ctx):
    """ffi.memmove over LARGE overlapping areas: sizes on both sides of 4 KiB / 64 KiB / 1 MiB
    (block-wise or chunked copy strategies only show beyond such a size).  Exhaustive over the
    listed (size, dst offset, src offset, n, kind pair) product; model = copy through bytes()."""
    import cffi
    ffi = cffi.FFI()
    n_cases = 0
    sizes = [4096, 65536, 65537, 1 << 20] if not ctx.quick else [4096, 65537, (1 << 20) + 3]
    for S in sizes:
        total = 3 * S + 64
        base = (bytes(range(251)) * (total // 251 + 1))[:total]
        offs = sorted({0, 1, 7, S // 2, S - 1, S, S + 1})
        lens = sorted({S - 1, S, S + 1, 2 * S + 1})
        for kinds in (("cdata", "cdata"), ("buffer", "cdata"), ("cdata", "bytearray"), ("bytearray", "bytearray")):
            for do_ in offs:
                for so in offs:
                    for n in lens:
                        if do_ + n > total or so + n > total or do_ == so:
                            continue
                        if not (abs(do_ - so) < n):
                            continue                 # only overlapping areas are interesting here
                        ba = bytearray(base)          # period 251: no two overlapping windows look alike
                        model = bytearray(ba)
                        model[do_:do_ + n] = bytes(model[so:so + n])
                        whole = ffi.from_buffer(ba)

                        def side(kind, off):
                            if kind == "cdata":
                                return whole + off
                            if kind == "buffer":
                                return ffi.buffer(whole + off, total - off)
                            return memoryview(ba)[off:]
                        n_cases += 1
                        try:
                            ffi.memmove(side(kinds[0], do_), side(kinds[1], so), n)
                        except Exception as e:
                            ctx.violation({"kind": "memmove-large-raises"},
                                          {"large": True, "S": S, "dst": do_, "src": so, "n": n, "kinds": kinds, "error": repr(e)})
                            continue
                        if ba != model:
                            k = next(i for i in range(total) if ba[i] != model[i])
                            ctx.violation({"kind": "memmove-large-differs-from-copy-through-buffer",
                                           "direction": "dst>src" if do_ > so else "dst<src"},
                                          {"large": True, "S": S, "dst": do_, "src": so, "n": n, "kinds": kinds,
                                           "first_mismatch": k})
                        del whole
    ctx.count("large_memmove_cases", n_cases)
    return n_cases


def _large_slice_cases(quick):
    """(S, kind, x, y): kind 'assign-buffer' / 'assign-mview': b[x:x+S] = <view of bytes [y, y+S) of the same
    memory>; kind 'read': b[x:y]."""
    out = []
    for S in ([4096, 65537, 1 << 20] if quick else [4096, 65536, 65537, 1 << 20, (1 << 20) + 3]):
        for shift in sorted({1, 7, 64, S // 2}):
            for kind in ("assign-buffer", "assign-mview"):
                out.append((S, kind, 5, 5 + shift))         # destination below the source
                out.append((S, kind, 5 + shift, 5))         # destination above the source
        for (i, j) in ((0, S), (1, S + 1), (-S - 1, None), (None, None), (S, 3 * S), (-1, None), (S // 2, -S // 2)):
            out.append((S, "read", i, j))
    return out


def _large_slice_case(ffi, case):
    """None, or (sig, extra detail)."""
    S, kind, x, y = case
    total = 2 * S + 64
    ba = bytearray((bytes(range(251)) * (total // 251 + 1))[:total])    # period 251: no two windows look alike
    model = bytearray(ba)
    whole = ffi.from_buffer(ba)
    b = ffi.buffer(whole, total)
    if len(b) != total:
        return {"kind": "large-buffer-length"}, {"got": len(b)}
    if kind == "read":
        want = bytes(model[x:y])
        try:
            got = b[x:y]
        except Exception as e:
            return {"kind": "slice-read-large-raises"}, {"error": repr(e)}
        if got != want:
            return {"kind": "slice-read-large-value"}, {"got_len": len(got), "want_len": len(want)}
        return None
    src = ffi.buffer(whole + y, S) if kind == "assign-buffer" else memoryview(ba)[y:y + S]
    model[x:x + S] = bytes(model[y:y + S])          # what a bytearray does: a copy through an intermediate buffer
    try:
        b[x:x + S] = src
    except Exception as e:
        return {"kind": "slice-assign-large-raises", "src": kind}, {"error": repr(e)}
    finally:
        del src
    if ba != model:
        k = next(q for q in range(total) if ba[q] != model[q])
        return ({"kind": "slice-assign-large-overlap-differs-from-bytearray", "src": kind,
                 "direction": "dst>src" if x > y else "dst<src"}, {"first_mismatch": k})
    return None


def large_slices(ctx):
    """Slice reads and overlapping slice assignments on LARGE buffers (4 KiB / 64 KiB / 1 MiB: the sizes where
    copy strategies change); the 12-byte machine cannot show them.  Exhaustive over _large_slice_cases."""
    import cffi
    ffi = cffi.FFI()
    cases = _large_slice_cases(ctx.quick)
    for case in cases:
        r = _large_slice_case(ffi, case)
        ctx.count("large_slice/" + case[1])
        if r is not None:
            d = {"large": "slice", "case": list(case)}
            d.update(r[1])
            ctx.violation(r[0], d)
    return len(cases)


def run(ctx):
    get_ffi("inline")
    get_ffi("ool")
    n_large = large_memmove(ctx)
    n_large_slices = large_slices(ctx)
    cov_pass = {}
    tot_states = tot_trans = 0
    maxd = 0
    precompute_ops(max(p[1] for p in _passes(ctx)))
    jobs = [(pname, (lvl, budget, m), depth, d0) for pname, lvl, budget, depth, d0 in _passes(ctx) for m in MEMS]
    res = run_contained(jobs, split=1)
    for pname, lvl, budget, depth, d0 in _passes(ctx):
        st, counts, crashes, samples = res[pname]
        ctx.log("pass %s: depth=%d d0=%d states=%d transitions=%d merged=%d violations=%d crashes=%d" % (
            pname, depth, d0, st.states, st.transitions, st.merged, len(st.violations), len(crashes)))
        for k, v in sorted(counts.items()):
            ctx.count(k, v)
        for h, info in st.violations:
            ctx.violation(_sig(info), {"history": [list(o) for o in h], "info": info, "cfg": info.get("cfg")})
        for item, cr, last in crashes:
            ctx.violation({"kind": "crash", "pass": pname},
                          {"cfg": list(item[1]), "prefix": [list(o) for o in item[2]], "last_history": last,
                           "how": cr.describe(), "confirmed": cr.confirmed})
        for c, h in samples:
            ctx.sample({"pass": pname, "cfg": c, "history": h})
        cov_pass[pname] = {"alphabet": ["core", "narrow", "wide", "full"][lvl], "max_depth": depth,
                           "unmerged_depth_d0": d0,
                           "max_noncore_ops_per_history": "unbounded" if budget == ANY else budget,
                           "states": st.states, "transitions": st.transitions, "merged": st.merged,
                           "replayed_op_applications": st.replayed, "configs": len(MEMS),
                           "by_depth": {str(k): v for k, v in sorted(st.by_depth.items())},
                           "ops": dict(sorted(st.op_hist.items()))}
        tot_states += st.states
        tot_trans += st.transitions
        maxd = max(maxd, st.max_depth)
    asz = {nm: len(ops_for((0, N), l)) for l, nm in enumerate(["core", "narrow", "wide", "full"])}
    cov = {
        "states": tot_states,
        "transitions": tot_trans,
        "traces_validated_against_impl": tot_trans,
        "max_depth": maxd,
        "unmerged_depth_d0": {k: v["unmerged_depth_d0"] for k, v in cov_pass.items()},
        "exhaustive": True,
        "passes": cov_pass,
        "alphabet_sizes_on_buffer_0_12": asz,
        "large_overlapping_memmove_cases": n_large,
        "large_slice_cases": n_large_slices,
        "op_families": {k: sum(1 for o in ops_for((0, N), 3) if o[0] == k)
                        for k in sorted({o[0] for o in ops_for((0, N), 3)})},
        "memory_kinds": list(MEMS),
        "rule": "every history of length <= depth over the enabled-op alphabet of each pass (with the stated bound on "
                "operations outside the core alphabet), for every memory kind; every transition executes the real "
                "operation and compares its result and the whole memory with the bytearray model; the alphabet "
                "includes the audit families (op_families: ss sources, del/dels/gs3/ss3, setv/geti/seti/gsi/ssi, "
                "rd/cmp/mvset/mvset1/pack/unpack/readinto, fb/fbf/fbx, mmx and the int*/void* memmove kinds, bufp); "
                "plus every listed large overlapping memmove and large slice read / overlapping slice assignment",
    }
    return ctx.finish(cov, [
        "a Python bytearray evaluated with the same index/slice expression is the reference; memory is observed "
        "through the owning Python object or ctypes.string_at, never through cffi",
        "'len(obj)' in the statement is the byte length of obj's buffer",
        "a refused assignment (wrong length, bad index) must leave every byte unchanged",
        "beyond d0 two histories with equal key() = (buffer window, all model bytes, len(buffer)) are assumed to "
        "have the same futures in the implementation",
        "partial windows handed to from_buffer are ctypes arrays sharing the owner's memory (cffi buffers for "
        "ffi.new memory), not memoryview slices: CPython 3.12.1 crashes when a memoryview with live exports is "
        "collected as part of a reference cycle",
    ])


def _sig(info):
    s = {"kind": info.get("kind")}
    if "where" in info:
        s["where"] = info["where"]
    if info.get("op"):
        s["op"] = info["op"][0]
        if info["op"][0] == "mm":
            s["pair"] = "%s<-%s" % (info["op"][1], info["op"][3])
        if info["op"][0] == "ss":
            s["src"] = info["op"][3]
        # the families of _c19x: the classifying (never the numeric) components of the op
        for k in ("T", "form", "objkind", "variant", "ptype", "ikind", "value", "src", "opname", "other"):
            if k in info and k not in s:
                s[k] = info[k]
        if info["op"][0] in ("gs3", "ss3"):
            s["step"] = info["op"][3]
    return s


def replay(detail):
    if detail.get("large") == "slice":
        import cffi
        r = _large_slice_case(cffi.FFI(), tuple(detail["case"]))
        print("case", detail["case"], "->", "ok" if r is None else r)
        return 1 if r is not None else 0
    if detail.get("large"):
        class _C(object):
            quick = False
            n = 0

            def count(self, *a):
                pass

            def violation(self, sig, d):
                _C.n += 1
                print("VIOLATED", sig, {k: d[k] for k in ("S", "dst", "src", "n", "kinds")})
        large_memmove(_C())
        return 1 if _C.n else 0
    if "history" not in detail or detail.get("cfg") is None:
        print("crash record (no single history to replay):", detail)
        return 1
    cfg = tuple(detail["cfg"])
    s = Sys(cfg)
    print("cfg", cfg)
    for op in detail["history"]:
        op = tuple(op)
        if op == ("<close>",):
            info = s.close()
            print("close ->", "ok" if info is None else info)
            return 1 if info is not None else 0
        if op not in s.enabled():
            print("op", op, "not enabled (diverged)")
            return 0
        info = s.apply(op)
        print("op", op, "->", "ok" if info is None else info, " memory now", s.actual().hex())
        if info is not None:
            return 1
    return 0
