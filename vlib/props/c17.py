"""C17 -- cdata ==, ordering and hash are mutually consistent.

E1: a pool of primitive cdata of every type and value class, pointer / array /
struct / union / function cdata at shared and distinct addresses (NULL and
addresses with the top bit set included) and plain Python values; ALL ordered
pairs x the six comparison operators + hash + set/dict membership.
Oracle: a == b  =>  hash(a) == hash(b); two pointer-like cdata compare as their
addresses (unsigned); primitive cdata compare and hash as the Python value they
convert to (the same bool, or the same exception type Python raises).
"""
import ctypes
import math
import operator
import os

from .. import cref, pool
from ..build import InfraError

ID = "C17"
LEVEL = "exploration"
META = dict(
    engine="E1-enum", level="exploration",
    technique="all ordered pairs over a pool of cdata and Python values x six operators + hash, compared with Python "
              "semantics of the converted values and with unsigned address comparison",
    text="A pool (about 190 values quick, 450 thorough) holding every integer type at its boundary values, "
         "float/double at 0.0, -0.0, nan, inf, 2**53+1, values that round in float, long double, char/wchar_t/"
         "char16_t/char32_t, enums, _Bool, complex, pointer/array/struct/union/function cdata at three shared and "
         "several distinct addresses including NULL and addresses >= 2**63, and Python int/float/bool/bytes/str/"
         "complex/None.  Every ordered pair is compared with ==, !=, <, <=, >, >=, hashed, and looked up in a set "
         "and a dict; results are compared with the address order (pointer-like pairs) or with what Python gives for "
         "the converted values (primitive pairs; same bool or same exception type).",
    note="model values are computed without cffi (ctypes for float rounding, gcc for integer ranges); addresses of "
         "foreign memory come from ctypes; addresses of ffi.new() objects are read through ffi.buffer + ctypes; "
         "hash(nan) is identity-based in CPython and is excluded from the hash-value comparison")

OPS = [("==", operator.eq), ("!=", operator.ne), ("<", operator.lt), ("<=", operator.le),
       (">", operator.gt), (">=", operator.ge)]

CDEF = """
struct S { int x; int y; };
union U { int a; char b[8]; };
enum E { EA, EB, EC = 255 };
enum F { FA = -1, FB = 1 };
enum G { GA = 0x100000000 };
"""

INT_TYPES = ["signed char", "unsigned char", "short", "unsigned short", "int", "unsigned int",
             "long", "unsigned long", "long long", "unsigned long long"]
EXTRA_INT_TYPES = ["int8_t", "uint8_t", "int16_t", "uint16_t", "int32_t", "uint32_t", "int64_t", "uint64_t",
                   "size_t", "ssize_t", "intptr_t", "uintptr_t", "ptrdiff_t"]


class Ent(object):
    __slots__ = ("label", "obj", "cls", "tcls", "val", "addr", "keep")

    def __init__(self, label, obj, cls, tcls, val=None, addr=None, keep=None):
        self.label = label      # stable name used in replays
        self.obj = obj          # the object under test
        self.cls = cls          # 'prim' (primitive cdata) | 'ptr' (pointer-like cdata) | 'ld' | 'py'
        self.tcls = tcls        # type class for signatures / histogram
        self.val = val          # Python value the primitive cdata converts to (model) / the Python value itself
        self.addr = addr        # address of a pointer-like cdata (model)
        self.keep = keep


def _is_nan_val(v):
    if isinstance(v, float):
        return math.isnan(v)
    if isinstance(v, complex):
        return math.isnan(v.real) or math.isnan(v.imag)
    return False


def f32(x):
    return ctypes.c_float(x).value


_POOL = None


def build_pool(quick):
    """Deterministic list of entries (labels do not depend on addresses)."""
    global _POOL
    if _POOL is not None and _POOL[0] == quick:
        return _POOL[1]
    import cffi
    ffi = cffi.FFI()
    ffi.cdef(CDEF)
    ents = []
    labels = set()

    def add(label, obj, cls, tcls, **kw):
        if label in labels:
            raise InfraError("duplicate pool label %r" % label)
        labels.add(label)
        ents.append(Ent(label, obj, cls, tcls, **kw))

    facts = cref.int_facts(extra_types=tuple(EXTRA_INT_TYPES))
    itypes = INT_TYPES + ([] if quick else EXTRA_INT_TYPES)
    for t in itypes:
        size, signed, _ = facts[t]
        lo, hi = cref.int_range(size, signed)
        if quick:
            cand = [-1, 0, 1, 255, 1 << 31, hi]
        else:
            cand = [lo, -1, 0, 1, 65, 127, 128, 255, 256, (1 << 31) - 1, 1 << 31, (1 << 53) + 1, (1 << 63) - 1,
                    1 << 63, hi]
        for v in sorted(set(c for c in cand if lo <= c <= hi)):
            add("cast(%s,%d)" % (t, v), ffi.cast(t, v), "prim", "int-cdata", val=v)
    # floats
    fl = [0.0, -0.0, 0.5, 1.0, float("nan"), float("inf"), 0.1, float((1 << 53) + 1), 255.0, float(1 << 31)]
    if not quick:
        fl += [-1.0, float("-inf"), 1e300, 5e-324, 65.0, float(1 << 63), float(1 << 64), 16777217.0, -0.5]
    for i, v in enumerate(fl):
        add("cast(double,#%d:%r)" % (i, v), ffi.cast("double", v), "prim", "float-cdata", val=v)
        add("cast(float,#%d:%r)" % (i, v), ffi.cast("float", v), "prim", "float-cdata", val=f32(v))
    for i, v in enumerate([0.0, 1.0, float("nan"), 0.5] if quick else [0.0, -0.0, 1.0, float("nan"), 0.5, float("inf"), 255.0]):
        add("cast(long double,#%d:%r)" % (i, v), ffi.cast("long double", v), "ld", "longdouble-cdata")
    # characters
    for v in [b"A", b"\x00", b"\xff"] + ([] if quick else [b"\x01", b"\x7f", b"\x80"]):
        add("cast(char,%r)" % v, ffi.cast("char", v), "prim", "char-cdata", val=v)
    for t, vals in [("wchar_t", ["A", "ሴ", "\U00010000", "\x00"]),
                    ("char16_t", ["A", "\ud800", "￿"]),
                    ("char32_t", ["A", "\U0010ffff", "\udfff"])]:
        for v in vals:
            add("cast(%s,U+%04X)" % (t, ord(v)), ffi.cast(t, v), "prim", "wchar-cdata", val=v)
    for v in (0, 1):
        add("cast(_Bool,%d)" % v, ffi.cast("_Bool", v), "prim", "bool-cdata", val=bool(v))
    for t, vals in [("enum E", [0, 1, 255, 7]), ("enum F", [-1, 1]), ("enum G", [1 << 32, 1])]:
        for v in vals:
            add("cast(%s,%d)" % (t, v), ffi.cast(t, v), "prim", "enum-cdata", val=v)
    cx = [0j, 1 + 0j, 1 + 2j, complex(0.1, 0)] + ([] if quick else [complex(float("nan"), 0), complex(0, float("inf")),
                                                                    complex(-0.0, 0.0), 255 + 0j])
    for i, v in enumerate(cx):
        add("cast(double _Complex,#%d:%r)" % (i, v), ffi.cast("double _Complex", v), "prim", "complex-cdata", val=v)
        add("cast(float _Complex,#%d:%r)" % (i, v), ffi.cast("float _Complex", v), "prim", "complex-cdata",
            val=complex(f32(v.real), f32(v.imag)))

    # pointer-like cdata over foreign memory whose address ctypes tells us
    buf1 = ctypes.create_string_buffer(64)
    buf2 = ctypes.create_string_buffer(64)
    A1 = ctypes.addressof(buf1)
    A2 = A1 + 8
    A3 = ctypes.addressof(buf2)
    named = [("A1", A1), ("A2", A2), ("A3", A3)]
    fake = [("NULL", 0), ("0x1", 1), ("2^63-1", (1 << 63) - 1), ("2^63", 1 << 63), ("2^64-1", (1 << 64) - 1)]
    if not quick:
        fake += [("0x1000", 0x1000), ("2^63+8", (1 << 63) + 8), ("2^32", 1 << 32)]
    for nm, a in named + fake:
        add("cast(int*,%s)" % nm, ffi.cast("int *", a), "ptr", "pointer", addr=a, keep=(buf1, buf2))
    for nm, a in named[:2] + fake[:1] + fake[3:4]:
        add("cast(char*,%s)" % nm, ffi.cast("char *", a), "ptr", "pointer", addr=a)
        add("cast(void*,%s)" % nm, ffi.cast("void *", a), "ptr", "pointer", addr=a)
        add("cast(struct S*,%s)" % nm, ffi.cast("struct S *", a), "ptr", "pointer", addr=a)
        add("cast(int(*)(int),%s)" % nm, ffi.cast("int(*)(int)", a), "ptr", "function", addr=a)
    add("ffi.NULL", ffi.NULL, "ptr", "pointer", addr=0)
    for nm, a in named:
        add("array int[4]@%s" % nm, ffi.cast("int(*)[4]", a)[0], "ptr", "array", addr=a)
        add("struct S@%s" % nm, ffi.cast("struct S *", a)[0], "ptr", "struct", addr=a)
    add("union U@A1", ffi.cast("union U *", A1)[0], "ptr", "union", addr=A1)
    add("union U@A3", ffi.cast("union U *", A3)[0], "ptr", "union", addr=A3)
    add("from_buffer(int[],buf1)", ffi.from_buffer("int[]", buf1), "ptr", "array", addr=A1)
    add("from_buffer(char[],buf2)", ffi.from_buffer("char[]", buf2), "ptr", "array", addr=A3)
    # a real C function: address from ctypes' dlsym
    cabs = ctypes.cast(ctypes.CDLL(None).abs, ctypes.c_void_p).value
    ffi.cdef("int abs(int);")
    libc = ffi.dlopen(None)
    add("libc.abs", libc.abs, "ptr", "function", addr=cabs, keep=libc)
    add("cast(void*,&abs)", ffi.cast("void *", cabs), "ptr", "pointer", addr=cabs)
    # owning objects: address read through the buffer interface
    def addr_of(cd):
        return ctypes.addressof(ctypes.c_char.from_buffer(ffi.buffer(cd)))
    arr = ffi.new("int[4]")
    B = addr_of(arr)
    add("new int[4]", arr, "ptr", "array", addr=B)
    add("new int[4] + 1", arr + 1, "ptr", "pointer", addr=B + 4, keep=arr)
    add("addressof(new int[4], 1)", ffi.addressof(arr, 1), "ptr", "pointer", addr=B + 4, keep=arr)
    add("cast(char*, new int[4]) + 4", ffi.cast("char *", arr) + 4, "ptr", "pointer", addr=B + 4, keep=arr)
    add("cast(int*, new int[4])", ffi.cast("int *", arr), "ptr", "pointer", addr=B, keep=arr)
    sp = ffi.new("struct S *")
    C = addr_of(sp)
    add("new struct S*", sp, "ptr", "pointer", addr=C)
    add("(new struct S*)[0]", sp[0], "ptr", "struct", addr=C, keep=sp)
    add("addressof(s,'x')", ffi.addressof(sp, "x"), "ptr", "pointer", addr=C, keep=sp)
    add("addressof(s,'y')", ffi.addressof(sp, "y"), "ptr", "pointer", addr=C + 4, keep=sp)
    add("addressof(s[0])", ffi.addressof(sp[0]), "ptr", "pointer", addr=C, keep=sp)

    # plain Python values
    pyints = [-1, 0, 1, 65, 255, 1 << 31, 1 << 53, (1 << 53) + 1, 1 << 63, (1 << 64) - 1, 1 << 64, A1]
    if not quick:
        pyints += [-2, 127, 128, 256, (1 << 31) - 1, (1 << 63) - 1, -(1 << 63), 7, 1 << 32, C, 16777217]
    for i, v in enumerate(pyints):
        lab = "int A1" if v == A1 else "int C" if (not quick and v == C) else "int %d" % v
        add(lab, v, "py", "py-int", val=v)
    pyfl = [0.0, -0.0, 0.5, 1.0, 255.0, float("nan"), float("inf"), 2.0 ** 53, 0.1, f32(0.1)]
    if not quick:
        pyfl += [-1.0, float("-inf"), 65.0, 2.0 ** 63, 2.0 ** 64, 5e-324, 16777216.0, -0.5]
    for i, v in enumerate(pyfl):
        add("float #%d:%r" % (i, v), v, "py", "py-float", val=v)
    for v in (False, True):
        add("bool %r" % v, v, "py", "py-bool", val=v)
    for v in [b"", b"A", b"\xff", b"AB", b"\x00"] + ([] if quick else [b"\x01", b"\x7f", b"\x80", b"a"]):
        add("bytes %r" % v, v, "py", "py-bytes", val=v)
    for v in ["", "A", "ሴ", "\U00010000", "\ud800", "AB", "\x00"] + ([] if quick else ["￿", "\U0010ffff",
                                                                                             "\udfff", "a"]):
        add("str %s" % "+".join("U+%04X" % ord(c) for c in v), v, "py", "py-str", val=v)
    for i, v in enumerate([0j, 1 + 0j, 1 + 2j, complex(0.1, 0)] + ([] if quick else [complex(f32(0.1), 0), 255 + 0j])):
        add("complex #%d:%r" % (i, v), v, "py", "py-complex", val=v)
    add("None", None, "py", "py-None", val=None)
    _POOL = (quick, ents, ffi)
    return ents


def outcome(fn, a, b):
    try:
        r = fn(a, b)
    except Exception as e:
        return ("exc", type(e).__name__)
    if r is True or r is False:
        return ("val", r)
    return ("val", repr(r))


def hash_outcome(x):
    try:
        return ("val", hash(x))
    except Exception as e:
        return ("exc", type(e).__name__)


def check_pair(a, b):
    """Returns (list of (sig, info), class keys)."""
    probs = []
    keys = []
    obs = [outcome(fn, a.obj, b.obj) for _, fn in OPS]
    both_ptr = a.cls == "ptr" and b.cls == "ptr"
    both_val = a.cls in ("prim", "py") and b.cls in ("prim", "py")
    if both_ptr:
        keys.append("pair_ptr_ptr")
        hb = a.addr >= 1 << 63 or b.addr >= 1 << 63
        for (name, fn), o in zip(OPS, obs):
            want = ("val", fn(a.addr, b.addr))
            if o != want:
                probs.append(({"kind": "ptr_compare", "op": name, "top_bit_address": hb},
                              {"op": name, "got": o, "want": want, "addr_a": a.addr, "addr_b": b.addr}))
        keys.append("ptr_same_address" if a.addr == b.addr else "ptr_distinct_address")
        if hb:
            keys.append("ptr_pair_with_top_bit_address")
    elif both_val:
        keys.append("pair_prim_prim" if a.cls == b.cls == "prim" else "pair_prim_py")
        for (name, fn), o in zip(OPS, obs):
            want = outcome(fn, a.val, b.val)
            if o != want:
                probs.append(({"kind": "prim_compare", "op": name, "a": a.tcls, "b": b.tcls},
                              {"op": name, "got": o, "want": want}))
            if name == "<":
                keys.append("order_TypeError_like_python" if want[0] == "exc" else "order_defined")
    else:
        # long double, or pointer-like against primitive/Python: the statement only
        # promises the hash implication here
        keys.append("pair_outside_value_clauses")
        keys.append("outside:%s/%s:==%s:<%s" % (a.cls, b.cls, obs[0][1], obs[2][1]))
    if obs[0] == ("val", True):
        keys.append("eq_true" if a is not b else "eq_true_self")
        ha, hb_ = hash_outcome(a.obj), hash_outcome(b.obj)
        if ha != hb_ or ha[0] != "val":
            probs.append(({"kind": "equal_but_hash_differs", "a": a.tcls, "b": b.tcls}, {"hash_a": ha, "hash_b": hb_}))
        else:
            try:
                ok = (b.obj in {a.obj}) and ({a.obj: 1}.get(b.obj) == 1)
            except Exception as e:
                ok = "%s: %s" % (type(e).__name__, e)
            if ok is not True:
                probs.append(({"kind": "equal_but_not_found_in_set_or_dict", "a": a.tcls, "b": b.tcls}, {"result": ok}))
    return probs, keys


def check_single(a):
    probs = []
    if a.cls == "prim":
        if _is_nan_val(a.val):
            return probs, ["hash_nan_excluded"]
        ha, hv = hash_outcome(a.obj), hash_outcome(a.val)
        if ha != hv:
            probs.append(({"kind": "prim_hash", "a": a.tcls}, {"hash_cdata": ha, "hash_value": hv}))
        return probs, ["hash_prim_checked"]
    return probs, []


_QUICK = True


def work(rows):
    ents = build_pool(_QUICK)
    i0, i1 = rows
    counts = {}
    bad = []
    npairs = nontriv = 0
    for i in range(i0, i1):
        a = ents[i]
        if a.cls != "py":
            probs, keys = check_single(a)
            for k in keys:
                counts[k] = counts.get(k, 0) + 1
            for sig, info in probs:
                bad.append((sig, {"a": a.label, "b": None, "info": info}))
        for b in ents:
            if a.cls == "py" and b.cls == "py":
                continue
            npairs += 1
            probs, keys = check_pair(a, b)
            if a is not b and keys[0] != "pair_outside_value_clauses":
                nontriv += 1
            for k in keys:
                counts[k] = counts.get(k, 0) + 1
            for sig, info in probs:
                bad.append((sig, {"a": a.label, "b": b.label, "info": info}))
    return npairs, nontriv, counts, bad


def run(ctx):
    global _QUICK
    _QUICK = ctx.quick
    ents = build_pool(ctx.quick)
    n = len(ents)
    for e in ents:
        ctx.count("pool_" + e.tcls)
    step = max(1, n // 48)
    blocks = [[(i, min(n, i + step))] for i in range(0, n, step)]
    npairs = nontriv = 0
    allbad = []
    for item, r in pool.pmap(work, blocks):
        if isinstance(r, pool.WorkerError):
            raise InfraError(r.tb)
        if isinstance(r, pool.Crash):
            raise InfraError("worker crashed on rows %r: %s" % (item, r.describe()))
        np_, nt, counts, bad = r
        npairs += np_
        nontriv += nt
        for k, v in counts.items():
            ctx.count(k, v)
        allbad.extend(bad)
    import json
    allbad.sort(key=lambda x: (json.dumps(x[0], sort_keys=True), x[1]["a"], x[1]["b"] or ""))
    for sig, detail in allbad:
        detail["quick"] = ctx.quick
        ctx.violation(sig, detail)
    for i in (3, n // 3, n // 2, n - 5):
        ctx.sample({"a": ents[i].label, "b": ents[(i * 7 + 11) % n].label, "ops": [o for o, _ in OPS]})
    cov = {
        "evaluations": npairs * len(OPS),
        "distinct_nontrivial": nontriv,
        "pool_size": n,
        "ordered_pairs": npairs,
        "rule": "all ordered pairs (a, b) over the pool with at least one cdata, each under ==, !=, <, <=, >, >= "
                "(+ hash of both and set/dict membership when a == b, + hash(cdata) == hash(converted value) for every "
                "primitive cdata); evaluations = pairs x 6 operators; non-trivial = distinct ordered pairs of different "
                "pool entries for which the statement fixes the result (both pointer-like: address order; both "
                "primitive cdata / Python values: Python's result for the converted values)",
        "exhaustive": True,
    }
    return ctx.finish(cov, ["addresses of foreign memory come from ctypes; addresses of ffi.new() memory are read "
                            "through ffi.buffer() + ctypes",
                            "float rounding of the model uses ctypes.c_float",
                            "hash(nan) is identity-based in CPython 3.12: excluded from the hash-value comparison "
                            "(the implication a == b => equal hashes is still checked)"])


def replay(detail):
    ents = build_pool(bool(detail.get("quick", True)))
    by = {e.label: e for e in ents}
    a = by[detail["a"]]
    if detail.get("b") is None:
        probs, _ = check_single(a)
        print("a = %s -> %r" % (a.label, a.obj))
    else:
        b = by[detail["b"]]
        print("a = %s -> %r\nb = %s -> %r" % (a.label, a.obj, b.label, b.obj))
        for name, fn in OPS:
            print("  a %s b: %r" % (name, outcome(fn, a.obj, b.obj)))
        print("  hash(a) = %r, hash(b) = %r" % (hash_outcome(a.obj), hash_outcome(b.obj)))
        probs, _ = check_pair(a, b)
    for sig, info in probs:
        print("MISMATCH", sig, info)
    if not probs:
        print("no mismatch")
    return 1 if probs else 0
