"""C21 -- ownership, destructors and handles over any history (engine E2).

Explicit-state search over histories of create / alias / gc-wrap / release /
with / drop / collect / from_buffer / handle operations on three slots, stepped
in lock-step with a counting model (destructor calls per wrapper, free calls per
allocation, export flag of the from_buffer source, identity of handle targets).
"""
import gc as _gc

from .. import hist
from ..build import InfraError

ID = "C21"
LEVEL = "model_checking"
META = dict(
    engine="E2-hist", level="model_checking",
    technique="explicit-state breadth-first search over all operation histories up to a depth on the real objects, "
              "in lock-step with a counting reference model (exactly-once destructors/frees, keep-alive, export lock, handles)",
    text="All histories of depth <= 4 (quick; thorough 5 with merging beyond the unmerged depth) over 16 operation kinds "
         "on 3 slots, in two modes (no implicit GC / gc.collect() after every step): destructor and free counters are "
         "checked after every step (never twice, never while the wrapper is still referenced, never after gc(p, None), "
         "immediately at release/with-exit) and exactly at the end of every history after dropping everything and "
         "collecting; includes reference cycles through the destructor closure and re-entrant destructors.",
    note="CPython reference counting is deterministic, so 'when' an object dies is predicted by a reachability model; "
         "new objects always go to the lowest free slot (slots are symmetric, this only removes renamings)")

NSLOT = 3
SENT = 0x5A17


class Rec(object):
    """Model record of one object."""

    def __init__(self, oid, kind, **kw):
        self.oid = oid
        self.kind = kind                # news / newa / newp / alias / gc / fb / handle
        self.target = kw.get("target")  # gc: wrapped object id; alias: owner id
        self.dkind = kw.get("dkind")    # gc: plain / cycle / re_release / re_gcnone
        self.cancelled = False          # gc(p, None) applied
        self.ran = False                # destructor (gc) or free (news/newa) already ran
        self.released = False
        self.selfcycle = kw.get("dkind") in ("cycle", "re_release", "re_gcnone")
        self.k = kw.get("k")            # handle: which python object
        self.link = None                # gc: object id referenced from the destructor's closure


class Sys(object):
    def __init__(self, cfg):
        import cffi
        self.collect_every = cfg["collect_every"]
        self.alpha = cfg.get("alpha", "full")
        ffi = self.ffi = _FFI[0]
        self.slots = [None] * NSLOT          # implementation objects
        self.mslots = [None] * NSLOT         # model: object ids
        self.recs = {}
        self.nid = 0
        self.dcalls = {}                     # gc wrapper id -> list of args seen
        self.frees = {}                      # allocation id -> count
        self.addr2alloc = {}
        self.live_allocs = {}
        sysref = self

        def my_alloc(size):
            p = _RAW.malloc(size)
            return p

        def my_free(p):
            a = int(ffi.cast("intptr_t", p))
            oid = sysref.addr2alloc.get(a)
            sysref.frees[oid] = sysref.frees.get(oid, 0) + 1
            _RAW.free(p)
        self.alloc = ffi.new_allocator(my_alloc, my_free, should_clear_after_alloc=True)
        self.ba = _BA(b"0123456789ab")
        self.pyobjs = [_Obj("o0"), _Obj("o1")]
        self.err = None
        for op in cfg.get("prebuilt", ()):       # start from a non-initial state
            if self._apply(tuple(op)) is not None:
                raise InfraError("prebuilt state failed")

    # ---- model helpers ----------------------------------------------------
    def _new_id(self):
        self.nid += 1
        return self.nid

    def _free_slot(self):
        for i in range(NSLOT):
            if self.mslots[i] is None:
                return i
        return None

    def _reachable(self):
        seen = set()
        stack = [o for o in self.mslots if o is not None]
        while stack:
            o = stack.pop()
            if o in seen:
                continue
            seen.add(o)
            r = self.recs[o]
            if r.kind == "gc" and r.link is not None and not (r.released or r.cancelled or r.ran):
                stack.append(r.link)      # destructor closure -> linked object (while the destructor is held)
            if r.kind == "gc" and r.released:
                continue          # release() finalises the wrapper: it drops its reference to the target
            if r.kind in ("gc", "alias") and r.target is not None:
                stack.append(r.target)
        return seen

    def enabled(self):
        ops = []
        fs = self._free_slot()
        kinds = [None if o is None else self.recs[o].kind for o in self.mslots]
        if fs is not None:
            ops += [("news",), ("newa",), ("newp",)]
            if self.alpha == "full":
                ops += [("fb",), ("handle", 0), ("handle", 1)]
        for i in range(NSLOT):
            k = kinds[i]
            if k is None:
                continue
            r = self.recs[self.mslots[i]]
            if fs is not None and k in ("news", "newa", "newp", "gc", "alias"):
                for dk in ("plain", "cycle", "re_release", "re_gcnone"):
                    if self.alpha != "full" and dk == "re_gcnone":
                        continue
                    ops.append(("gc", i, dk))
            if fs is not None and k in ("news", "newp") and not r.released:
                ops.append(("alias", i))
            if k == "gc":
                ops.append(("gcnone", i))
                if r.link is None and not (r.released or r.cancelled or r.ran):
                    for j in range(NSLOT):
                        if j != i and kinds[j] == "gc":
                            ops.append(("link", i, j))
            if k in ("news", "newa", "newp", "gc", "fb"):
                ops.append(("release", i))
                ops.append(("with", i))
            if k == "handle":
                ops.append(("fromh", i))
            ops.append(("drop", i))
            if fs is not None and self.alpha == "full":
                ops.append(("dup", i))
        ops.append(("collect",))
        if self.alpha == "full":
            ops.append(("resize",))
        return ops

    # ---- stepping ---------------------------------------------------------
    def apply(self, op):
        try:
            info = self._apply(op)
        except InfraError:
            raise
        except Exception as e:
            import traceback
            return {"kind": "exception", "op": op, "error": "%s: %s" % (type(e).__name__, e),
                    "tb": traceback.format_exc()[-600:]}
        if info:
            return info
        if self.collect_every:
            _gc.collect()
        return self._check(final=False)

    def _make_destructor(self, oid, dk, cell):
        sysref = self
        ffi = self.ffi

        def plain(x):
            sysref.dcalls.setdefault(oid, []).append(1)
        if dk == "plain":
            return plain

        def cyc(x):
            sysref.dcalls.setdefault(oid, []).append(1)
            cell[0] is not None      # references the wrapper: a cycle through the closure

        def re_release(x):
            sysref.dcalls.setdefault(oid, []).append(1)
            if cell[0] is not None:
                ffi.release(cell[0])          # re-entrant: must not run the destructor again

        def re_gcnone(x):
            sysref.dcalls.setdefault(oid, []).append(1)
            if cell[0] is not None:
                ffi.gc(cell[0], None)
        return {"cycle": cyc, "re_release": re_release, "re_gcnone": re_gcnone}[dk]

    def _apply(self, op):
        ffi = self.ffi
        k = op[0]
        if k in ("news", "newa", "newp", "fb", "handle"):
            i = self._free_slot()
            oid = self._new_id()
            if k == "news":
                p = self.alloc("struct c21s *")
                self.addr2alloc[int(ffi.cast("intptr_t", p))] = oid
                p.x = SENT
                self.recs[oid] = Rec(oid, "news")
            elif k == "newa":
                p = self.alloc("int[3]")
                self.addr2alloc[int(ffi.cast("intptr_t", p))] = oid
                self.recs[oid] = Rec(oid, "newa")
            elif k == "newp":
                p = ffi.new("struct c21s *")
                p.x = SENT
                self.recs[oid] = Rec(oid, "newp")
            elif k == "fb":
                p = ffi.from_buffer(self.ba)
                self.recs[oid] = Rec(oid, "fb")
            else:
                p = ffi.new_handle(self.pyobjs[op[1]])
                self.recs[oid] = Rec(oid, "handle", k=op[1])
            self.slots[i] = p
            self.mslots[i] = oid
            return None
        if k == "gc":
            i, dk = op[1], op[2]
            j = self._free_slot()
            oid = self._new_id()
            cell = [None]
            d = self._make_destructor(oid, dk, cell)
            w = ffi.gc(self.slots[i], d)
            if dk != "plain":
                cell[0] = w
            self.recs[oid] = Rec(oid, "gc", target=self.mslots[i], dkind=dk)
            d.link_cell = cell2 = _Cell()     # a strong reference held ONLY by the destructor function
            if not hasattr(self, "_cells"):
                import weakref
                self._cells = weakref.WeakValueDictionary()
            self._cells[oid] = cell2
            self.slots[j] = w
            self.mslots[j] = oid
            del w
            return None
        if k == "alias":
            i = op[1]
            j = self._free_slot()
            oid = self._new_id()
            self.slots[j] = self.slots[i][0]
            self.recs[oid] = Rec(oid, "alias", target=self.mslots[i])
            self.mslots[j] = oid
            return None
        if k == "dup":
            i = op[1]
            j = self._free_slot()
            self.slots[j] = self.slots[i]
            self.mslots[j] = self.mslots[i]
            return None
        if k == "link":
            i, j = op[1], op[2]
            oi = self.mslots[i]
            self._cells[oi].ref = self.slots[j]    # destructor of i now keeps the object in slot j alive
            self.recs[oi].link = self.mslots[j]
            return None
        if k == "gcnone":
            r = self.recs[self.mslots[op[1]]]
            res = ffi.gc(self.slots[op[1]], None)
            if res is not None:
                return {"kind": "gc-none-returned-something", "op": op}
            if not r.ran:
                r.cancelled = True
            r.selfcycle = False if not r.ran and False else r.selfcycle
            return None
        if k in ("release", "with"):
            i = op[1]
            r = self.recs[self.mslots[i]]
            if k == "release":
                ffi.release(self.slots[i])
                ffi.release(self.slots[i])          # idempotent
            else:
                with self.slots[i]:
                    pass
            self._model_release(r)
            return None
        if k == "drop":
            self.slots[op[1]] = None
            self.mslots[op[1]] = None
            return None
        if k == "collect":
            _gc.collect()
            self._model_collect()
            return None
        if k == "resize":
            exported = any(self.recs[o].kind == "fb" and not self.recs[o].released for o in self._reachable())
            try:
                self.ba.append(1)
                grew = True
            except BufferError:
                grew = False
            if grew:
                self.ba.pop()
            if grew == exported:
                return {"kind": "export-lock", "op": op, "exported_in_model": exported, "resize_succeeded": grew}
            return None
        if k == "fromh":
            i = op[1]
            r = self.recs[self.mslots[i]]
            h = self.slots[i]
            o1 = ffi.from_handle(h)
            o2 = ffi.from_handle(ffi.cast("void *", h))
            o3 = ffi.from_handle(ffi.cast("char *", ffi.cast("intptr_t", h)))
            want = self.pyobjs[r.k]
            if not (o1 is want and o2 is want and o3 is want):
                return {"kind": "from_handle-wrong-object", "op": op}
            return None
        raise InfraError("unknown op %r" % (op,))

    def _model_release(self, r):
        if r.kind == "gc":
            if not r.ran and not r.cancelled:
                r.ran = True
                r.expect_now = True
            r.selfcycle = False          # finalize cleared the destructor reference
        elif r.kind in ("news", "newa"):
            if not r.ran:
                r.ran = True
        elif r.kind == "fb":
            r.released = True
        r.released = True if r.kind != "newp" else r.released

    def _model_collect(self):
        pass

    # ---- checking ---------------------------------------------------------
    def _dead(self):
        """Objects the model considers dead right now (unreachable, ignoring self-cycles that are
        only collected by gc.collect(): those are handled by the caller)."""
        return set(self.recs) - self._reachable()

    def _check(self, final):
        reach = self._reachable()
        for oid, r in self.recs.items():
            n = len(self.dcalls.get(oid, ())) if r.kind == "gc" else self.frees.get(oid, 0)
            if r.kind == "gc":
                if n > 1:
                    return {"kind": "destructor-ran-twice", "obj": oid, "dkind": r.dkind}
                if r.cancelled and n > 0 and not r.ran:
                    return {"kind": "destructor-ran-after-gc-none", "obj": oid, "dkind": r.dkind}
                if oid in reach and not r.released and n > 0:
                    return {"kind": "destructor-ran-while-referenced", "obj": oid, "dkind": r.dkind}
                if r.released and not r.cancelled and n != 1:
                    return {"kind": "destructor-not-run-at-release", "obj": oid, "dkind": r.dkind, "calls": n}
                if final and not r.cancelled and n != 1:
                    return {"kind": "destructor-never-ran", "obj": oid, "dkind": r.dkind}
                if final and r.cancelled and n != 0:
                    return {"kind": "destructor-ran-after-gc-none", "obj": oid, "dkind": r.dkind}
            elif r.kind in ("news", "newa"):
                if n > 1:
                    return {"kind": "free-ran-twice", "obj": oid, "okind": r.kind}
                owner_or_alias_alive = oid in reach
                if owner_or_alias_alive and not r.released and n > 0:
                    return {"kind": "freed-while-referenced", "obj": oid, "okind": r.kind}
                if r.released and n != 1:
                    return {"kind": "free-not-run-at-release", "obj": oid, "okind": r.kind, "calls": n}
                if final and n != 1:
                    return {"kind": "allocation-never-freed", "obj": oid, "okind": r.kind}
        # memory of structs reachable through p or p[0] still holds its sentinel
        seen_handles = {}
        for i in range(NSLOT):
            oid = self.mslots[i]
            if oid is None:
                continue
            r = self.recs[oid]
            x = self.slots[i]
            root = self.recs[self._root_of(oid)]
            if r.kind in ("news", "newp") and not r.released:
                if x.x != SENT or x[0].x != SENT:
                    return {"kind": "struct-memory-lost", "obj": oid, "via": "owner"}
            if r.kind == "alias" and not root.released:
                if x.x != SENT:
                    return {"kind": "struct-memory-lost", "obj": oid, "via": "alias"}
            if r.kind == "handle":
                a = int(self.ffi.cast("intptr_t", x))
                if a in seen_handles and seen_handles[a] != oid:
                    return {"kind": "two-live-handles-share-an-address", "obj": oid}
                seen_handles[a] = oid
                if self.ffi.from_handle(x) is not self.pyobjs[r.k]:
                    return {"kind": "from_handle-wrong-object", "obj": oid}
        return None

    def _root_of(self, oid):
        r = self.recs[oid]
        n = 0
        while r.kind in ("alias", "gc") and r.target is not None and n < 50:
            r = self.recs[r.target]
            n += 1
        return r.oid

    def key(self):
        # model state: slot contents as canonical descriptors (ids renumbered by first occurrence)
        ren = {}

        def desc(oid):
            if oid is None:
                return None
            if oid not in ren:
                ren[oid] = len(ren)
            r = self.recs[oid]
            n = len(self.dcalls.get(oid, ())) if r.kind == "gc" else self.frees.get(oid, 0)
            return (ren[oid], r.kind, r.dkind, r.cancelled, r.ran, r.released, r.k, n,
                    desc(r.target) if r.target is not None else None)
        return (tuple(desc(o) for o in self.mslots), self.collect_every)

    def close(self):
        """End of history: drop everything, collect, then every counter must be exact."""
        for i in range(NSLOT):
            self.slots[i] = None
            self.mslots[i] = None
        for _ in range(3):
            _gc.collect()
        info = self._check(final=True)
        if info is None:
            try:
                self.ba.append(1)
                self.ba.pop()
            except BufferError:
                info = {"kind": "export-lock", "op": ("close",), "exported_in_model": False, "resize_succeeded": False}
        # the Sys object itself must not keep wrappers alive through the closures
        return info


class _Cell(object):
    ref = None


class _BA(bytearray):
    pass


class _Obj(object):
    def __init__(self, name):
        self.name = name


_FFI = [None]
_RAW = None


def setup():
    global _RAW
    import cffi
    ffi = cffi.FFI()
    ffi.cdef("struct c21s { int x; long long pad[3]; }; void *malloc(size_t); void free(void *);")
    _FFI[0] = ffi
    _RAW = ffi.dlopen(None)
    _gc.disable()          # collections happen only where a history says so


def run(ctx):
    setup()
    chain = [["news"], ["gc", 0, "plain"], ["gc", 1, "plain"]]
    if ctx.quick:
        plan = [("full", 3, 3, None), ("core", 4, 2, None), ("core", 3, 3, chain)]
    else:
        plan = [("full", 4, 3, None), ("core", 5, 3, None), ("full", 3, 3, chain), ("core", 4, 3, chain)]
    total = hist.Stats()
    crashes_all = []
    for alpha, depth, d0, pre in plan:
        cfgs = [{"collect_every": False, "alpha": alpha}, {"collect_every": True, "alpha": alpha}]
        if pre:
            # the same search from a state that already holds a chain x <- gc(x) <- gc(gc(x))
            for c in cfgs:
                c["prebuilt"] = pre
        st, crashes = hist.run_parallel(Sys, cfgs, depth, d0, split=1)
        total.merge(st)
        crashes_all.extend(crashes)
        ctx.count("transitions_%s_depth%d%s" % (alpha, depth, "_from_chain" if pre else ""), st.transitions)
    for (item, cr, last) in crashes_all:
        ctx.violation({"kind": "crash"}, {"cfg": item[0], "prefix": item[1], "last_history": last, "how": cr.describe()})
    for h, info in total.violations:
        ctx.violation({"kind": info.get("kind"), "dkind": info.get("dkind"), "okind": info.get("okind")},
                      {"history": h, "info": info})
    for k, v in sorted(total.op_hist.items()):
        ctx.count("op_" + str(k), v)
    for smp in total.samples:
        ctx.sample({"history": smp})
    if not total.samples:
        ctx.sample({"note": "see class_histogram"})
    cov = {
        "states": total.states, "transitions": total.transitions,
        "traces_validated_against_impl": total.transitions,
        "max_depth": total.max_depth,
        "unmerged_depth_d0": {"full alphabet": plan[0][2], "core alphabet": plan[1][2]},
        "initial_states": ["empty", "chain x <- gc(x) <- gc(gc(x))"],
        "merged_states_skipped": total.merged,
        "histories_closed": total.histories_closed,
        "evaluations": total.transitions, "distinct_nontrivial": total.states,
        "rule": "a state is an operation history (merged by model key beyond d0); every transition executes the real "
                "operation on fresh real objects and the counting model in lock-step",
        "plan": [{"alphabet": a, "depth": d, "d0": z, "from_chain": bool(pre)} for a, d, z, pre in plan],
        "exhaustive": True,
    }
    return ctx.finish(cov, ["CPython refcounting + explicit gc.collect() only (automatic GC disabled during the search)"])


def replay(detail):
    setup()
    h = detail.get("history")
    if h is None:
        print(detail)
        return 1
    ops = [tuple(o) for o in h if tuple(o) != ("<close>",)]
    for collect_every in (False, True):
        s = Sys({"collect_every": collect_every, "alpha": "full"})
        bad = None
        for op in ops:
            if op not in s.enabled():
                print("op", op, "not enabled in this mode")
                break
            bad = s.apply(op)
            print(op, "->", bad)
            if bad:
                break
        if not bad:
            bad = s.close()
            print("<close> ->", bad)
        if bad:
            return 1
    return 0
