"""C21 -- ownership, destructors and handles over any history (engine E2).

Explicit-state search over histories of create / alias / gc-wrap / release /
with / drop / collect / from_buffer / handle operations on three slots, stepped
in lock-step with a counting model (destructor calls per wrapper, free calls per
allocation, export state of the from_buffer sources, identity of handle targets).

The operation alphabet is split into families (ALPHAS below); every family is
explored exhaustively up to its depth for every combination of its axes
(front end x collection mode x allocator).
"""
import gc as _gc
import os
import sys

from .. import hist
from .. import pool
from ..build import InfraError

ID = "C21"
LEVEL = "model_checking"
META = dict(
    engine="E2-hist", level="model_checking",
    technique="explicit-state breadth-first search over all operation histories up to a depth on the real objects, "
              "in lock-step with a counting reference model (exactly-once destructors/frees, keep-alive, export lock, handles)",
    text="All histories of depth <= 3/4 (quick; thorough 4/5 with merging beyond the unmerged depth 3) on 3 slots, for six "
         "operation families: 'full'/'core' (allocator objects, ffi.new, from_buffer, handles, gc wrappers with plain / "
         "cyclic / re-entrant destructors, links between wrappers), 'alloc' (allocators returning raw memory / an owning "
         "char[] / with free=None / new_allocator() without arguments; union, var-sized struct, int[], int *, struct[2] "
         "allocations; initializers that fail after alloc(); alloc() returning NULL / a non-cdata / a non-pointer / "
         "raising; an allocator whose free function references the allocated object (a cycle); release, with and "
         "gc(x, None) offered on EVERY object incl. p[0]), 'dtor' (destructors that raise, are ffi.callback cdata, bound "
         "methods of an object holding the wrapper, functools.partial; with-bodies that raise; objects that die while an "
         "exception is being raised), 'buf' (from_buffer in 4 forms over bytearray / array.array / mmap / a PEP 688 object that counts "
         "acquisitions and releases and is referenced by nothing else; ffi.gc() over from_buffer objects; ffi.buffer() "
         "views; source<->from_buffer cycles), 'handle' (handles whose target only the handle keeps alive, target<->"
         "handle cycles, handles to None / a cdata, ffi.gc() over handles with a destructor that calls from_handle). "
         "Every family runs on both front ends (cffi.FFI() and the _cffi_backend.FFI of an out-of-line module) and in "
         "three collection modes (none / gc.collect() after every step / automatic GC with threshold 1) and has "
         "gc.collect(0|1) steps.  Destructor, free and release-buffer counters are checked after every step (never "
         "twice, never while the wrapper is still referenced, never after gc(p, None), immediately at release/"
         "with-exit) and exactly at the end of every history after dropping everything and collecting.",
    note="CPython reference counting is deterministic, so 'when' an object dies is predicted by a reachability model "
         "(three-valued: certainly alive / possibly alive through a cycle or an ffi.buffer view / dead); new objects "
         "always go to the lowest free slot (slots are symmetric, this only removes renamings).  Where the statement is "
         "silent (release/with/gc(x, None) on objects that are not ffi.new/ffi.gc/from_buffer/allocator results) both "
         "'rejected with an exception, nothing changes' and 'accepted' pass; ffi.gc(x, None) ACCEPTED on an allocator "
         "object is read as 'free never runs afterwards'.  ffi.buffer() views are real references that the statement "
         "does not promise: the model neither requires nor forbids that they keep their object alive.  Expected "
         "duration on the idle 16-core machine: quick about 15 s (620 000 transitions), thorough about 4 min (7 million); "
         "both scale with the load of the machine.")

NSLOT = 3
SENT = 0x5A17

CDEF = """struct c21s { int x; long long pad[3]; };
union c21u { int x; long long y; char z[16]; };
struct c21v { int n; int tail[]; };
void *malloc(size_t); void free(void *);"""

# shape -> (ctype, initializer, struct_like: p[0] is an owning alias)
SHAPES = {
    "s": ("struct c21s *", None, True),
    "u": ("union c21u *", None, True),
    "v": ("struct c21v *", [0, 3], True),
    "a": ("int[3]", None, False),
    "o": ("int[]", 3, False),
    "i": ("int *", None, False),
    "sa": ("struct c21s[2]", None, False),
}

DK_OLD = ("plain", "cycle", "re_release", "re_gcnone")
DK_CYCLE = ("cycle", "re_release", "re_gcnone", "method")        # the destructor references the wrapper
DK_LINKABLE = ("plain", "cycle", "re_release", "re_gcnone", "raises")   # plain functions: can carry an attribute
FB_FORMS = ("", "int[]", "char *", "rw")
FB_SRCS = ("ba", "arr", "mm", "own")
SHARED_SRCS = ("ba", "arr", "mm")

_OLD_TARGETS = ("news", "newa", "newp", "gc", "alias")
ALPHAS = {
    "core": dict(create=[("news",), ("newa",), ("newp",)], dk=("plain", "cycle", "re_release"), gc_on=_OLD_TARGETS,
                 link=True, collect=[("collect",)]),
    "full": dict(create=[("news",), ("newa",), ("newp",), ("fb",), ("handle", 0), ("handle", 1)], dk=DK_OLD,
                 gc_on=_OLD_TARGETS, link=True, dup=True, resize=True, collect=[("collect",)]),
    # gaps 2, 3, 7 of the audit: allocation kinds and failing allocations, every op on every object
    "alloc": dict(create=[("news",), ("newa",), ("newp",)] + [("newx", "alloc", s) for s in ("u", "v", "o", "i", "sa")]
                  + [("newx", "new", s) for s in ("u", "v", "o")] + [("newh", "a"), ("newh", "s")],
                  dk=("plain", "cycle"), gc_on=_OLD_TARGETS + ("newq",), wide=True,
                  probes=[("bad", "init"), ("bad", "alloc")], collect=[("collect",), ("collect", 0)]),
    # gap 5 (+3): destructor kinds, with-bodies that raise
    "dtor": dict(create=[("news",), ("newa",), ("newp",)],
                 dk=DK_OLD + ("raises", "cb", "method", "partial"), gc_on=_OLD_TARGETS, link=True, wide=True,
                 with_raise=True, drop_raise=True, collect=[("collect",), ("collect", 0)]),
    # gap 4: from_buffer forms and sources, gc over them, buffer views, cycles through the source
    "buf": dict(create=[("fb",)] + [("fbx", f, s) for s in FB_SRCS for f in FB_FORMS if (f, s) != ("", "ba")],
                dk=("plain", "cycle", "cb"), gc_on=("fb", "gc"), wide=True, with_raise=True, dup=True, resize=True,
                buf=True, tie=True, collect=[("collect",), ("collect", 0)]),
    # the same with every form and every source once (for the deeper search of the thorough tier)
    "bufcore": dict(create=[("fb",), ("fbx", "", "own"), ("fbx", "int[]", "arr"), ("fbx", "char *", "mm"),
                            ("fbx", "rw", "own")],
                    dk=("plain", "cycle", "cb"), gc_on=("fb", "gc"), wide=True, with_raise=True, dup=True, resize=True,
                    buf=True, tie=True, collect=[("collect",), ("collect", 0)]),
    # gap 6: handle kinds, gc over handles
    "handle": dict(create=[("handle", k) for k in (0, 1, "own", "self", "none", "cd")] + [("newp",)],
                   dk=("plain", "cycle", "fromh"), gc_on=("handle", "gc", "newp"), wide=True, dup=True,
                   collect=[("collect",), ("collect", 0), ("collect", 1)]),
}


class Rec(object):
    """Model record of one object."""

    def __init__(self, oid, kind, **kw):
        self.oid = oid
        self.kind = kind                # news / newa / newp / newq / alias / gc / fb / handle / buf
        self.target = kw.get("target")  # gc: wrapped object id; alias: owner id; buf: viewed object id
        self.dkind = kw.get("dkind")    # gc: destructor kind
        self.cancelled = False          # gc(p, None) applied (and accepted) before the destructor / free ran
        self.ran = False                # destructor (gc) or free (allocator objects) already ran
        self.released = False
        self.k = kw.get("k")            # handle: which python object
        self.link = None                # gc: object id referenced from the destructor's closure
        self.shape = kw.get("shape")    # allocations: key of SHAPES
        self.cls = kw.get("cls")        # allocations: A (owning ptr to a CDataGCP struct), B (CDataGCP), D (plain)
        self.has_free = kw.get("has_free", False)
        self.maybe = False              # an op whose effect the statement does not define was accepted: counters free
        self.src = kw.get("src")        # fb: source kind
        self.form = kw.get("form")      # fb: from_buffer form
        self.tied = False               # fb: the source references the fb object (a cycle)
        self.held = False               # allocation: its free function references the object (a cycle)


class _Counters(object):
    """Everything the destructors / alloc / free functions write to.  They must not reference the Sys object: the Sys
    holds the objects under test, and a pointer from new_allocator()("struct *") is not visited by the cyclic GC, so
    Sys -> slot -> p -> struct object -> free function -> Sys would never be collected (see the 'newh' operation)."""

    def __init__(self):
        self.dcalls = {}                     # gc wrapper id -> list of args seen
        self.frees = {}                      # allocation id -> count
        self.nallocs = {}                    # allocation id -> number of alloc() calls
        self.addr2alloc = {}
        self.backing = {}                    # allocation id -> weakref to the owning char[] returned by alloc()
        self.pending = None                  # allocation id of the allocator call in progress
        self.err = None                      # a violation seen inside a destructor


class _Expected(Exception):
    """Raised on purpose by the 'raises' destructor."""


class _Marker(Exception):
    """Raised on purpose by a with-body."""


class Sys(object):
    def __init__(self, cfg):
        import weakref
        self.cfg = cfg
        self.mode = cfg.get("mode") or ("every" if cfg.get("collect_every") else "none")
        self.collect_every = self.mode == "every"
        self.alpha = cfg.get("alpha", "full")
        self.A = ALPHAS[self.alpha]
        self.front = cfg.get("front", "inline")
        ffi = self.ffi = _FFIS[self.front]
        self.ffi2 = _FFIS["ool" if self.front == "inline" else "inline"]
        self.allocator = cfg.get("allocator", "raw")
        self.depth = cfg.get("depth")
        self.part = cfg.get("part")
        self.nops = 0
        self.slots = [None] * NSLOT          # implementation objects
        self.mslots = [None] * NSLOT         # model: object ids
        self.recs = {}
        self.nid = 0
        C = self.C = _Counters()
        self.dcalls, self.frees, self.nallocs, self.backing = C.dcalls, C.frees, C.nallocs, C.backing
        self.collected = set()               # ids that were unreachable at a full collection
        self.fblog = {}                      # fb id -> ["get" | "rel", ...] of its private PEP 688 source
        self.fbwr = {}                       # fb id -> weakref to that source
        self.hwr = {}                        # handle id -> weakref to its private target
        self.hid = {}                        # handle id -> id() of its private target
        self.shared = {}                     # shared from_buffer sources, created on first use
        self.outcome = None                  # classification of the last operation (evidence counters)
        self._keeps = []                     # weakrefs to the `keep` cells of 'newh' (see __del__)
        self._cells = weakref.WeakValueDictionary()
        self._weakref = weakref
        alloc_raw, alloc_own, free_raw, free_own = _alloc_functions(C)
        if self.allocator == "raw":
            self.alloc = ffi.new_allocator(alloc_raw, free_raw, should_clear_after_alloc=True)
        elif self.allocator == "owning":
            self.alloc = ffi.new_allocator(alloc_own, free_own, should_clear_after_alloc=False)
        elif self.allocator == "nofree":
            self.alloc = ffi.new_allocator(alloc_own, None)
        elif self.allocator == "default":
            self.alloc = ffi.new_allocator(should_clear_after_alloc=False)
        else:
            raise InfraError("unknown allocator %r" % (self.allocator,))
        self.has_free = self.allocator in ("raw", "owning")
        self.ba = _BA(b"0123456789ab")
        self.shared["ba"] = self.ba
        self.pyobjs = [_Obj("o0"), _Obj("o1")]
        self.hcd = None
        if self.mode == "auto":
            _gc.set_threshold(1, 1, 1)          # a young collection at (almost) every container allocation
            _gc.enable()
        else:
            _gc.disable()
        for op in cfg.get("prebuilt", ()):       # start from a non-initial state
            if self._apply(_tuplify(op)) is not None:
                raise InfraError("prebuilt state failed")

    def __del__(self):
        # Housekeeping, after everything was checked: the cycles made by 'newh' on "struct *" are never collected
        # (that is the finding); break them by hand so that the garbage of one history does not slow down the next.
        for w in self._keeps:
            c = w()
            if c is not None:
                c.ref = None

    # ---- model helpers ----------------------------------------------------
    def _new_id(self):
        self.nid += 1
        return self.nid

    def _free_slot(self):
        for i in range(NSLOT):
            if self.mslots[i] is None:
                return i
        return None

    def _reach(self, lax=False, roots=None):
        """Objects reachable from the slots (or `roots`).  Strict: only the references the property promises;
        lax: also the references that exist but that the statement does not promise (ffi.buffer views)."""
        seen = set()
        stack = list(roots) if roots is not None else [o for o in self.mslots if o is not None]
        while stack:
            o = stack.pop()
            if o in seen:
                continue
            seen.add(o)
            r = self.recs[o]
            if r.kind == "gc":
                if r.link is not None and not (r.released or r.cancelled or r.ran):
                    stack.append(r.link)      # destructor closure -> linked object (while the destructor is held)
                if not r.released and r.target is not None:
                    stack.append(r.target)    # release() finalises the wrapper: it drops its reference to the target
            elif r.kind == "alias":
                stack.append(r.target)
            elif r.kind == "buf" and lax:
                stack.append(r.target)
        return seen

    def _reachable(self):
        return self._reach()

    def _cyclic(self, r):
        """Is the object part of a reference cycle (so that only a collection can end its life)?"""
        if r.kind == "gc":
            return r.dkind in DK_CYCLE and not (r.released or r.cancelled or r.ran)
        if r.kind == "fb":
            return r.tied and not r.released
        if r.kind in ("news", "newa"):
            return r.held and not (r.released or r.cancelled or r.ran)       # while the free function is attached
        if r.kind == "handle":
            return r.k == "self"
        return False

    def _status(self):
        """(live, maybe, n): certainly alive / possibly alive (held by a cycle that no full collection has seen
        yet, or by a reference that the statement does not promise).  Everything else is dead."""
        live = self._reach()
        lax = self._reach(lax=True)
        limbo = [o for o, r in self.recs.items() if o not in lax and o not in self.collected and self._cyclic(r)]
        maybe = lax - live
        if limbo:
            maybe |= self._reach(lax=True, roots=limbo)
        return live, maybe, len(limbo)

    def _mark_collected(self):
        self.collected |= set(self.recs) - self._reach(lax=True)

    def _class(self, r):
        if r.kind in ("news", "newa", "newp", "newq"):
            return r.cls
        if r.kind == "alias":
            return "C" if self.recs[r.target].cls == "A" else "E"
        return {"gc": "F", "fb": "G", "handle": "H", "buf": "I"}[r.kind]

    def _bottom(self, oid):
        """The object at the bottom of a chain of gc wrappers."""
        r = self.recs[oid]
        n = 0
        while r.kind == "gc" and n < 50:
            r = self.recs[r.target]
            n += 1
        return r

    def _chain_released(self, oid):
        r = self.recs[oid]
        n = 0
        while n < 50:
            if r.released:
                return True
            if r.kind != "gc":
                return False
            r = self.recs[r.target]
            n += 1
        return True

    def enabled(self):
        A = self.A
        if self.depth is not None and self.nops >= self.depth:
            return []
        ops = []
        fs = self._free_slot()
        kinds = [None if o is None else self.recs[o].kind for o in self.mslots]
        if fs is not None:
            ops += A["create"]
        for i in range(NSLOT):
            k = kinds[i]
            if k is None:
                continue
            r = self.recs[self.mslots[i]]
            if fs is not None and k in A["gc_on"]:
                bottom = self._bottom(r.oid)
                for dk in A["dk"]:
                    if dk == "cb" and bottom.kind == "alias":
                        continue          # a struct cdata cannot be passed to a 'void(void *)' function
                    if dk == "fromh" and k != "handle":
                        # only directly on a handle: the wrapper then keeps the handle alive until its destructor
                        # has run.  (Through a chain gc(gc(h)) the inner wrapper can be released first, the handle
                        # die, and from_handle() in the outer destructor would be the caller's error.)
                        continue
                    if bottom.kind == "handle" and dk not in ("plain", "cycle", "fromh"):
                        continue
                    ops.append(("gc", i, dk))
            if fs is not None and k in ("news", "newp") and not r.released:
                ops.append(("alias", i))
            if k == "gc" or A.get("wide"):
                ops.append(("gcnone", i))
            if k == "gc" and A.get("link"):
                if r.link is None and r.dkind in DK_LINKABLE and not (r.released or r.cancelled or r.ran):
                    for j in range(NSLOT):
                        if j != i and kinds[j] == "gc":
                            ops.append(("link", i, j))
            if k in ("news", "newa", "newp", "gc", "fb") or A.get("wide"):
                ops.append(("release", i))
                ops.append(("with", i))
                if A.get("with_raise"):
                    ops.append(("with_raise", i))
            if k == "handle":
                ops.append(("fromh", i))
            if k == "fb" and A.get("tie") and r.src == "own" and not r.released and not r.tied:
                ops.append(("tie", i))
            if fs is not None and A.get("buf") and k in ("fb", "gc", "news", "newa", "newp", "newq"):
                # not on a struct, and not on a released object (a released wrapper of an 'int[]' has no length)
                if self._bottom(r.oid).kind != "alias" and not self._chain_released(r.oid):
                    ops.append(("buf", i))
            ops.append(("drop", i))
            if A.get("drop_raise"):
                ops.append(("drop_raise", i))
            if fs is not None and A.get("dup"):
                ops.append(("dup", i))
        ops += A["collect"]
        if A.get("resize"):
            ops.append(("resize",))
        ops += A.get("probes", [])
        if self.nops == 0 and self.part:
            ops = ops[self.part[0]::self.part[1]]
        return ops

    # ---- stepping ---------------------------------------------------------
    def apply(self, op):
        self.outcome = None
        try:
            info = self._apply(op)
        except InfraError:
            raise
        except Exception as e:
            import traceback
            info = {"kind": "exception", "op": op, "error": "%s: %s" % (type(e).__name__, e),
                    "tb": traceback.format_exc()[-600:]}
        self.nops += 1
        if info is None:
            if self.collect_every:
                _gc.collect()
                self._mark_collected()
            info = self._check(final=False)
        if info is not None:
            info["cfg"] = self._plain_cfg()
        return info

    def _plain_cfg(self):
        return {k: v for k, v in self.cfg.items() if k not in ("part", "depth", "plan")}

    def _make_destructor(self, oid, dk, cell, bottom):
        """Returns (destructor, holder)."""
        sysref = self.C           # NOT the Sys object
        ffi = self.ffi
        want_id = self.hid.get(bottom.oid)
        want = None if (want_id is not None or bottom.kind != "handle") else self._hexpect(bottom)
        hkind = str(bottom.k)

        def plain(x):
            sysref.dcalls.setdefault(oid, []).append(1)
        if dk == "plain":
            return plain, None

        def cyc(x):
            sysref.dcalls.setdefault(oid, []).append(1)
            cell[0] is not None      # references the wrapper: a cycle through the closure

        def re_release(x):
            sysref.dcalls.setdefault(oid, []).append(1)
            if cell[0] is not None:
                ffi.release(cell[0])          # re-entrant: must not run the destructor again

        def re_gcnone(x):
            sysref.dcalls.setdefault(oid, []).append(1)
            if cell[0] is not None:
                ffi.gc(cell[0], None)

        def raises(x):
            sysref.dcalls.setdefault(oid, []).append(1)
            raise _Expected(oid)         # reported through sys.unraisablehook, must not propagate anywhere

        def cbfunc(p):
            sysref.dcalls.setdefault(oid, []).append(1)
        if dk == "cb":
            return ffi.callback("void(void *)", cbfunc), None      # a cdata function as the destructor
        if dk == "method":
            m = _Method(sysref, oid)         # the wrapper is stored on m: a cycle through __self__
            return m.destroy, m
        if dk == "partial":
            import functools
            return functools.partial(_count_call, sysref, oid), None
        if dk == "fromh":
            def fromh(x):
                sysref.dcalls.setdefault(oid, []).append(1)
                try:
                    got = ffi.from_handle(x)      # the destructor must receive a handle that is still valid
                except Exception as e:
                    sysref.err = {"kind": "from_handle-failed-in-destructor", "error": repr(e)}
                    return
                if (id(got) != want_id) if want_id is not None else (got is not want):
                    sysref.err = {"kind": "from_handle-wrong-object-in-destructor", "hkind": hkind}
            return fromh, None
        return {"cycle": cyc, "re_release": re_release, "re_gcnone": re_gcnone, "raises": raises}[dk], None

    def _hexpect(self, r):
        if r.k in (0, 1):
            return self.pyobjs[r.k]
        if r.k == "none":
            return None
        if r.k == "cd":
            return self.hcd
        return self.hwr[r.oid]()

    def _create(self, via, shape):
        ffi = self.ffi
        ctype, init, struct_like = SHAPES[shape]
        oid = self._new_id()
        if via == "alloc":
            self.C.pending = oid
            try:
                p = self.alloc(ctype) if init is None else self.alloc(ctype, init)
            finally:
                self.C.pending = None
            kind = "news" if struct_like else "newa"
            if self.allocator == "default":
                cls, has_free = "D", False
            else:
                cls, has_free = ("A" if struct_like else "B"), self.has_free
        else:
            p = ffi.new(ctype) if init is None else ffi.new(ctype, init)
            kind = "newp" if struct_like else "newq"
            cls, has_free = "D", False
        _fill(p, shape)
        self.recs[oid] = Rec(oid, kind, shape=shape, cls=cls, has_free=has_free)
        return oid, p

    def _shared(self, src):
        s = self.shared.get(src)
        if s is None:
            if src == "arr":
                import array
                s = array.array("i", [SENT, 1, 2])
            elif src == "mm":
                import mmap
                s = mmap.mmap(-1, 4096)
            else:
                raise InfraError("unknown source %r" % (src,))
            self.shared[src] = s
        return s

    def _probe(self, src):
        """True if the shared source can be resized now (= it is not export-locked)."""
        s = self.shared[src]
        try:
            if src == "mm":
                s.resize(4096)
            else:
                s.append(1)
                s.pop()
            return True
        except BufferError:
            return False

    def _apply(self, op):
        ffi = self.ffi
        k = op[0]
        if k in ("news", "newa", "newp", "newx"):
            i = self._free_slot()
            if k == "newx":
                oid, p = self._create(op[1], op[2])
            else:
                oid, p = self._create("new" if k == "newp" else "alloc", "a" if k == "newa" else "s")
            self.slots[i] = p
            self.mslots[i] = oid
            return None
        if k == "newh":
            # an allocator whose free function references (through `keep`) the object it allocated; nothing else
            # references the allocator, the free function or `keep`
            i = self._free_slot()
            ctype, init, struct_like = SHAPES[op[1]]
            oid = self._new_id()
            keep = _Cell()
            _, a_own, _, f_own = _alloc_functions(self.C, keep)
            al = ffi.new_allocator(a_own, f_own)
            self.C.pending = oid
            try:
                p = al(ctype)
            finally:
                self.C.pending = None
            keep.ref = p
            self._keeps.append(self._weakref.ref(keep))
            _fill(p, op[1])
            r = self.recs[oid] = Rec(oid, "news" if struct_like else "newa", shape=op[1],
                                     cls="A" if struct_like else "B", has_free=True)
            r.held = True
            self.slots[i] = p
            self.mslots[i] = oid
            del p, al, keep, a_own, f_own
            return None
        if k in ("fb", "fbx", "handle"):
            i = self._free_slot()
            oid = self._new_id()
            if k in ("fb", "fbx"):
                form, src = (op[1], op[2]) if k == "fbx" else ("", "ba")
                if src == "own":
                    log = self.fblog[oid] = []
                    s = _make_src(log)           # referenced by nothing but the from_buffer object
                    self.fbwr[oid] = self._weakref.ref(s)
                else:
                    s = self._shared(src)
                if form == "":
                    p = ffi.from_buffer(s)
                elif form == "rw":
                    p = ffi.from_buffer(s, require_writable=True)
                else:
                    p = ffi.from_buffer(form, s)
                del s
                self.recs[oid] = Rec(oid, "fb", src=src, form=form)
            else:
                hk = op[1]
                if hk in (0, 1):
                    obj = self.pyobjs[hk]
                elif hk == "none":
                    obj = None
                elif hk == "cd":
                    if self.hcd is None:
                        self.hcd = ffi.new("int *", 7)
                    obj = self.hcd
                else:
                    obj = _Obj(hk)               # "own" / "self": only the handle keeps it alive
                    self.hwr[oid] = self._weakref.ref(obj)
                    self.hid[oid] = id(obj)
                p = ffi.new_handle(obj)
                if hk == "self":
                    obj.h = p                    # object <-> handle cycle
                del obj
                self.recs[oid] = Rec(oid, "handle", k=hk)
            self.slots[i] = p
            self.mslots[i] = oid
            return None
        if k == "gc":
            i, dk = op[1], op[2]
            j = self._free_slot()
            oid = self._new_id()
            cell = [None]
            d, holder = self._make_destructor(oid, dk, cell, self._bottom(self.mslots[i]))
            w = ffi.gc(self.slots[i], d)
            if dk in ("cycle", "re_release", "re_gcnone"):
                cell[0] = w
            if holder is not None:
                holder.w = w
            self.recs[oid] = Rec(oid, "gc", target=self.mslots[i], dkind=dk)
            if dk in DK_LINKABLE:
                d.link_cell = cell2 = _Cell()     # a strong reference held ONLY by the destructor function
                self._cells[oid] = cell2
            self.slots[j] = w
            self.mslots[j] = oid
            del w, d, holder
            return None
        if k == "alias":
            i = op[1]
            j = self._free_slot()
            oid = self._new_id()
            self.slots[j] = self.slots[i][0]
            self.recs[oid] = Rec(oid, "alias", target=self.mslots[i])
            self.mslots[j] = oid
            return None
        if k == "buf":
            i = op[1]
            j = self._free_slot()
            oid = self._new_id()
            self.slots[j] = ffi.buffer(self.slots[i])
            self.recs[oid] = Rec(oid, "buf", target=self.mslots[i])
            self.mslots[j] = oid
            return None
        if k == "dup":
            i = op[1]
            j = self._free_slot()
            self.slots[j] = self.slots[i]
            self.mslots[j] = self.mslots[i]
            return None
        if k == "link":
            i, j = op[1], op[2]
            oi = self.mslots[i]
            self._cells[oi].ref = self.slots[j]    # destructor of i now keeps the object in slot j alive
            self.recs[oi].link = self.mslots[j]
            return None
        if k == "tie":
            r = self.recs[self.mslots[op[1]]]
            s = self.fbwr[r.oid]()
            if s is None:
                return {"kind": "source-died-while-referenced", "obj": r.oid, "form": r.form}
            s.ref = self.slots[op[1]]              # source -> from_buffer object -> view -> source
            del s
            r.tied = True
            return None
        if k == "gcnone":
            r = self.recs[self.mslots[op[1]]]
            cls = self._class(r)
            try:
                res = ffi.gc(self.slots[op[1]], None)
            except Exception:
                if cls == "F":
                    raise
                self.outcome = "gcnone_%s_rejected" % cls
                return None
            if res is not None:
                return {"kind": "gc-none-returned-something", "op": op}
            self.outcome = "gcnone_%s_accepted" % cls
            if cls == "F":
                if not r.ran:
                    r.cancelled = True
            elif cls in ("B", "C"):
                # The statement says both "free runs exactly once per allocation" and "never after ffi.gc(p, None)";
                # an ACCEPTED gc(x, None) on an allocator object is read as the latter.
                root = r if cls == "B" else self.recs[r.target]
                if not root.ran:
                    root.cancelled = True
            elif cls == "A":
                r.maybe = True          # not defined by the statement: no expectation on the free counter any more
            return None
        if k in ("release", "with", "with_raise"):
            i = op[1]
            r = self.recs[self.mslots[i]]
            x = self.slots[i]
            cls = self._class(r)
            must = cls in ("A", "B", "D", "F", "G")      # results of ffi.new / allocator / ffi.gc / from_buffer
            entered = False
            try:
                if k == "release":
                    ffi.release(x)
                    entered = True
                    ffi.release(x)          # idempotent
                elif k == "with":
                    with x:
                        entered = True
                else:
                    marker = _Marker()
                    try:
                        with x:
                            entered = True
                            raise marker
                    except _Marker as e:
                        if e is not marker:
                            return {"kind": "with-body-exception-replaced", "op": op, "dkind": r.dkind}
                    else:
                        if entered:
                            return {"kind": "with-body-exception-swallowed", "op": op, "dkind": r.dkind}
            except Exception:
                if must or entered:
                    raise
                self.outcome = "%s_%s_rejected" % (k, cls)       # nothing happened
                return None
            self.outcome = "%s_%s_accepted" % (k, cls)
            self._model_release(r, cls)
            return None
        if k == "drop":
            self.slots[op[1]] = None
            self.mslots[op[1]] = None
            return None
        if k == "drop_raise":
            # the last reference is a temporary argument of a C function that fails: the object dies (and its
            # destructor runs) while the error indicator is set; that exception must arrive unchanged.  (A Python
            # frame left by an exception does not do: the traceback keeps the frame's locals alive.)
            import operator
            box = [self.slots[op[1]]]
            self.slots[op[1]] = None
            self.mslots[op[1]] = None
            try:
                operator.index(box.pop())        # no cdata pointer / array / struct / buffer has __index__
            except TypeError:
                pass
            except BaseException as e:
                return {"kind": "exception-lost-while-object-died", "op": op, "error": repr(e)[:200]}
            else:
                return {"kind": "exception-lost-while-object-died", "op": op, "error": None}
            return None
        if k == "collect":
            if len(op) == 1:
                _gc.collect()
                self._mark_collected()
            else:
                _gc.collect(op[1])       # a young collection: may finalise some cycles, must not break anything
            return None
        if k == "resize":
            live, maybe, _ = self._status()
            for src in SHARED_SRCS:
                if src not in self.shared:
                    continue
                st = self._export_state(src, live, maybe)
                grew = self._probe(src)
                if st is not None and grew == st:
                    return {"kind": "export-lock", "op": op, "src": src, "exported_in_model": st,
                            "resize_succeeded": grew}
            return None
        if k == "fromh":
            i = op[1]
            r = self.recs[self.mslots[i]]
            h = self.slots[i]
            o1 = ffi.from_handle(h)
            o2 = ffi.from_handle(ffi.cast("void *", h))
            o3 = ffi.from_handle(ffi.cast("char *", ffi.cast("intptr_t", h)))
            o4 = self.ffi2.from_handle(h)         # through the other front end
            want = self._hexpect(r)
            if want is None and r.k != "none":
                return {"kind": "handle-target-died-while-handle-alive", "op": op, "hkind": str(r.k)}
            if not (o1 is want and o2 is want and o3 is want and o4 is want):
                return {"kind": "from_handle-wrong-object", "op": op, "hkind": str(r.k)}
            return None
        if k == "bad":
            return self._bad_init() if op[1] == "init" else self._bad_alloc()
        raise InfraError("unknown op %r" % (op,))

    def _bad_init(self):
        """Initializers that fail AFTER alloc() succeeded: the allocation must be freed exactly once, at once."""
        cases = [("int[3]", [1, 2, 3, 4]), ("struct c21s *", {"nosuch": 1}),
                 ("struct c21v *", [1, [1, 2, "x"]]), ("union c21u *", {"nosuch": 1})]
        for ct, init in cases:
            oid = self._new_id()
            self.C.pending = oid
            try:
                self.alloc(ct, init)
            except Exception:
                pass
            else:
                raise InfraError("assumption broken: initializer %r accepted for %s" % (init, ct))
            finally:
                self.C.pending = None
            if self.allocator == "default":
                continue
            na, nf = self.nallocs.get(oid, 0), self.frees.get(oid, 0)
            want = na if self.has_free else 0
            if nf != want:
                return {"kind": "free-count-after-failed-initializer", "okind": ct, "allocs": na, "frees": nf}
        return None

    def _bad_alloc(self):
        """alloc() that does not deliver memory: an exception, and free() is never called."""
        ffi = self.ffi
        iffi = _FFIS["inline"]
        nfree = []

        def fr(p):
            nfree.append(1)

        def a_null(size):
            return iffi.NULL

        def a_raise(size):
            raise ZeroDivisionError

        def a_notcdata(size):
            return 5

        def a_notptr(size):
            return iffi.cast("int", 5)
        for name, a in (("null", a_null), ("raise", a_raise), ("notcdata", a_notcdata), ("notptr", a_notptr)):
            al = ffi.new_allocator(a, fr)
            for ct in ("int[3]", "struct c21s *"):
                try:
                    al(ct)
                except Exception:
                    pass
                else:
                    raise InfraError("assumption broken: allocation with alloc() = %s succeeded" % name)
                if nfree:
                    return {"kind": "free-called-without-allocation", "okind": ct, "allocator": name}
        return None

    def _model_release(self, r, cls):
        if cls == "F":
            if not r.ran and not r.cancelled:
                r.ran = True
            r.released = True
        elif cls in ("A", "B", "C"):
            root = r if cls != "C" else self.recs[r.target]
            if root.has_free and not root.ran and not root.cancelled and not root.maybe:
                root.ran = True
            root.released = True
        elif cls == "G":
            r.released = True
        # D: "no effect on CPython"; E, H, I (if accepted at all): no effect

    def _export_state(self, src, live, maybe):
        """True: certainly export-locked, False: certainly not, None: the model cannot tell."""
        unknown = False
        for o, r in self.recs.items():
            if r.kind == "fb" and r.src == src and not r.released:
                if o in live:
                    return True
                if o in maybe:
                    unknown = True
        return None if unknown else False

    # ---- checking ---------------------------------------------------------
    def _check(self, final):
        if self.C.err is not None:
            return dict(self.C.err)
        if _UNRAISABLE:
            msgs = list(_UNRAISABLE)
            del _UNRAISABLE[:]
            return {"kind": "unexpected-unraisable-error", "errors": msgs[:3]}
        live, maybe, _ = self._status()
        deferred = None
        for oid, r in self.recs.items():
            if r.kind == "gc":
                n = len(self.dcalls.get(oid, ()))
                if n > 1:
                    return {"kind": "destructor-ran-twice", "obj": oid, "dkind": r.dkind}
                if r.cancelled and n > 0 and not r.ran:
                    return {"kind": "destructor-ran-after-gc-none", "obj": oid, "dkind": r.dkind}
                if oid in live and not r.released and n > 0:
                    return {"kind": "destructor-ran-while-referenced", "obj": oid, "dkind": r.dkind}
                if r.released and not r.cancelled and n != 1:
                    return {"kind": "destructor-not-run-at-release", "obj": oid, "dkind": r.dkind, "calls": n}
                if final and not r.cancelled and n != 1:
                    return {"kind": "destructor-never-ran", "obj": oid, "dkind": r.dkind}
                if final and r.cancelled and n != 0:
                    return {"kind": "destructor-ran-after-gc-none", "obj": oid, "dkind": r.dkind}
            elif r.cls in ("A", "B"):
                n = self.frees.get(oid, 0)
                okind = r.kind if r.shape in ("s", "a") else r.kind + "-" + r.shape
                if n > 1:
                    return {"kind": "free-ran-twice", "obj": oid, "okind": okind}
                if r.maybe:
                    continue
                if not r.has_free:
                    pass
                elif r.cancelled and n > 0:
                    return {"kind": "free-ran-after-gc-none", "obj": oid, "okind": okind}
                elif oid in live and not r.released and n > 0:
                    return {"kind": "freed-while-referenced", "obj": oid, "okind": okind}
                elif r.released and n != (1 if r.ran else 0):
                    return {"kind": "free-not-run-at-release", "obj": oid, "okind": okind, "calls": n}
                elif final and n != (0 if r.cancelled else 1):
                    info = {"kind": "allocation-never-freed", "obj": oid, "okind": okind,
                            "cycle": "free-function->object" if r.held else None}
                    if not r.held:
                        return info
                    deferred = info          # reported only if nothing else is wrong in this history
                wr = self.backing.get(oid)
                if wr is not None and oid in live and not r.released and wr() is None:
                    return {"kind": "backing-store-died-while-referenced", "obj": oid, "okind": okind}
            elif r.kind == "fb" and r.src == "own":
                log = self.fblog[oid]
                rels = log.count("rel")
                if rels > 1:
                    return {"kind": "buffer-released-twice", "obj": oid, "form": r.form}
                if oid in live and not r.released:
                    if rels:
                        return {"kind": "export-released-while-referenced", "obj": oid, "form": r.form}
                    if self.fbwr[oid]() is None:
                        return {"kind": "source-died-while-referenced", "obj": oid, "form": r.form}
                if r.released and rels != 1:
                    return {"kind": "export-not-released-at-release", "obj": oid, "form": r.form}
                if final and rels != 1:
                    return {"kind": "export-never-released", "obj": oid, "form": r.form}
        # memory of allocations reachable through p or p[0] still holds its sentinels
        seen_handles = {}
        for i in range(NSLOT):
            oid = self.mslots[i]
            if oid is None:
                continue
            r = self.recs[oid]
            x = self.slots[i]
            if r.kind in ("news", "newa", "newp", "newq") and not r.released:
                if not _intact(x, r.shape, False):
                    return {"kind": "struct-memory-lost", "obj": oid, "via": "owner", "okind": r.kind + "-" + r.shape}
            if r.kind == "alias":
                root = self.recs[r.target]
                if not root.released and not _intact(x, root.shape, True):
                    return {"kind": "struct-memory-lost", "obj": oid, "via": "alias",
                            "okind": root.kind + "-" + root.shape}
            if r.kind == "handle":
                a = int(self.ffi.cast("intptr_t", x))
                if a in seen_handles and seen_handles[a] != oid:
                    return {"kind": "two-live-handles-share-an-address", "obj": oid}
                seen_handles[a] = oid
                want = self._hexpect(r)
                if want is None and r.k != "none":
                    return {"kind": "handle-target-died-while-handle-alive", "obj": oid, "hkind": str(r.k)}
                if self.ffi.from_handle(x) is not want:
                    return {"kind": "from_handle-wrong-object", "obj": oid, "hkind": str(r.k)}
        return deferred

    def key(self):
        # model state: slot contents as canonical descriptors (ids renumbered by first occurrence)
        ren = {}
        order = []

        def num(o):
            if o is None:
                return None
            if o not in ren:
                ren[o] = len(ren)
                order.append(o)
            return ren[o]
        slots = tuple(num(o) for o in self.mslots)
        descs = []
        i = 0
        while i < len(order):
            oid = order[i]
            i += 1
            r = self.recs[oid]
            n = len(self.dcalls.get(oid, ())) if r.kind == "gc" else self.frees.get(oid, 0)
            held = r.kind == "gc" and not (r.released or r.cancelled or r.ran)
            descs.append((r.kind, r.shape, r.cls, r.dkind, r.cancelled, r.ran, r.released, r.maybe, str(r.k), n,
                          r.src, r.form, r.tied, r.held, len(self.fblog.get(oid, ())),
                          num(r.target), num(r.link) if held else None))
        return (slots, tuple(descs), self._status()[2], self.mode)

    def close(self):
        """End of history: drop everything, collect, then every counter must be exact."""
        if self.outcome is not None:
            _OUT[self.outcome] = _OUT.get(self.outcome, 0) + 1
        for i in range(NSLOT):
            self.slots[i] = None
            self.mslots[i] = None
        _gc.disable()
        for _ in range(3):
            _gc.collect()
        self._mark_collected()
        info = self._check(final=True)
        if info is None:
            for src in SHARED_SRCS:
                if src in self.shared and not self._probe(src):
                    info = {"kind": "export-lock", "op": ("close",), "src": src, "exported_in_model": False,
                            "resize_succeeded": False}
                    break
        if info is not None:
            info["cfg"] = self._plain_cfg()
        # the Sys object itself must not keep wrappers alive through the closures
        return info


def _alloc_functions(C, keep=None):
    """alloc / free functions that count into C (and reference `keep`, if given)."""
    import weakref
    iffi = _FFIS["inline"]               # harness-internal casts

    def note_alloc(p, backing):
        oid = C.pending
        C.addr2alloc[int(iffi.cast("intptr_t", p))] = oid
        C.nallocs[oid] = C.nallocs.get(oid, 0) + 1
        if backing:
            C.backing[oid] = weakref.ref(p)

    def alloc_raw(size):
        p = _RAW.malloc(size)
        note_alloc(p, False)
        return p

    def alloc_own(size):
        p = iffi.new("char[]", size)        # the idiom of the documentation: an owning cdata
        note_alloc(p, True)
        return p

    def free_raw(p):
        oid = C.addr2alloc.get(int(iffi.cast("intptr_t", p)))
        C.frees[oid] = C.frees.get(oid, 0) + 1
        _RAW.free(p)
        keep

    def free_own(p):
        oid = C.addr2alloc.get(int(iffi.cast("intptr_t", p)))
        C.frees[oid] = C.frees.get(oid, 0) + 1
        keep
    return alloc_raw, alloc_own, free_raw, free_own


def _tuplify(o):
    return tuple(_tuplify(x) for x in o) if isinstance(o, (list, tuple)) else o


def _fill(p, shape):
    if shape in ("s", "u"):
        p.x = SENT
    elif shape == "v":
        p.n = SENT
        for j in range(3):
            p.tail[j] = SENT + 1 + j
    elif shape in ("a", "o"):
        for j in range(3):
            p[j] = SENT + j
    elif shape == "i":
        p[0] = SENT
    elif shape == "sa":
        p[0].x = SENT
        p[1].x = SENT + 1


def _intact(x, shape, alias):
    if shape in ("s", "u"):
        return x.x == SENT and (alias or x[0].x == SENT)
    if shape == "v":
        return x.n == SENT and [x.tail[j] for j in range(3)] == [SENT + 1, SENT + 2, SENT + 3]
    if shape in ("a", "o"):
        return [x[j] for j in range(3)] == [SENT, SENT + 1, SENT + 2]
    if shape == "i":
        return x[0] == SENT
    if shape == "sa":
        return x[0].x == SENT and x[1].x == SENT + 1
    raise InfraError("unknown shape %r" % (shape,))


_SRC_LOGS = {}         # id(source) -> its log; see _Src


class _Src(object):
    """A PEP 688 exporter that counts acquisitions and releases.  The counters are found through id(self) in a
    module-level table, not through the instance or a per-instance class: when the instance is part of a cycle, its
    __dict__ (and a class of its own) may be cleared before the from_buffer object releases the buffer."""

    def __init__(self):
        self.data = bytearray(b"0123456789ab")

    def __buffer__(self, flags):
        _SRC_LOGS[id(self)].append("get")
        return memoryview(self.data)

    def __release_buffer__(self, view):
        _SRC_LOGS[id(self)].append("rel")


def _make_src(log):
    s = _Src()
    _SRC_LOGS[id(s)] = log      # a later source at the same address replaces the entry
    return s


def _count_call(sysref, oid, x):
    sysref.dcalls.setdefault(oid, []).append(1)


class _Method(object):
    w = None

    def __init__(self, sysref, oid):
        self.sysref = sysref
        self.oid = oid

    def destroy(self, x):
        self.sysref.dcalls.setdefault(self.oid, []).append(1)


class _Cell(object):
    ref = None


class _BA(bytearray):
    pass


class _Obj(object):
    h = None

    def __init__(self, name):
        self.name = name


_FFIS = {}
_RAW = None
_UNRAISABLE = []       # unraisable errors other than the ones a 'raises' destructor produces on purpose
_OUT = {}              # per worker: classification of the last operation of every closed history


def _unraisable_hook(u):
    if isinstance(u.exc_value, _Expected):
        return
    _UNRAISABLE.append("%s: %s (%s)" % (type(u.exc_value).__name__, u.exc_value, u.err_msg))


def setup():
    global _RAW
    if _FFIS:
        return
    import cffi
    import importlib.util
    from .. import build
    ffi = cffi.FFI()
    ffi.cdef(CDEF)
    _FFIS["inline"] = ffi
    _RAW = ffi.dlopen(None)
    # the second front end: the _cffi_backend.FFI object of an out-of-line (ABI) module
    gen = cffi.FFI()
    gen.cdef(CDEF)
    name = "_c21_ool_%d" % os.getpid()
    gen.set_source(name, None)
    path = os.path.join(build.scratch(), name + ".py")
    stdout = sys.stdout
    try:
        sys.stdout = sys.stderr          # emit_python_code prints "generating ..."
        gen.emit_python_code(path)
    finally:
        sys.stdout = stdout
    spec = importlib.util.spec_from_file_location(name, path)
    mod = importlib.util.module_from_spec(spec)
    spec.loader.exec_module(mod)
    _FFIS["ool"] = mod.ffi
    for f in _FFIS.values():             # parse every type once, before the heap is frozen
        for ct, _, _ in SHAPES.values():
            f.typeof(ct)
        for ct in ("void *", "char *", "intptr_t", "char[]", "int", "void(*)(void *)"):
            f.typeof(ct)
    sys.unraisablehook = _unraisable_hook
    _gc.disable()          # collections happen only where a history says so (or, in mode 'auto', all the time)
    _gc.collect()
    _gc.freeze()           # what exists now is outside the experiment: a full collection then costs microseconds


# ---- scheduling: one pool, every item explores one part of one configuration ------------------------------------

def _work(item):
    import mmap
    cfg, depth, d0 = item
    path = hist._journal_path(item)
    with open(path, "wb") as f:
        f.write(b"\0" * hist._JSIZE)
    f = open(path, "r+b")
    hist._journal = mmap.mmap(f.fileno(), hist._JSIZE)
    _OUT.clear()
    try:
        st = hist.explore(Sys, cfg, depth, d0)
        st.outcomes = dict(_OUT)
        # one root cause can fail in every history that contains it: send back at most MAX_PER_SIG histories per
        # classification and count the rest
        kept, per, st.suppressed = [], {}, 0
        for h, info in st.violations:
            sk = tuple(str(info.get(k)) for k in ("kind", "dkind", "okind", "cycle", "hkind", "form", "src"))
            per[sk] = per.get(sk, 0) + 1
            if per[sk] <= MAX_PER_SIG:
                kept.append((h, info))
            else:
                st.suppressed += 1
        st.violations = kept
        return st
    finally:
        hist._journal.close()
        f.close()
        hist._journal = None
        _gc.disable()


MAX_PER_SIG = 25
CHAIN = [["news"], ["gc", 0, "plain"], ["gc", 1, "plain"]]
FRONTS = ("inline", "ool")
MODES = ("none", "every", "auto")
ALLOCATORS = ("raw", "owning", "nofree", "default")


def _plans(quick):
    """(alphabet, depth, d0, prebuilt, fronts, modes, allocators)"""
    if quick:
        return [
            ("full", 3, 3, None, FRONTS, MODES, ("raw",)),
            ("core", 4, 2, None, FRONTS, MODES, ("raw",)),
            ("core", 3, 3, CHAIN, FRONTS, MODES, ("raw",)),
            ("alloc", 3, 3, None, FRONTS, ("none", "every"), ALLOCATORS),
            ("dtor", 4, 3, None, FRONTS, MODES, ("raw",)),
            ("buf", 3, 3, None, FRONTS, MODES, ("raw",)),
            ("handle", 3, 3, None, FRONTS, MODES, ("raw",)),
        ]
    return [
        ("full", 4, 3, None, FRONTS, MODES, ("raw",)),
        ("core", 5, 3, None, FRONTS, MODES, ("raw",)),
        ("full", 3, 3, CHAIN, FRONTS, MODES, ("raw",)),
        ("core", 4, 3, CHAIN, FRONTS, MODES, ("raw",)),
        ("alloc", 4, 3, None, FRONTS, ("none", "every"), ALLOCATORS),
        ("alloc", 4, 3, None, FRONTS, ("auto",), ("raw",)),
        ("alloc", 3, 3, None, FRONTS, ("auto",), ("owning", "nofree", "default")),
        ("dtor", 4, 3, None, FRONTS, MODES, ("raw", "owning")),
        ("buf", 3, 3, None, FRONTS, MODES, ("raw",)),
        ("bufcore", 4, 3, None, FRONTS, MODES, ("raw",)),
        ("handle", 4, 3, None, FRONTS, MODES, ("raw",)),
    ]


def run(ctx):
    setup()
    plans = _plans(ctx.quick)
    nparts = 4 if ctx.quick else 16
    items = []
    for pi, (alpha, depth, d0, pre, fronts, modes, allocators) in enumerate(plans):
        for front in fronts:
            for mode in modes:
                for allocator in allocators:
                    for part in range(nparts):
                        cfg = {"alpha": alpha, "front": front, "mode": mode, "allocator": allocator,
                               "part": (part, nparts), "plan": pi}
                        if pre:
                            # the same search from a state that already holds a chain x <- gc(x) <- gc(gc(x))
                            cfg["prebuilt"] = pre
                        items.append((cfg, depth, d0))
    items.sort(key=lambda it: -it[1])          # big subtrees first (a stable sort: the order is deterministic)
    total = hist.Stats()
    outcomes = {}
    per_plan = {}
    per_axis = {}
    crashes = []
    suppressed = 0
    ndone = 0
    for item, r in pool.pmap(_work, [[it] for it in items], contain_crashes=True, item_timeout=3600):
        ndone += 1
        if ndone % 100 == 0:
            ctx.log("C21: %d of %d work items done, %d transitions" % (ndone, len(items), total.transitions))
        if isinstance(r, pool.WorkerError):
            raise InfraError(r.tb)
        if isinstance(r, pool.Crash):
            crashes.append((item, r, hist._read_journal(item)))
            continue
        total.merge(r)
        suppressed += r.suppressed
        for k, v in r.outcomes.items():
            outcomes[k] = outcomes.get(k, 0) + v
        cfg = item[0]
        per_plan[cfg["plan"]] = per_plan.get(cfg["plan"], 0) + r.transitions
        for ax in ("front", "mode", "allocator"):
            key = "transitions_%s_%s" % (ax, cfg[ax])
            per_axis[key] = per_axis.get(key, 0) + r.transitions
    for pi, (alpha, depth, d0, pre, fronts, modes, allocators) in enumerate(plans):
        ctx.count("transitions_%s_depth%d%s" % (alpha, depth, "_from_chain" if pre else ""), per_plan.get(pi, 0))
        ctx.count("configurations_%s" % alpha, len(fronts) * len(modes) * len(allocators))
    for k, v in sorted(per_axis.items()):
        ctx.count(k, v)
    for (item, cr, last) in crashes:
        cfg = {k: v for k, v in item[0].items() if k not in ("part", "depth", "plan")}
        ctx.violation({"kind": "crash", "alpha": cfg["alpha"]},
                      {"cfg": cfg, "part": item[0]["part"], "last_history": last, "how": cr.describe()})
    for h, info in total.violations:
        cfg = info.get("cfg") or {}
        sig = {"kind": info.get("kind"), "dkind": info.get("dkind"), "okind": info.get("okind")}
        for k in ("hkind", "form", "src", "allocator", "cycle"):
            if info.get(k) is not None:
                sig[k] = info[k]
        if cfg.get("alpha") not in ("full", "core"):
            sig["alpha"] = cfg.get("alpha")
        ctx.violation(sig, {"history": h, "info": info, "cfg": cfg})
    if suppressed:
        ctx.count("violating_histories_not_listed(more than %d with the same classification in one work item)"
                  % MAX_PER_SIG, suppressed)
    for k, v in sorted(total.op_hist.items()):
        ctx.count("op_" + str(k), v)
    if "bad" in total.op_hist:
        ctx.count("failed_allocation_probes(4 initializers or 4x2 alloc functions per op_bad)", total.op_hist["bad"] * 6)
    for k, v in sorted(outcomes.items()):
        ctx.count("states_after_" + k, v)
    for smp in total.samples:
        ctx.sample({"history": smp})
    if not total.samples:
        ctx.sample({"note": "see class_histogram"})
    cov = {
        "states": total.states, "transitions": total.transitions,
        "traces_validated_against_impl": total.transitions,
        "max_depth": total.max_depth,
        "unmerged_depth_d0": {"%s_depth%d%s" % (p[0], p[1], "_from_chain" if p[3] else ""): p[2] for p in plans},
        "initial_states": ["empty", "chain x <- gc(x) <- gc(gc(x))"],
        "merged_states_skipped": total.merged,
        "histories_closed": total.histories_closed,
        "evaluations": total.transitions, "distinct_nontrivial": total.states,
        "rule": "a state is an operation history (merged by model key beyond d0); every transition executes the real "
                "operation on fresh real objects and the counting model in lock-step.  Families: full/core (the "
                "original alphabet), alloc (allocator kinds x allocation shapes, failing initializers and failing "
                "alloc(), release/with/gc(None) on every object), dtor (raising / cdata-callback / bound-method / "
                "partial destructors, raising with-bodies), buf (from_buffer forms x sources, gc and ffi.buffer over "
                "them, source cycles, PEP 688 release counter), handle (private / cyclic / None / cdata targets, gc "
                "over handles); each on the front ends inline and out-of-line, in the collection modes none / every "
                "step / automatic, with gc.collect(0|1) steps",
        "plan": [{"alphabet": a, "depth": d, "d0": z, "from_chain": bool(pre), "fronts": list(fr), "modes": list(mo),
                  "allocators": list(al)} for a, d, z, pre, fr, mo, al in plans],
        "exhaustive": True,
    }
    return ctx.finish(cov, ["CPython refcounting; collections happen where a history says so (modes none/every) or at "
                            "any allocation (mode auto, threshold 1); objects that exist before the search starts are "
                            "gc.freeze()-d"])


def _run_history(cfg, ops, verbose=True):
    s = Sys(cfg)
    bad = None
    for op in ops:
        if op not in s.enabled():
            if verbose:
                print("op", op, "not enabled in this configuration")
            return None
        bad = s.apply(op)
        if verbose:
            print(op, "->", bad)
        if bad:
            return bad
    bad = s.close()
    if verbose:
        print("<close> ->", bad)
    return bad


def replay(detail):
    setup()
    cfg = detail.get("cfg") or (detail.get("info") or {}).get("cfg")
    h = detail.get("history")
    if h is None and detail.get("last_history") and cfg:
        # a crash: re-run the journalled history in a child process
        import ast
        ops = [_tuplify(o) for o in ast.literal_eval(detail["last_history"])]
        cfg = {k: v for k, v in cfg.items() if k not in ("part", "depth", "plan")}
        print("cfg", cfg, "history", ops)
        sys.stdout.flush()
        pid = os.fork()
        if pid == 0:
            try:
                _run_history(cfg, ops)
            finally:
                sys.stdout.flush()
                os._exit(0)
        _, status = os.waitpid(pid, 0)
        print("child status", status)
        return 1 if os.WIFSIGNALED(status) or os.WEXITSTATUS(status) != 0 else 0
    if h is None:
        print(detail)
        return 1
    ops = [_tuplify(o) for o in h if _tuplify(o) != ("<close>",)]
    if cfg:
        cfgs = [{k: v for k, v in cfg.items() if k not in ("part", "depth", "plan")}]
    else:
        cfgs = [{"collect_every": False, "alpha": "full"}, {"collect_every": True, "alpha": "full"}]
    for c in cfgs:
        print("cfg", c)
        if _run_history(c, ops):
            return 1
    return 0
