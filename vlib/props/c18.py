"""C18 -- ffi.unpack(p, n) equals [p[i] for i in range(n)].

E1: every item type (all primitives, pointers, structs, unions, arrays, enums,
_Bool, characters, complex) x contents over a byte alphabet (all fillings of
one small item, structured fillings of large ones, all triples over a per-type
item alphabet) x start offsets 0..8 from a 16-aligned address inside a
bytearray (drives ALIGNMENT_CHECK both ways for every fast path) x n in
{0, 1, 3} x {pointer cdata, array cdata}.  Oracle: the element-wise read,
including the exception type when an element cannot be converted.

Audit-round families (module _c18x.py, large lengths in _large.py:c18): twenty
further kinds of pointer / array cdata p, the forms of the length argument, the
ffi of a compiled module (lazy structs, compiler-sized enums and typedefs, the
C-level entry point), n = 0 on NULL and on items of unknown size, zero-sized
items, long arrays with a non-convertible element first / last.
"""
import ctypes
import itertools
import json
import os
import struct

from .. import pool
from ..build import InfraError

ID = "C18"
LEVEL = "exploration"
META = dict(
    engine="E1-enum", level="exploration",
    technique="exhaustive enumeration of item types x byte contents x start alignments x lengths x kinds of cdata, "
              "ffi.unpack compared with the element-wise read",
    text="For 65 item types (80 in the thorough tier: every name of the primitive-type table incl. _Bool, long double, "
         "complex, the character types and the least/fast/max aliases, pointers incl. pointers to arrays and to opaque "
         "structs, function pointers, structs incl. packed, empty, bitfield, flexible-tail and long-double ones, unions, "
         "arrays, enums of four base types) memory inside a bytearray is filled with every combination of the bytes "
         "00 01 02 7F 80 FF for items up to 4 bytes, with structured fillings (every background x every single-byte "
         "deviation) and IEEE/surrogate specials for larger ones, and with every triple over a per-type item alphabet; "
         "ffi.unpack(p, n) for n in {0, 1, 3} is compared with [p[i] for i in range(n)] at start offsets 0..8 from a "
         "16-byte boundary, for p a pointer and for p an array cdata: same values (same Python types, same cdata types "
         "and addresses, NaN and long double compared bitwise) or the same exception type.  Further exhaustive families: "
         "(forms) 20 more kinds of p -- ffi.new arrays of exact / larger / open length, ffi.new pointers, ffi.gc and "
         "allocator objects, field arrays and flexible tails of normal and packed structs (owning and cast), slices, "
         "longer and fixed-length from_buffer arrays, dereferenced pointers to arrays, element addresses -- for every "
         "item type x all tuples over the item alphabet, aligned and misaligned; (nforms) the length as keyword, int "
         "subclass, __index__ object, bool, and through _cffi_backend.unpack; (compiled) the ffi of a compiled module: "
         "90 struct types each met for the first time (field list still lazy, measured) by unpack or by p[0], 1- and "
         "2-byte enums and 'typedef int...' types sized by the C compiler, positional and keyword calls of the C-level "
         "entry point; (boundary) n = 0 on NULL pointers and on void / opaque-struct pointers, zero-sized items; (large) "
         "19 item types x lengths around 2**8, 2**10, 2**16 incl. a non-convertible element first / last.",
    note="both sides are cffi (the statement is a differential one); the start address is measured with ctypes; for "
         "items of unknown size (void, opaque structs) only n = 0 is inside the statement (n >= 1: no number of such "
         "items lies 'within its memory'; the outcomes are recorded in the histogram only); n >= 1 at a NULL pointer is "
         "never executed; quick tier about 25 s, thorough tier about 2-3 min (18 million evaluations) on the 16-core machine")

ALPH = (0x00, 0x01, 0x02, 0x7F, 0x80, 0xFF)

CDEF = """
struct S1 { char c; };
struct S4 { short h; char c; };
struct S16 { long long q; char c; };
struct SP { int *p; };
union U8 { int a; char b[5]; };
enum E { EA, EB };
enum F { FA = -1, FB };
enum G { GA = 0x100000000 };
enum H { HA = -1, HB = 0x100000000 };
struct Opaque;
struct Empty { };
struct FX { int n; char tail[]; };
struct BF { int a:3; int b:5; unsigned c:9; };
struct LD { long double x; char c; };
"""
CDEF_PACKED = "struct P5 { char c; int i; };"

# (item type, class)
TYPES = [
    ("char", "char"), ("signed char", "sint"), ("unsigned char", "uint"), ("short", "sint"),
    ("unsigned short", "uint"), ("int", "sint"), ("unsigned int", "uint"), ("long", "sint"),
    ("unsigned long", "uint"), ("long long", "sint"), ("unsigned long long", "uint"),
    ("float", "float"), ("double", "float"), ("long double", "longdouble"), ("_Bool", "bool"),
    ("wchar_t", "wchar"), ("char16_t", "wchar"), ("char32_t", "wchar"),
    ("float _Complex", "complex"), ("double _Complex", "complex"),
    ("int8_t", "sint"), ("uint8_t", "uint"), ("int16_t", "sint"), ("uint16_t", "uint"), ("int32_t", "sint"),
    ("uint32_t", "uint"), ("int64_t", "sint"), ("uint64_t", "uint"), ("size_t", "uint"), ("ssize_t", "sint"),
    ("intptr_t", "sint"), ("uintptr_t", "uint"),
    ("void *", "pointer"), ("char *", "pointer"), ("int *", "pointer"), ("struct S4 *", "pointer"),
    ("int **", "pointer"), ("int(*)(int)", "funcptr"), ("void(*)(void)", "funcptr"),
    ("struct S1", "struct"), ("struct S4", "struct"), ("struct S16", "struct"), ("struct SP", "struct"),
    ("struct P5", "struct"), ("union U8", "union"),
    ("int[2]", "array"), ("char[3]", "array"), ("struct S4[2]", "array"), ("double[1]", "array"),
    ("int[2][2]", "array"),
    ("enum E", "enum"), ("enum F", "enum"), ("enum G", "enum"), ("enum H", "enum"),
    # audit round (gap 5): pointer items whose own item is an array / has unknown size, a qualified item, a
    # struct of size 1 without fields, a struct whose size excludes its flexible tail, bitfields, long double member
    ("int(*)[3]", "pointer"), ("struct Opaque *", "pointer"), ("const int", "sint"),
    ("struct Empty", "struct"), ("struct FX", "struct"), ("struct BF", "struct"), ("struct LD", "struct"),
    # ... and four of the remaining primitive names of the table in _cffi_backend.c (each has its own size/align entry)
    ("intmax_t", "sint"), ("ptrdiff_t", "sint"), ("int_fast16_t", "sint"), ("uint_least8_t", "uint"),
]
NQUICK = len(TYPES)
# the other fifteen names: thorough tier only
TYPES += [(pre + "int_" + mid + w + "_t", "uint" if pre else "sint")
          for mid in ("least", "fast") for w in ("8", "16", "32", "64") for pre in ("", "u")
          if pre + "int_" + mid + w + "_t" not in ("int_fast16_t", "uint_least8_t")] + [("uintmax_t", "uint")]
EXCLUDED = ["void", "struct Opaque"]      # items of unknown size: only n = 0 is inside the statement (see _c18x.py)


def ntypes(quick):
    return NQUICK if quick else len(TYPES)



def offsets(quick):
    return tuple(range(9)) if quick else tuple(range(17))


def lengths(quick):
    return (0, 1, 3) if quick else (0, 1, 2, 3, 4)


class _St(object):
    pass


_ST = None


def mkstate(ffi, types):
    """The fixed memory (one bytearray, pinned, its address known through ctypes) and the per-type facts for one
    FFI object (the in-line one below, or the ffi of a compiled module in _c18x.py)."""
    st = _St()
    st.pid = os.getpid()
    st.ffi = ffi
    st.ba = bytearray(512)
    st.pin = ctypes.c_char.from_buffer(st.ba)
    addr = ctypes.addressof(st.pin)
    st.pad = (-addr) % 16 + 16
    st.addr = addr
    st.cbase = ffi.from_buffer("char[]", st.ba)
    st.mv = memoryview(st.ba)
    st.uintptr = ffi.typeof("uintptr_t")
    st.ldp = ffi.new("long double *")
    st.info = {}
    for ent in types:
        T = ent[0]
        if len(ent) == 4:
            # size and alignment given by the caller (ffi.sizeof / alignof would force a lazy struct of a compiled module)
            st.info[T] = (ent[2], ent[3], ffi.typeof(ffi.getctype(T, "*")), ffi.typeof(T).kind)
        else:
            st.info[T] = (ffi.sizeof(T), ffi.alignof(T), ffi.typeof(ffi.getctype(T, "*")), ffi.typeof(T).kind)
    return st


def state():
    global _ST
    if _ST is not None and _ST.pid == os.getpid():
        return _ST
    import cffi
    ffi = cffi.FFI()
    ffi.cdef(CDEF)
    ffi.cdef(CDEF_PACKED, packed=True)
    _ST = mkstate(ffi, TYPES)
    return _ST


# ---------------------------------------------------------------------------- contents

def item_fillings(T, cls, size, quick):
    """Byte strings for ONE item."""
    cap = 4 if quick else 5
    out = []
    seen = set()

    def add(b):
        if b not in seen:
            seen.add(b)
            out.append(b)
    if size <= cap:
        for t in itertools.product(ALPH, repeat=size):
            add(bytes(t))
    else:
        for bg in ALPH:
            add(bytes([bg]) * size)
        for bg in (0x00, 0xFF, 0x7F, 0x80):
            for pos in range(size):
                for v in ALPH:
                    b = bytearray([bg]) * size
                    b[pos] = v
                    add(bytes(b))
        # top two bytes together (sign/exponent of the big types)
        for a, b_ in itertools.product(ALPH, repeat=2):
            b = bytearray(size)
            b[size - 1] = a
            b[size - 2] = b_
            add(bytes(b))
        if not quick:
            # every pair of positions x every pair of values on two backgrounds
            for bg in (0x00, 0xFF):
                for i, j in itertools.combinations(range(size), 2):
                    for a, b_ in itertools.product(ALPH, repeat=2):
                        b = bytearray([bg]) * size
                        b[i] = a
                        b[j] = b_
                        add(bytes(b))
    for b in specials(T, cls, size):
        add(b)
    return out


def specials(T, cls, size):
    out = []
    if T == "float":
        for v in (1.0, -0.0, 0.1, float("inf"), float("-inf"), float("nan")):
            out.append(struct.pack("<f", v))
        out += [bytes.fromhex("01000000"), bytes.fromhex("0100807f"), bytes.fromhex("ffff7f7f")]
    elif T == "double":
        for v in (1.0, -0.0, 0.1, float("inf"), float("-inf"), float("nan"), 5e-324, 1.7976931348623157e308):
            out.append(struct.pack("<d", v))
        out.append(bytes.fromhex("010000000000f07f"))
    elif T == "long double":
        for h in ("0000000000000080ff3f", "0000000000000080ff7f", "00000000000000c0ff7f", "0100000000000000" "0000",
                  "0000000000000080ff" "bf", "ffffffffffffffff" "fe7f"):
            out.append(bytes.fromhex(h) + b"\x00" * 6)
            out.append(bytes.fromhex(h) + b"\xff" * 6)
    elif T in ("float _Complex", "double _Complex"):
        f = "<f" if size == 8 else "<d"
        for re_, im in ((1.0, 2.0), (float("nan"), 0.0), (0.0, float("inf")), (-0.0, 0.0)):
            out.append(struct.pack(f, re_) + struct.pack(f, im))
    elif cls == "wchar":
        vals = [0x41, 0xD7FF, 0xD800, 0xDBFF, 0xDC00, 0xDFFF, 0xE000, 0xFFFF]
        if size == 4:
            vals += [0x10000, 0x10FFFF, 0x110000, 0x7FFFFFFF, 0x80000000]
        for v in vals:
            out.append(v.to_bytes(size, "little"))
    return out


def item_alphabet(T, cls, size):
    """Small per-type alphabet of items for the n = 3 triples."""
    z = bytes(size)
    one = b"\x01" + bytes(size - 1)
    two = b"\x02" + bytes(size - 1)
    ff = b"\xff" * size
    top7f = b"\xff" * (size - 1) + b"\x7f"
    top80 = bytes(size - 1) + b"\x80"
    al = [z, one, two, ff, top7f, top80]
    if cls == "wchar":
        al += [v.to_bytes(size, "little") for v in (0xD800, 0xDC00)]
        if size == 4:
            al.append((0x10FFFF).to_bytes(4, "little"))
    elif T == "float":
        al += [struct.pack("<f", 1.5), struct.pack("<f", float("nan"))]
    elif T == "double":
        al += [struct.pack("<d", 1.5), struct.pack("<d", float("nan"))]
    out = []
    for b in al:
        if b not in out:
            out.append(b)
    return out


# ---------------------------------------------------------------------------- observation

def canon(st, x):
    """A comparable, printable image of one result element."""
    ffi = st.ffi
    if x is True or x is False:
        return ("bool", x)
    if isinstance(x, int):
        return ("int", x)
    if isinstance(x, float):
        return ("float", struct.pack("<d", x).hex())
    if isinstance(x, complex):
        return ("complex", struct.pack("<dd", x.real, x.imag).hex())
    if isinstance(x, bytes):
        return ("bytes", x.hex())
    if isinstance(x, str):
        try:
            return ("str", x.encode("utf-32-le", "surrogatepass").hex())
        except Exception as e:
            return ("corrupt-str", type(e).__name__)
    if isinstance(x, ffi.CData):
        ct = ffi.typeof(x)
        k = ct.kind
        if k in ("pointer", "function", "array"):
            return ("cdata", ct.cname, int(ffi.cast(st.uintptr, x)))
        if k in ("struct", "union"):
            return ("cdata", ct.cname, int(ffi.cast(st.uintptr, ffi.addressof(x))))
        if ct.cname == "long double":
            st.ldp[0] = x
            return ("cdata", ct.cname, bytes(ffi.buffer(st.ldp))[:10].hex())
        return ("cdata", ct.cname, repr(x))
    return ("other", repr(x))


def elementwise(st, p, n, ischar):
    try:
        items = [p[i] for i in range(n)]
        if ischar == "b":
            return ("val", canon(st, b"".join(items)))
        if ischar == "u":
            return ("val", canon(st, "".join(items)))
        return ("val", [canon(st, x) for x in items])
    except Exception as e:
        return ("exc", type(e).__name__)


def unpacked(st, p, n, ischar, call=None):
    """call: optional thunk that performs the unpack() (other entry points / forms of the length argument)."""
    try:
        r = st.ffi.unpack(p, n) if call is None else call()
        if ischar:
            return ("val", canon(st, r))
        if type(r) is not list:
            return ("val", ("not-a-list", canon(st, r)))
        return ("val", [canon(st, x) for x in r])
    except Exception as e:
        return ("exc", type(e).__name__)


def utf16_pair_inside(content, n):
    u = struct.unpack("<%dH" % n, content[:2 * n])
    return any(0xD800 <= a <= 0xDBFF and 0xDC00 <= b <= 0xDFFF for a, b in zip(u, u[1:]))


def out_of_range_char32(content, n):
    u = struct.unpack("<%dI" % n, content[:4 * n])
    return any(x > 0x10FFFF for x in u)


def ischar_of(T, cls):
    return "b" if T == "char" else "u" if cls == "wchar" else ""


def classify(st, cls, size, aligned, content, n, want, got, T):
    """The structured signature of one mismatch (want = element-wise outcome, got = unpack outcome)."""
    sig = {"class": cls, "size": size, "aligned": aligned}
    if want[0] == "val" and got[0] == "val":
        sig["kind"] = "value_mismatch"
        if T == "char16_t" and utf16_pair_inside(content, n):
            # decide structurally: the only difference is that unpack() joined high+low units
            import vlib.props.c15 as c15
            units = list(struct.unpack("<%dH" % n, content[:2 * n]))
            joined = c15.dec(2, "w", units)
            if got[1] == canon(st, joined):
                sig = {"kind": "char16_surrogate_pair_joined"}
    elif want[0] == "exc" and got[0] == "val":
        sig["kind"] = "unpack_succeeds_where_item_read_raises"
        sig["exc"] = want[1]
        if cls == "wchar" and size == 4 and want[1] == "SystemError" and out_of_range_char32(content, n):
            sig = {"kind": "unpack_succeeds_where_item_read_raises", "cause": "char32_code_point_above_0x10FFFF",
                   "exc": "SystemError"}
    elif want[0] == "val" and got[0] == "exc":
        sig["kind"] = "unpack_raises_where_item_read_succeeds"
        sig["exc"] = got[1]
    else:
        sig["kind"] = "different_exception_type"
        sig["exc"] = [want[1], got[1]]
    return sig


def one(st, T, cls, content, n, off, form, unpack_first=False):
    """Returns (problem or None, aligned flag)."""
    ffi = st.ffi
    size, align, ptype, kind = st.info[T]
    start = st.pad + off
    nb = n * size
    ba = st.ba
    ba[start - 8:start] = b"\xee" * 8
    ba[start:start + nb] = content[:nb]
    ba[start + nb:start + nb + 16] = b"\xee" * 16
    aligned = (st.addr + start) % align == 0
    call = None
    if form == "pointer":
        p = ffi.cast(ptype, st.cbase + start)
    elif form == "pointer_kw":
        p = ffi.cast(ptype, st.cbase + start)
        call = lambda: ffi.unpack(length=n, cdata=p)
    else:
        p = ffi.from_buffer(ffi.getctype(T, "[]"), st.mv[start:start + nb])
        if len(p) != n:
            raise InfraError("from_buffer gave length %d, wanted %d" % (len(p), n))
    ischar = ischar_of(T, cls)
    if unpack_first:
        got = unpacked(st, p, n, ischar, call)
        want = elementwise(st, p, n, ischar)
    else:
        want = elementwise(st, p, n, ischar)
        got = unpacked(st, p, n, ischar, call)
    if got == want:
        return None, aligned
    sig = classify(st, cls, size, aligned, content, n, want, got, T)
    return (sig, {"type": T, "content": content[:nb], "n": n, "offset": off, "form": form,
                  "unpack": got, "elementwise": want}), aligned


def contents_for(T, cls, size, n, quick):
    if n == 0:
        return [b""]
    if n == 1:
        return item_fillings(T, cls, size, quick)
    al = item_alphabet(T, cls, size)
    return [b"".join(t) for t in itertools.product(al, repeat=n)]


class _Recorder(object):
    """Stands in for ctx when _large.c18 runs in a pool worker (or in replay)."""

    def __init__(self):
        self.counts = {}
        self.bad = {}

    def count(self, key, n=1):
        self.counts[key] = self.counts.get(key, 0) + n

    def violation(self, sig, detail):
        ent = self.bad.setdefault(json.dumps(sig, sort_keys=True), [sig, 0, []])
        ent[1] += 1
        if len(ent[2]) < 2:
            ent[2].append(detail)


def work(item):
    if item[0] == "large":
        from . import _large
        rec = _Recorder()
        n = _large.c18(rec)       # lengths on both sides of 2**8, 2**10, 2**16 (see _large.py)
        return n, n, rec.counts, list(rec.bad.values()), 0
    if isinstance(item[0], str):
        from . import _c18x
        return _c18x.work(item)
    ti, n, quick = item
    st = state()
    T, cls = TYPES[ti]
    size = st.info[T][0]
    counts = {}
    bad = {}
    ncases = 0
    distinct = set()
    cont = contents_for(T, cls, size, n, quick)
    for content in cont:
        for off in offsets(quick):
            for form in ("pointer", "array"):
                ncases += 1
                prob, aligned = one(st, T, cls, content, n, off, form)
                k = "%s/%d/%s" % (cls, size, "aligned" if aligned else "misaligned")
                counts[k] = counts.get(k, 0) + 1
                if n > 0:
                    distinct.add((content, aligned))
                if prob is not None:
                    sig, detail = prob
                    key = json.dumps(sig, sort_keys=True)
                    ent = bad.setdefault(key, [sig, 0, []])
                    ent[1] += 1
                    if len(ent[2]) < 2:
                        ent[2].append(detail)
    # outcome classes of the element-wise read (vacuity: how often does it raise?)
    return ncases, len(distinct), counts, list(bad.values()), len(cont)


def run(ctx):
    from . import _c18x
    st = state()
    items = []
    for ti, (T, cls) in enumerate(TYPES[:ntypes(ctx.quick)]):
        for n in lengths(ctx.quick):
            items.append((ti, n, ctx.quick))
    items.sort(key=lambda it: (-it[1], -st.info[TYPES[it[0]][0]][0]))
    xitems = _c18x.items(ctx.quick)       # audit-round families (see _c18x.py); the compiled module goes first
    items = xitems[:1] + [("large",)] + items + xitems[1:]
    famtot = {}
    tot = nontriv = ncont = 0
    allbad = {}
    for item, r in pool.pmap(work, [[it] for it in items]):
        if isinstance(r, pool.WorkerError):
            raise InfraError(r.tb)
        if isinstance(r, pool.Crash):
            raise InfraError("worker crashed on %r: %s" % (item, r.describe()))
        nc, nd, counts, bad, nco = r
        tot += nc
        nontriv += nd
        ncont += nco
        for k, v in counts.items():
            ctx.count(k, v)
        if isinstance(item[0], str):
            famtot[item[0]] = famtot.get(item[0], 0) + nc
            ctx.count("family/" + item[0], nc)
            if item[0] == "forms":
                T, cls = TYPES[item[1]]
                ctx.sample({"family": "forms", "item_type": T, "kinds_of_cdata": list(_c18x.FORMS),
                            "offsets_for_non_owning_kinds": list(_c18x.form_offsets(ctx.quick)),
                            "n": list(lengths(ctx.quick)), "cases": nc})
            elif item[0] != "large":
                ctx.sample({"family": item[0], "cases": nc, "classes": sorted(counts)[:12]})
        else:
            ctx.count("n=%d" % item[1], nc)
        for sig, cnt, details in bad:
            ent = allbad.setdefault(json.dumps(sig, sort_keys=True), [sig, 0, []])
            ent[1] += cnt
            ent[2].extend(details)
        if not isinstance(item[0], str) and item[1] == 3:
            T, cls = TYPES[item[0]]
            ctx.sample({"item_type": T, "n": 3, "item_alphabet": [b.hex() for b in item_alphabet(T, cls, st.info[T][0])],
                        "offsets": list(offsets(ctx.quick)), "forms": ["pointer", "array"]})
    ctx.count("item_types_of_unknown_size_only_n0_inside_statement", len(EXCLUDED))
    for key in sorted(allbad):
        sig, cnt, details = allbad[key]
        details.sort(key=lambda d: (d["n"], len(d.get("content", b"")), d.get("content", b""),
                                    d.get("type") or d.get("T"), d["offset"], d.get("form", "")))
        for i in range(cnt):
            ctx.violation(sig, details[min(i, 2, len(details) - 1)])
    nt = ntypes(ctx.quick)
    cov = {
        "evaluations": tot,
        "distinct_nontrivial": nontriv,
        "item_types": nt,
        "contents": ncont,
        "evaluations_by_family": dict(famtot, main=tot - sum(famtot.values())),
        "rule": "main: %d item types x contents x start offsets 0..%d from a 16-byte boundary x n in %s x {pointer cdata, "
                "array cdata from ffi.from_buffer}; contents for n=1: all 6^size fillings over {00,01,02,7F,80,FF} for "
                "size <= %d, else every background x single-byte deviation + top-two-bytes%s + IEEE / surrogate / "
                "out-of-range specials; for n>1: all n-tuples over a per-type item alphabet of 6-9 items.  forms: the "
                "same item types x n x %d kinds of cdata (%s) x start offsets %s for the non-owning kinds (the owning "
                "ones: where the allocator puts them, alignment measured) x contents: the item alphabet and specials "
                "for n=1, all n-tuples over the item alphabet for n=2,3, over its first four items for n=4.  nforms: "
                "%s x item types %s x offsets x n.  compiled: one API-mode module; %d lazy struct cells (struct, packed "
                "struct, union, nested struct, pointer-to-struct item) x {pointer, keyword call, array} x n in {0,1,3} "
                "x {unpack first, p[i] first} and %d compiler-sized enum / typedef / partial-struct item types with "
                "the main contents.  boundary: every item type + %s x {NULL, valid} x n=0; zero-sized items %s x n in "
                "{1,3} x offsets.  large: see _large.py:c18.  non-trivial = n > 0, counted as distinct (family, type "
                "or kind of cdata, n, content, aligned-or-not) combinations" % (
                    nt, offsets(ctx.quick)[-1], list(lengths(ctx.quick)), 4 if ctx.quick else 5,
                    "" if ctx.quick else " + every pair of positions x pair of values on backgrounds 00/FF",
                    len(_c18x.FORMS), ", ".join(_c18x.FORMS), list(_c18x.form_offsets(ctx.quick)),
                    "/".join(_c18x.NFORMS), ", ".join(_c18x.NFORM_TYPES), len(_c18x.lazy_cells(ctx.quick)),
                    len(_c18x.COMPILED_SCALARS), ", ".join(EXCLUDED), ", ".join(_c18x.ZERO_SIZED)),
        "exhaustive": True,
        "excluded": "n >= 1 on item types of unknown size (%s): no such n lies within their memory (outcomes recorded "
                    "in the histogram under outside_statement/); n >= 1 at a NULL pointer (never executed)" % (
                        ", ".join(EXCLUDED)),
    }
    return ctx.finish(cov, ["the element-wise read p[i] is the reference the statement names",
                            "the alignment of the start address is measured with ctypes.addressof (main family) or "
                            "taken from the address of p (owning kinds of cdata)",
                            "n = 0 is inside the statement for every pointer, NULL and unknown item size included "
                            "(the statement says 'any n >= 0')"])


def replay(detail):
    if detail.get("large"):
        from . import _large
        rec = _Recorder()
        _large.c18(rec, only=(detail["T"], detail["n"], detail["offset"], detail.get("bad_at")))
        print("large family: item type %s, n=%d, byte offset %d, non-convertible element at %s: cases run %r" % (
            detail["T"], detail["n"], detail["offset"], detail.get("bad_at"), rec.counts))
        for sig, cnt, details in rec.bad.values():
            print("VIOLATED", sig, details[0])
        return 1 if rec.bad else 0
    if detail.get("family"):
        from . import _c18x
        return _c18x.replay(detail)
    st = state()
    T = detail["type"]
    cls = dict(TYPES)[T]
    content = detail["content"]
    print("item type %s, n=%d, start offset %d, form %s, bytes %s" % (T, detail["n"], detail["offset"], detail["form"],
                                                                     content.hex()))
    prob, aligned = one(st, T, cls, content, detail["n"], detail["offset"], detail["form"])
    if prob is None:
        print("no mismatch")
        return 0
    print("aligned:", aligned)
    print("MISMATCH", prob[0])
    print("  ffi.unpack      ->", prob[1]["unpack"])
    print("  [p[i] for i...] ->", prob[1]["elementwise"])
    return 1
