"""C18 -- ffi.unpack(p, n) equals [p[i] for i in range(n)].

E1: every item type (all primitives, pointers, structs, unions, arrays, enums,
_Bool, characters, complex) x contents over a byte alphabet (all fillings of
one small item, structured fillings of large ones, all triples over a per-type
item alphabet) x start offsets 0..8 from a 16-aligned address inside a
bytearray (drives ALIGNMENT_CHECK both ways for every fast path) x n in
{0, 1, 3} x {pointer cdata, array cdata}.  Oracle: the element-wise read,
including the exception type when an element cannot be converted.
"""
import ctypes
import itertools
import json
import os
import struct

from .. import pool
from ..build import InfraError

ID = "C18"
LEVEL = "exploration"
META = dict(
    engine="E1-enum", level="exploration",
    technique="exhaustive enumeration of item types x byte contents x start alignments x lengths, ffi.unpack compared "
              "with the element-wise read",
    text="For about 50 item types (every primitive type incl. _Bool, long double, complex and the character types, "
         "pointers, function pointers, structs, packed structs, unions, arrays, enums of four base types) memory "
         "inside a bytearray is filled with every combination of the bytes 00 01 02 7F 80 FF for items up to 4 bytes, "
         "with structured fillings (every background x every single-byte deviation) and IEEE/surrogate specials for "
         "larger ones, and with every triple over a per-type item alphabet; ffi.unpack(p, n) for n in {0, 1, 3} is "
         "compared with [p[i] for i in range(n)] at start offsets 0..8 from a 16-byte boundary, for p a pointer and "
         "for p an array cdata: same values (same Python types, same cdata types and addresses, NaN and long double "
         "compared bitwise) or the same exception type.",
    note="both sides are cffi (the statement is a differential one); the start address is measured with ctypes; "
         "items of unknown size (void, opaque structs) are excluded: no n > 0 lies within their memory")

ALPH = (0x00, 0x01, 0x02, 0x7F, 0x80, 0xFF)

CDEF = """
struct S1 { char c; };
struct S4 { short h; char c; };
struct S16 { long long q; char c; };
struct SP { int *p; };
union U8 { int a; char b[5]; };
enum E { EA, EB };
enum F { FA = -1, FB };
enum G { GA = 0x100000000 };
enum H { HA = -1, HB = 0x100000000 };
"""
CDEF_PACKED = "struct P5 { char c; int i; };"

# (item type, class)
TYPES = [
    ("char", "char"), ("signed char", "sint"), ("unsigned char", "uint"), ("short", "sint"),
    ("unsigned short", "uint"), ("int", "sint"), ("unsigned int", "uint"), ("long", "sint"),
    ("unsigned long", "uint"), ("long long", "sint"), ("unsigned long long", "uint"),
    ("float", "float"), ("double", "float"), ("long double", "longdouble"), ("_Bool", "bool"),
    ("wchar_t", "wchar"), ("char16_t", "wchar"), ("char32_t", "wchar"),
    ("float _Complex", "complex"), ("double _Complex", "complex"),
    ("int8_t", "sint"), ("uint8_t", "uint"), ("int16_t", "sint"), ("uint16_t", "uint"), ("int32_t", "sint"),
    ("uint32_t", "uint"), ("int64_t", "sint"), ("uint64_t", "uint"), ("size_t", "uint"), ("ssize_t", "sint"),
    ("intptr_t", "sint"), ("uintptr_t", "uint"),
    ("void *", "pointer"), ("char *", "pointer"), ("int *", "pointer"), ("struct S4 *", "pointer"),
    ("int **", "pointer"), ("int(*)(int)", "funcptr"), ("void(*)(void)", "funcptr"),
    ("struct S1", "struct"), ("struct S4", "struct"), ("struct S16", "struct"), ("struct SP", "struct"),
    ("struct P5", "struct"), ("union U8", "union"),
    ("int[2]", "array"), ("char[3]", "array"), ("struct S4[2]", "array"), ("double[1]", "array"),
    ("int[2][2]", "array"),
    ("enum E", "enum"), ("enum F", "enum"), ("enum G", "enum"), ("enum H", "enum"),
]
EXCLUDED = ["void", "struct Opaque"]      # items of unknown size



def offsets(quick):
    return tuple(range(9)) if quick else tuple(range(17))


def lengths(quick):
    return (0, 1, 3) if quick else (0, 1, 2, 3, 4)


class _St(object):
    pass


_ST = None


def state():
    global _ST
    if _ST is not None and _ST.pid == os.getpid():
        return _ST
    import cffi
    st = _St()
    st.pid = os.getpid()
    ffi = cffi.FFI()
    ffi.cdef(CDEF)
    ffi.cdef(CDEF_PACKED, packed=True)
    st.ffi = ffi
    st.ba = bytearray(512)
    st.pin = ctypes.c_char.from_buffer(st.ba)
    addr = ctypes.addressof(st.pin)
    st.pad = (-addr) % 16 + 16
    st.addr = addr
    st.cbase = ffi.from_buffer("char[]", st.ba)
    st.mv = memoryview(st.ba)
    st.uintptr = ffi.typeof("uintptr_t")
    st.ldp = ffi.new("long double *")
    st.info = {}
    for T, cls in TYPES:
        st.info[T] = (ffi.sizeof(T), ffi.alignof(T), ffi.typeof(ffi.getctype(T, "*")), ffi.typeof(T).kind)
    _ST = st
    return st


# ---------------------------------------------------------------------------- contents

def item_fillings(T, cls, size, quick):
    """Byte strings for ONE item."""
    cap = 4 if quick else 5
    out = []
    seen = set()

    def add(b):
        if b not in seen:
            seen.add(b)
            out.append(b)
    if size <= cap:
        for t in itertools.product(ALPH, repeat=size):
            add(bytes(t))
    else:
        for bg in ALPH:
            add(bytes([bg]) * size)
        for bg in (0x00, 0xFF, 0x7F, 0x80):
            for pos in range(size):
                for v in ALPH:
                    b = bytearray([bg]) * size
                    b[pos] = v
                    add(bytes(b))
        # top two bytes together (sign/exponent of the big types)
        for a, b_ in itertools.product(ALPH, repeat=2):
            b = bytearray(size)
            b[size - 1] = a
            b[size - 2] = b_
            add(bytes(b))
        if not quick:
            # every pair of positions x every pair of values on two backgrounds
            for bg in (0x00, 0xFF):
                for i, j in itertools.combinations(range(size), 2):
                    for a, b_ in itertools.product(ALPH, repeat=2):
                        b = bytearray([bg]) * size
                        b[i] = a
                        b[j] = b_
                        add(bytes(b))
    for b in specials(T, cls, size):
        add(b)
    return out


def specials(T, cls, size):
    out = []
    if T == "float":
        for v in (1.0, -0.0, 0.1, float("inf"), float("-inf"), float("nan")):
            out.append(struct.pack("<f", v))
        out += [bytes.fromhex("01000000"), bytes.fromhex("0100807f"), bytes.fromhex("ffff7f7f")]
    elif T == "double":
        for v in (1.0, -0.0, 0.1, float("inf"), float("-inf"), float("nan"), 5e-324, 1.7976931348623157e308):
            out.append(struct.pack("<d", v))
        out.append(bytes.fromhex("010000000000f07f"))
    elif T == "long double":
        for h in ("0000000000000080ff3f", "0000000000000080ff7f", "00000000000000c0ff7f", "0100000000000000" "0000",
                  "0000000000000080ff" "bf", "ffffffffffffffff" "fe7f"):
            out.append(bytes.fromhex(h) + b"\x00" * 6)
            out.append(bytes.fromhex(h) + b"\xff" * 6)
    elif T in ("float _Complex", "double _Complex"):
        f = "<f" if size == 8 else "<d"
        for re_, im in ((1.0, 2.0), (float("nan"), 0.0), (0.0, float("inf")), (-0.0, 0.0)):
            out.append(struct.pack(f, re_) + struct.pack(f, im))
    elif cls == "wchar":
        vals = [0x41, 0xD7FF, 0xD800, 0xDBFF, 0xDC00, 0xDFFF, 0xE000, 0xFFFF]
        if size == 4:
            vals += [0x10000, 0x10FFFF, 0x110000, 0x7FFFFFFF, 0x80000000]
        for v in vals:
            out.append(v.to_bytes(size, "little"))
    return out


def item_alphabet(T, cls, size):
    """Small per-type alphabet of items for the n = 3 triples."""
    z = bytes(size)
    one = b"\x01" + bytes(size - 1)
    two = b"\x02" + bytes(size - 1)
    ff = b"\xff" * size
    top7f = b"\xff" * (size - 1) + b"\x7f"
    top80 = bytes(size - 1) + b"\x80"
    al = [z, one, two, ff, top7f, top80]
    if cls == "wchar":
        al += [v.to_bytes(size, "little") for v in (0xD800, 0xDC00)]
        if size == 4:
            al.append((0x10FFFF).to_bytes(4, "little"))
    elif T == "float":
        al += [struct.pack("<f", 1.5), struct.pack("<f", float("nan"))]
    elif T == "double":
        al += [struct.pack("<d", 1.5), struct.pack("<d", float("nan"))]
    out = []
    for b in al:
        if b not in out:
            out.append(b)
    return out


# ---------------------------------------------------------------------------- observation

def canon(st, x):
    """A comparable, printable image of one result element."""
    ffi = st.ffi
    if x is True or x is False:
        return ("bool", x)
    if isinstance(x, int):
        return ("int", x)
    if isinstance(x, float):
        return ("float", struct.pack("<d", x).hex())
    if isinstance(x, complex):
        return ("complex", struct.pack("<dd", x.real, x.imag).hex())
    if isinstance(x, bytes):
        return ("bytes", x.hex())
    if isinstance(x, str):
        try:
            return ("str", x.encode("utf-32-le", "surrogatepass").hex())
        except Exception as e:
            return ("corrupt-str", type(e).__name__)
    if isinstance(x, ffi.CData):
        ct = ffi.typeof(x)
        k = ct.kind
        if k in ("pointer", "function", "array"):
            return ("cdata", ct.cname, int(ffi.cast(st.uintptr, x)))
        if k in ("struct", "union"):
            return ("cdata", ct.cname, int(ffi.cast(st.uintptr, ffi.addressof(x))))
        if ct.cname == "long double":
            st.ldp[0] = x
            return ("cdata", ct.cname, bytes(ffi.buffer(st.ldp))[:10].hex())
        return ("cdata", ct.cname, repr(x))
    return ("other", repr(x))


def elementwise(st, p, n, ischar):
    try:
        items = [p[i] for i in range(n)]
        if ischar == "b":
            return ("val", canon(st, b"".join(items)))
        if ischar == "u":
            return ("val", canon(st, "".join(items)))
        return ("val", [canon(st, x) for x in items])
    except Exception as e:
        return ("exc", type(e).__name__)


def unpacked(st, p, n, ischar):
    try:
        r = st.ffi.unpack(p, n)
        if ischar:
            return ("val", canon(st, r))
        if type(r) is not list:
            return ("val", ("not-a-list", canon(st, r)))
        return ("val", [canon(st, x) for x in r])
    except Exception as e:
        return ("exc", type(e).__name__)


def utf16_pair_inside(content, n):
    u = struct.unpack("<%dH" % n, content[:2 * n])
    return any(0xD800 <= a <= 0xDBFF and 0xDC00 <= b <= 0xDFFF for a, b in zip(u, u[1:]))


def out_of_range_char32(content, n):
    u = struct.unpack("<%dI" % n, content[:4 * n])
    return any(x > 0x10FFFF for x in u)


def one(st, T, cls, content, n, off, form):
    """Returns (problem or None, aligned flag)."""
    ffi = st.ffi
    size, align, ptype, kind = st.info[T]
    start = st.pad + off
    nb = n * size
    ba = st.ba
    ba[start - 8:start] = b"\xee" * 8
    ba[start:start + nb] = content[:nb]
    ba[start + nb:start + nb + 16] = b"\xee" * 16
    aligned = (st.addr + start) % align == 0
    if form == "pointer":
        p = ffi.cast(ptype, st.cbase + start)
    else:
        p = ffi.from_buffer(ffi.getctype(T, "[]"), st.mv[start:start + nb])
        if len(p) != n:
            raise InfraError("from_buffer gave length %d, wanted %d" % (len(p), n))
    ischar = "b" if T == "char" else "u" if cls == "wchar" else ""
    want = elementwise(st, p, n, ischar)
    got = unpacked(st, p, n, ischar)
    if got == want:
        return None, aligned
    sig = {"class": cls, "size": size, "aligned": aligned}
    if want[0] == "val" and got[0] == "val":
        sig["kind"] = "value_mismatch"
        if T == "char16_t" and utf16_pair_inside(content, n):
            # decide structurally: the only difference is that unpack() joined high+low units
            import vlib.props.c15 as c15
            units = list(struct.unpack("<%dH" % n, content[:2 * n]))
            joined = c15.dec(2, "w", units)
            if got[1] == canon(st, joined):
                sig = {"kind": "char16_surrogate_pair_joined"}
    elif want[0] == "exc" and got[0] == "val":
        sig["kind"] = "unpack_succeeds_where_item_read_raises"
        sig["exc"] = want[1]
        if cls == "wchar" and size == 4 and want[1] == "SystemError" and out_of_range_char32(content, n):
            sig = {"kind": "unpack_succeeds_where_item_read_raises", "cause": "char32_code_point_above_0x10FFFF",
                   "exc": "SystemError"}
    elif want[0] == "val" and got[0] == "exc":
        sig["kind"] = "unpack_raises_where_item_read_succeeds"
        sig["exc"] = got[1]
    else:
        sig["kind"] = "different_exception_type"
        sig["exc"] = [want[1], got[1]]
    return (sig, {"type": T, "content": content[:nb], "n": n, "offset": off, "form": form,
                  "unpack": got, "elementwise": want}), aligned


def contents_for(T, cls, size, n, quick):
    if n == 0:
        return [b""]
    if n == 1:
        return item_fillings(T, cls, size, quick)
    al = item_alphabet(T, cls, size)
    return [b"".join(t) for t in itertools.product(al, repeat=n)]


def work(item):
    ti, n, quick = item
    st = state()
    T, cls = TYPES[ti]
    size = st.info[T][0]
    counts = {}
    bad = {}
    ncases = 0
    distinct = set()
    cont = contents_for(T, cls, size, n, quick)
    for content in cont:
        for off in offsets(quick):
            for form in ("pointer", "array"):
                ncases += 1
                prob, aligned = one(st, T, cls, content, n, off, form)
                k = "%s/%d/%s" % (cls, size, "aligned" if aligned else "misaligned")
                counts[k] = counts.get(k, 0) + 1
                if n > 0:
                    distinct.add((content, aligned))
                if prob is not None:
                    sig, detail = prob
                    key = json.dumps(sig, sort_keys=True)
                    ent = bad.setdefault(key, [sig, 0, []])
                    ent[1] += 1
                    if len(ent[2]) < 2:
                        ent[2].append(detail)
    # outcome classes of the element-wise read (vacuity: how often does it raise?)
    return ncases, len(distinct), counts, list(bad.values()), len(cont)


def run(ctx):
    from . import _large
    _large.c18(ctx)           # lengths on both sides of 2**8, 2**12, 2**16 (see _large.py)
    st = state()
    items = []
    for ti, (T, cls) in enumerate(TYPES):
        for n in lengths(ctx.quick):
            items.append((ti, n, ctx.quick))
    items.sort(key=lambda it: (-it[1], -st.info[TYPES[it[0]][0]][0]))
    tot = nontriv = ncont = 0
    allbad = {}
    for item, r in pool.pmap(work, [[it] for it in items]):
        if isinstance(r, pool.WorkerError):
            raise InfraError(r.tb)
        if isinstance(r, pool.Crash):
            raise InfraError("worker crashed on %r: %s" % (item, r.describe()))
        nc, nd, counts, bad, nco = r
        tot += nc
        nontriv += nd
        ncont += nco
        for k, v in counts.items():
            ctx.count(k, v)
        ctx.count("n=%d" % item[1], nc)
        for sig, cnt, details in bad:
            ent = allbad.setdefault(json.dumps(sig, sort_keys=True), [sig, 0, []])
            ent[1] += cnt
            ent[2].extend(details)
        if item[1] == 3:
            T, cls = TYPES[item[0]]
            ctx.sample({"item_type": T, "n": 3, "item_alphabet": [b.hex() for b in item_alphabet(T, cls, st.info[T][0])],
                        "offsets": list(offsets(ctx.quick)), "forms": ["pointer", "array"]})
    ctx.count("excluded_item_types_of_unknown_size", len(EXCLUDED))
    for key in sorted(allbad):
        sig, cnt, details = allbad[key]
        details.sort(key=lambda d: (d["n"], len(d["content"]), d["content"], d["type"], d["offset"], d["form"]))
        for i in range(cnt):
            ctx.violation(sig, details[min(i, 2, len(details) - 1)])
    cov = {
        "evaluations": tot,
        "distinct_nontrivial": nontriv,
        "item_types": len(TYPES),
        "contents": ncont,
        "rule": "%d item types x contents x start offsets 0..%d from a 16-byte boundary x n in %s x {pointer cdata, "
                "array cdata from ffi.from_buffer}; contents for n=1: all 6^size fillings over {00,01,02,7F,80,FF} for "
                "size <= %d, else every background x single-byte deviation + top-two-bytes%s + IEEE / surrogate / "
                "out-of-range specials; for n>1: all n-tuples over a per-type item alphabet of 6-9 items; non-trivial = "
                "n > 0, counted as distinct (type, n, content, aligned-or-not) combinations" % (
                    len(TYPES), offsets(ctx.quick)[-1], list(lengths(ctx.quick)), 4 if ctx.quick else 5,
                    "" if ctx.quick else " + every pair of positions x pair of values on backgrounds 00/FF"),
        "exhaustive": True,
        "excluded": "item types of unknown size (%s): no element lies within their memory" % ", ".join(EXCLUDED),
    }
    return ctx.finish(cov, ["the element-wise read p[i] is the reference the statement names",
                            "the alignment of the start address is measured with ctypes.addressof"])


def replay(detail):
    if detail.get("large"):
        from . import _large

        class _C(object):
            n = 0

            def count(self, *a):
                pass

            def violation(self, sig, d):
                _C.n += 1
                print("VIOLATED", sig, d)
        _large.c18(_C())
        return 1 if _C.n else 0
    st = state()
    T = detail["type"]
    cls = dict(TYPES)[T]
    content = detail["content"]
    print("item type %s, n=%d, start offset %d, form %s, bytes %s" % (T, detail["n"], detail["offset"], detail["form"],
                                                                     content.hex()))
    prob, aligned = one(st, T, cls, content, detail["n"], detail["offset"], detail["form"])
    if prob is None:
        print("no mismatch")
        return 0
    print("aligned:", aligned)
    print("MISMATCH", prob[0])
    print("  ffi.unpack      ->", prob[1]["unpack"])
    print("  [p[i] for i...] ->", prob[1]["elementwise"])
    return 1
