"""C10 -- enum values and underlying integer type match gcc, in three modes.

E1: every enumerator sequence up to a length over a value alphabet that
straddles the int / unsigned int / long / unsigned long boundaries, each
enumerator being an explicit value, implicit (previous + 1) or "= an earlier
enumerator".  Oracle: gcc -std=gnu11 (sizeof, signedness, every value);
sequences gcc rejects are excluded and counted.  ffi.string() of every value
of the enum and of two values outside it follows the first-declared rule.
"""
import contextlib
import ctypes
import importlib.util
import io
import itertools
import os
import re
import subprocess

from .. import build, cref, pool
from ..build import InfraError

ID = "C10"
LEVEL = "exploration"
META = dict(
    engine="E1-enum", level="exploration",
    technique="bounded exhaustive enumeration of enum declarations (all enumerator sequences up to a length over a "
              "boundary value alphabet incl. implicit and back-references) compared with gcc in in-line, out-of-line "
              "ABI and compiled API mode",
    text="All enumerator sequences of length <= 3 over 13 boundary values (-2^63 .. 2^64-1) + implicit + '= earlier "
         "name', and length 4 over a 6-value subset (thorough: length 4 over everything, length 5 over a 4-value subset), are "
         "declared in an in-line FFI, an out-of-line ABI module and a compiled API module; sizeof, signedness, every "
         "enumerator value (lib.X, integer_const, relements) and ffi.string() of every value and of two values outside "
         "the enum are compared with what gcc -std=gnu11 gives the same declaration.",
    note="gcc 12 -std=gnu11 on this machine is the authority, including for which declarations are valid at all")

# value alphabet: (label, value, C spelling valid for both gcc and the statement's literal forms)
VALUES = [
    ("-2^63", -2 ** 63, "(-9223372036854775807-1)"),
    ("-2^31-1", -2 ** 31 - 1, "-2147483649"),
    ("-2^31", -2 ** 31, "-2147483648"),
    ("-1", -1, "-1"),
    ("0", 0, "0"),
    ("1", 1, "1"),
    ("2^31-1", 2 ** 31 - 1, "2147483647"),
    ("2^31", 2 ** 31, "2147483648"),
    ("2^32-1", 2 ** 32 - 1, "4294967295"),
    ("2^32", 2 ** 32, "4294967296"),
    ("2^63-1", 2 ** 63 - 1, "9223372036854775807"),
    ("2^63", 2 ** 63, "9223372036854775808u"),
    ("2^64-1", 2 ** 64 - 1, "18446744073709551615u"),
]
SUBSET = [3, 4, 6, 7, 8, 11]        # -1, 0, 2^31-1, 2^31, 2^32-1, 2^63
SUBSET5 = [3, 6, 8, 11]             # -1, 2^31-1, 2^32-1, 2^63 (length 5, thorough)
LETTERS = "abcdefgh"
BLOCK = 400

# an enumerator: ("v", index into VALUES) | ("i",) | ("r", position of an earlier enumerator)


def sequences(length, alphabet):
    opts_v = [("v", i) for i in alphabet]

    def rec(prefix):
        if len(prefix) == length:
            yield tuple(prefix)
            return
        k = len(prefix)
        for o in opts_v + [("i",)] + [("r", j) for j in range(k)]:
            prefix.append(o)
            for s in rec(prefix):
                yield s
            prefix.pop()
    return rec([])


def enumerate_space(ctx):
    full = list(range(len(VALUES)))
    if ctx.quick:
        plan = [(1, full), (2, full), (3, full), (4, SUBSET)]
    else:
        plan = [(1, full), (2, full), (3, full), (4, full), (5, SUBSET5)]
    seen = set()
    out = []
    for n, alph in plan:
        for s in sequences(n, alph):
            if s not in seen:
                seen.add(s)
                out.append(s)
    return out, plan


def enum_text(seq, tag):
    parts = []
    for k, e in enumerate(seq):
        nm = "%s%s" % (tag, LETTERS[k])
        if e[0] == "v":
            parts.append("%s = %s" % (nm, VALUES[e[1]][2]))
        elif e[0] == "i":
            parts.append(nm)
        else:
            parts.append("%s = %s%s" % (nm, tag, LETTERS[e[1]]))
    return "enum %s { %s };" % (tag, ", ".join(parts))


def classes(seq):
    cl = []
    if any(e[0] == "i" for e in seq):
        cl.append("has_implicit")
    if any(e[0] == "r" for e in seq):
        cl.append("has_backref")
    return cl


# ---------------------------------------------------------------------------------------
# gcc

_r_diag = re.compile(r"^[^:\n]+:(\d+):\d+: (error|warning): (.*)$", re.M)
NO_TYPE = "enumeration values exceed range of largest integer"


def gcc_accepts(texts):
    """Which of the declarations (one per line) gcc -std=gnu11 has an answer for.
    -> list of None (accepted) | "error" | "no_type" (gcc itself says that no integer type can
    hold the values and truncates: the authority has no answer), plus other warnings seen."""
    fn = os.path.join(build.scratch(), "c10_acc_%d.c" % os.getpid())
    with open(fn, "w") as f:
        f.write("\n".join(texts) + "\n")
    p = subprocess.run(["gcc", "-std=gnu11", "-fsyntax-only", "-fno-diagnostics-show-caret", fn], stdout=subprocess.PIPE,
                       stderr=subprocess.PIPE, text=True)
    res = [None] * len(texts)
    other = set()
    nerr = 0
    for m in _r_diag.finditer(p.stderr):
        ln, sev, msg = int(m.group(1)), m.group(2), m.group(3)
        if not (1 <= ln <= len(texts)):
            raise InfraError("gcc diagnostic outside the declarations:\n" + p.stderr[-2000:])
        if sev == "error":
            res[ln - 1] = "error"
            nerr += 1
        elif NO_TYPE in msg:
            if res[ln - 1] is None:
                res[ln - 1] = "no_type"
        else:
            other.add(msg.strip())
    if (p.returncode != 0) != (nerr > 0):
        raise InfraError("cannot attribute gcc's verdict to declarations:\n" + p.stderr[-2000:])
    return res, sorted(other)


def gcc_facts(items):
    """items: [(tag, seq, text)] all accepted by gcc -> {tag: (size, signed, [values])}.
    The facts are constant initialisers of one table, compiled to a shared object and read
    with ctypes (no code to generate: several times cheaper than printing them)."""
    src = []
    cells = []
    for tag, seq, text in items:
        src.append(text + "\n")
        cells.append("sizeof(enum %s), ((enum %s)-1) < 0" % (tag, tag))
        for k in range(len(seq)):
            nm = tag + LETTERS[k]
            cells.append("%s < 0, (unsigned long long)%s" % (nm, nm))
    src.append("const unsigned long long c10_tab[] = {\n" + ",\n".join(cells) + "\n};\n")
    so = cref.compile_so("".join(src), flags=["-std=gnu11"], name="c10facts")
    lib = ctypes.CDLL(so)
    n = 2 * (len(items) + sum(len(seq) for _, seq, _ in items))
    tab = list((ctypes.c_ulonglong * n).in_dll(lib, "c10_tab"))
    for fn in (so, so + ".c"):
        try:
            os.unlink(fn)
        except OSError:
            pass
    res = {}
    pos = 0
    for tag, seq, text in items:
        size, signed = tab[pos], bool(tab[pos + 1])
        pos += 2
        values = []
        for k in range(len(seq)):
            v = tab[pos + 1]
            if tab[pos]:
                v -= 1 << 64
            values.append(v)
            pos += 2
        res[tag] = [size, signed, values]
    return res


# ---------------------------------------------------------------------------------------
# cffi, three modes

def _import(name, path):
    spec = importlib.util.spec_from_file_location(name, path)
    mod = importlib.util.module_from_spec(spec)
    spec.loader.exec_module(mod)
    return mod


_modcount = itertools.count()


def _err(e):
    return "error:%s: %s" % (type(e).__name__, str(e)[:200])


def open_mode(mode, items):
    """Declare all items in one FFI of the given mode -> (ffi, lib, has_integer_const)."""
    import cffi
    text = "\n".join(t for _, _, t in items) + "\n"
    f = cffi.FFI()
    f.cdef(text)
    if mode == "inline":
        return f, f.dlopen(None), False
    d = os.path.join(build.scratch(), "c10")
    os.makedirs(d, exist_ok=True)
    name = "c10_%s_%d_%d" % (mode, os.getpid(), next(_modcount))
    if mode == "abi":
        f.set_source(name, None)
        f.compile(tmpdir=d, verbose=0)
        m = _import(name, os.path.join(d, name + ".py"))
        return m.ffi, m.ffi.dlopen(None), True
    so = compile_api(f, name, text, d)
    m = _import(name, so)
    for fn in (so, os.path.join(d, name + ".c")):
        try:
            os.unlink(fn)
        except OSError:
            pass
    return m.ffi, m.lib, True


class GeneratedCodeRejected(Exception):
    pass


def compile_api(f, name, csource, d):
    """emit_c_code() + gcc -O0 (the setuptools driver of ffi.compile() is not what is judged
    here and costs as much as the compilation itself)."""
    cfile = os.path.join(d, name + ".c")
    f.set_source(name, csource)
    with contextlib.redirect_stdout(io.StringIO()):
        f.emit_c_code(cfile)
    so = os.path.join(d, name + build.EXT_SUFFIX)
    p = subprocess.run(["gcc", "-O0", "-g0", "-w", "-std=gnu11", "-shared", "-fPIC", "-I" + build.INCLUDEPY,
                        cfile, "-o", so], stdout=subprocess.PIPE, stderr=subprocess.STDOUT, text=True)
    if p.returncode != 0:
        raise GeneratedCodeRejected(p.stdout[-1500:])
    return so


def outside_values(signed, values):
    cands = [7, 11, 13] if not signed else [7, -7, 11, -11]
    return [c for c in cands if c not in values][:2]


def observe(ffi, lib, has_ic, tag, seq, gf):
    """Everything the statement names for one enum.  gf (gcc's facts) is used only to
    choose which values to cast; nothing observed is derived from it."""
    T = "enum " + tag
    o = {}
    try:
        o["size"] = ffi.sizeof(T)
    except Exception as e:
        o["size"] = _err(e)
    try:
        o["signed"] = int(ffi.cast(T, -1)) < 0
    except Exception as e:
        o["signed"] = _err(e)
    vals, ics, rel = [], [], []
    try:
        relements = ffi.typeof(T).relements
    except Exception as e:
        relements = _err(e)
    for k in range(len(seq)):
        nm = tag + LETTERS[k]
        try:
            vals.append(getattr(lib, nm))
        except Exception as e:
            vals.append(_err(e))
        if has_ic:
            try:
                ics.append(ffi.integer_const(nm))
            except Exception as e:
                ics.append(_err(e))
        rel.append(relements.get(nm, "missing") if isinstance(relements, dict) else relements)
    o["lib"] = vals
    o["relements"] = rel
    if has_ic:
        o["integer_const"] = ics
    st = {}
    for v in sorted(set(gf[2])) + outside_values(gf[1], gf[2]):
        try:
            st[v] = ffi.string(ffi.cast(T, v))
        except Exception as e:
            st[v] = _err(e)
    o["string"] = st
    return o


def expected(tag, seq, gf):
    size, signed, values = gf
    first = {}
    for k, v in enumerate(values):
        first.setdefault(v, tag + LETTERS[k])
    st = {}
    for v in sorted(set(values)) + outside_values(signed, values):
        st[v] = first.get(v, str(v))
    return {"size": size, "signed": signed, "values": list(values), "string": st}


def compare(o, x):
    bad = []
    if o["size"] != x["size"]:
        bad.append(("size", o["size"], x["size"]))
    if o["signed"] != x["signed"]:
        bad.append(("signed", o["signed"], x["signed"]))
    for key in ("lib", "relements", "integer_const"):
        if key in o and o[key] != x["values"]:
            bad.append(("value_" + key, o[key], x["values"]))
    if o["string"] != x["string"]:
        bad.append(("string", o["string"], x["string"]))
    return bad


def run_mode(mode, items, facts, out):
    """Observe all items in `mode`; if declaring them together fails, split."""
    try:
        ffi, lib, has_ic = open_mode(mode, items)
    except Exception as e:
        if len(items) == 1:
            tag, seq, text = items[0]
            out.append((mode, tag, seq, text, [("rejected", _err(e), "accepted by gcc")]))
            return
        h = len(items) // 2
        run_mode(mode, items[:h], facts, out)
        run_mode(mode, items[h:], facts, out)
        return
    for tag, seq, text in items:
        bad = compare(observe(ffi, lib, has_ic, tag, seq, facts[tag]), expected(tag, seq, facts[tag]))
        if bad:
            out.append((mode, tag, seq, text, bad))


MODES = ("inline", "abi", "api")


def work(job):
    """job = (first index, [seq, ...]), all accepted by gcc -> (n, class counts, mismatches, samples)"""
    base, seqs = job
    items = [("e%d" % (base + i), s, enum_text(s, "e%d" % (base + i))) for i, s in enumerate(seqs)]
    good = items
    counts = {}

    def cnt(k, n=1):
        counts[k] = counts.get(k, 0) + n
    out = []
    if good:
        facts = gcc_facts(good)
        for tag, seq, text in good:
            size, signed, values = facts[tag]
            cnt("gcc_type_%s%d" % ("i" if signed else "u", size * 8))
            if len(set(values)) < len(values):
                cnt("has_duplicate_values")
            for c in classes(seq):
                cnt(c)
            if max(values) > 2 ** 31 - 1:
                cnt("value_above_INT_MAX")
            if max(values) > 2 ** 32 - 1:
                cnt("value_above_UINT_MAX")
            if max(values) > 2 ** 63 - 1:
                cnt("value_above_LONG_MAX")
            if min(values) < -2 ** 31:
                cnt("value_below_INT_MIN")
            if min(values) < 0:
                cnt("has_negative")
        for mode in MODES:
            run_mode(mode, good, facts, out)
    samples = [{"decl": t, "gcc": facts[tag]} for tag, s, t in good[:2]] if good else []
    return len(items), counts, out, samples


def filter_by_gcc(ctx, seqs):
    """Ask gcc about every declaration (chunks of one syntax-only run each)."""
    good = []
    chunks = [seqs[i:i + 1500] for i in range(0, len(seqs), 1500)]

    def one(chunk):
        return gcc_accepts([enum_text(s, "e%d" % i) for i, s in enumerate(chunk)])
    for chunk, r in pool.pmap(one, [[c] for c in chunks]):
        if isinstance(r, (pool.WorkerError, pool.Crash)):
            raise InfraError("gcc acceptance pass failed: %r" % (r,))
        acc, other = r
        for s, a in zip(chunk, acc):
            if a is None:
                good.append(s)
            else:
                ctx.count("excluded_gcc_error" if a == "error" else "excluded_gcc_says_no_integer_type_fits")
        for w in other:
            ctx.count("gcc_other_warning: " + w[:80])
    order = {s: i for i, s in enumerate(seqs)}
    good.sort(key=order.__getitem__)
    return good


def run(ctx):
    seqs, plan = enumerate_space(ctx)
    total = len(seqs)
    good = filter_by_gcc(ctx, seqs)
    blocks = []
    for i in range(0, len(good), BLOCK):
        blocks.append((i, good[i:i + BLOCK]))
    ctx.log("%d enum declarations, %d accepted by gcc, %d blocks" % (total, len(good), len(blocks)))
    accepted = 0
    for job, r in pool.pmap(work, [[b] for b in blocks], item_timeout=1500):
        if isinstance(r, pool.WorkerError):
            raise InfraError("worker failed: %s" % r.tb)
        if isinstance(r, pool.Crash):
            ctx.violation({"kind": "crash"}, {"first": job[0], "seqs": job[1], "how": r.describe()})
            continue
        n, counts, out, samples = r
        accepted += n
        for k, v in counts.items():
            ctx.count(k, v)
        for s in samples:
            ctx.sample(s)
        for mode, tag, seq, text, bad in out:
            for kind, got, want in bad:
                ctx.violation({"kind": kind, "mode": mode},
                              {"seq": seq, "decl": text, "mode": mode, "kind": kind, "observed": got, "gcc": want})
    cov = {
        "evaluations": accepted * len(MODES),
        "distinct_nontrivial": accepted,
        "rule": "every enumerator sequence of the plan %s (length, alphabet size) where each enumerator is one of the "
                "alphabet's explicit values, implicit, or '= <any earlier enumerator>'; alphabet = %s; subsets = %s / %s; "
                "non-trivial = accepted by gcc -std=gnu11, so sizeof/signedness/values/ffi.string were compared in 3 "
                "modes (distinct declarations counted); declarations gcc rejects with an error, or for which it warns that "
                "no integer type can hold the values, are excluded" % (
                    [(n, len(a)) for n, a in plan], [v[0] for v in VALUES], [VALUES[i][0] for i in SUBSET],
                    [VALUES[i][0] for i in SUBSET5]),
        "exhaustive": True,
        "declarations": total,
        "excluded_rejected_by_gcc": total - accepted,
        "bound": {"plan": [[n, len(a)] for n, a in plan]},
    }
    return ctx.finish(cov, ["gcc 12 -std=gnu11 decides validity, size, signedness and values of every declaration"])


def replay(detail):
    seq = tuple(tuple(e) for e in detail["seq"])
    print(enum_text(seq, "e0"))
    acc, other = gcc_accepts([enum_text(seq, "e0")])
    if acc[0] is not None:
        print("gcc has no answer for this declaration (%s): excluded" % acc[0])
        return 0
    n, counts, out, samples = work((0, [seq]))
    hit = 0
    for mode, tag, s, text, bad in out:
        if mode != detail.get("mode", mode):
            continue
        for b in bad:
            print("MISMATCH mode=%s %s: observed %r, gcc %r" % (mode, b[0], b[1], b[2]))
            hit += 1
    if not hit:
        print("no mismatch")
    return 1 if hit else 0
