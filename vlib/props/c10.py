"""C10 -- enum values and underlying integer type match gcc, in three modes.

E1: every enumerator sequence up to a length over a value alphabet that
straddles the int / unsigned int / long / unsigned long boundaries, each
enumerator being an explicit value, implicit (previous + 1) or "= an earlier
enumerator".  Oracle: gcc -std=gnu11 (sizeof, signedness, every value);
sequences gcc rejects are excluded and counted.  ffi.string() of every value
of the enum and of 13 fixed values cast to it follows the first-declared rule.

Further finite families (see _c10_space.py): other declaration forms (typedef'd
anonymous / typedef'd tagged / value-only / mentioned again later / two
declarators / struct field / anonymous struct field / function result / global
variable),
enumerators that refer to constants declared earlier OUTSIDE the enum (tagged
enum, anonymous enum, #define) and hex / octal / suffixed spellings, enumerator
name shapes (prefix related, sorted order != declaration order, interleaving
between enums), long implicit runs, and enums seen through ffi.include().
"""
import contextlib
import ctypes
import importlib.util
import io
import itertools
import os
import re
import subprocess
import sys

from .. import build, cref, pool
from ..build import InfraError
from . import _c10_space as sp
from ._c10_space import VALUES, SUBSET, SUBSET5, CASTS, make_item

ID = "C10"
LEVEL = "exploration"
META = dict(
    engine="E1-enum", level="exploration",
    technique="bounded exhaustive enumeration of enum declarations (all enumerator sequences up to a length over a "
              "boundary value alphabet incl. implicit and back-references; declaration forms, cross-enum / #define "
              "references, name shapes, long implicit runs, include()) compared with gcc in in-line, out-of-line "
              "ABI and compiled API mode",
    text="All enumerator sequences of length <= 3 over 13 boundary values (-2^63 .. 2^64-1) + implicit + '= earlier "
         "name', and length 4 over a 6-value subset (thorough: length 4 over everything, length 5 over a 4-value subset), are "
         "declared in an in-line FFI, an out-of-line ABI module and a compiled API module; sizeof, signedness, every "
         "enumerator value (lib.X, integer_const, relements) and ffi.string() of every value and of 13 fixed values cast "
         "to the enum (small ones, -1, the minima / maxima of int, unsigned, long, unsigned long: decimal strings above "
         "INT_MAX and wrapped casts) are compared with what gcc -std=gnu11 gives the same declaration.  Additional "
         "exhaustive families: (form) the length <= 2 sequences declared as 'typedef enum {..} t;', 'typedef enum tag {..} t;', "
         "value-only 'enum {..};', struct field 'struct h { char c; enum tag {..} f; }' and a field of anonymous enum type "
         "'struct h { char c; enum {..} f; }' (also offsetof / sizeof of the struct; the anonymous one is the case whose "
         "size and signedness come from cffi's model instead of the compiler in API mode), and on a subset 'enum tag {..}; "
         "typedef enum tag u;', 'typedef enum {..} t, *p;', the result type of a function, the type of a global variable; (xref) length <= 2 sequences where an enumerator is '= PRE_i' / '= AN_i' / "
         "'= DEF_i' (enumerator of an earlier tagged / anonymous enum, integer #define; quick: 6 values, thorough: 13) or a "
         "hex / octal / suffixed literal; (names) enumerator names that are prefixes of one another, whose sorted order differs "
         "from declaration order and which interleave with those of the other enums of the module, in every arrangement; "
         "(big) 300 (thorough also 2000) enumerators, one start value and an implicit run across each type boundary; "
         "(include) enums observed through a second FFI / module that include()s the declaring one, in the 3 modes.",
    note="gcc 12 -std=gnu11 on this machine is the authority, including for which declarations are valid at all; "
         "forward references to an enum before its body (a GNU extension that cffi refuses with NotImplementedError) and "
         "negated / arithmetic literal spellings (C09) are not part of the space")

BLOCK = 330

# ---------------------------------------------------------------------------------------
# gcc

_r_diag = re.compile(r"^[^:\n]+:(\d+):\d+: (error|warning): (.*)$", re.M)
NO_TYPE = "enumeration values exceed range of largest integer"


def gcc_accepts(texts):
    """Which of the declarations (one per line, after the prelude of earlier constants) gcc -std=gnu11 has an
    answer for.  -> list of None (accepted) | "error" | "no_type" (gcc itself says that no integer type can
    hold the values and truncates: the authority has no answer), plus other warnings seen."""
    pre = sp.prelude()
    fn = os.path.join(build.scratch(), "c10_acc_%d.c" % os.getpid())
    with open(fn, "w") as f:
        f.write("\n".join(pre + list(texts)) + "\n")
    p = subprocess.run(["gcc", "-std=gnu11", "-fsyntax-only", "-fno-diagnostics-show-caret", fn], stdout=subprocess.PIPE,
                       stderr=subprocess.PIPE, text=True)
    res = [None] * len(texts)
    other = set()
    nerr = 0
    for m in _r_diag.finditer(p.stderr):
        ln, sev, msg = int(m.group(1)) - len(pre), m.group(2), m.group(3)
        if not (1 <= ln <= len(texts)):
            raise InfraError("gcc diagnostic outside the declarations:\n" + p.stderr[-2000:])
        if sev == "error":
            res[ln - 1] = "error"
            nerr += 1
        elif NO_TYPE in msg:
            if res[ln - 1] is None:
                res[ln - 1] = "no_type"
        else:
            other.add(msg.strip())
    if (p.returncode != 0) != (nerr > 0):
        raise InfraError("cannot attribute gcc's verdict to declarations:\n" + p.stderr[-2000:])
    return res, sorted(other)


def _sval(neg, u):
    return u - (1 << 64) if neg else u


_cast_cache = None
CAST_CROSSCHECK = 6


def cast_table():
    """{(size, signed): {c: (T)c for c in CASTS}} for the integer types gcc chooses for enums, measured once per
    process.  A conversion to an enumerated type is the conversion to its compatible integer type (C11 6.7.2.2p4);
    gcc_facts() asks gcc directly -- (enum e)(c) -- for the first CAST_CROSSCHECK enums of every block and
    insists on the same answer."""
    global _cast_cache
    if _cast_cache is None:
        types = ["int", "unsigned int", "long", "unsigned long"]
        cells = []
        for t in types:
            cells.append("sizeof(%s), ((%s)-1) < 0" % (t, t))
            for c in CASTS:
                cells.append("((%s)(%s)) < 0, (unsigned long long)((%s)(%s))" % (t, sp.lit(c), t, sp.lit(c)))
        tab = _read_table(cells, "")
        res = {}
        pos = 0
        for t in types:
            key = (tab[pos], bool(tab[pos + 1]))
            pos += 2
            res[key] = {}
            for c in CASTS:
                res[key][c] = _sval(tab[pos], tab[pos + 1])
                pos += 2
        _cast_cache = res
    return _cast_cache


def _read_table(cells, decls):
    """The facts are constant initialisers of one table, compiled to a shared object and read
    with ctypes (no code to generate: several times cheaper than printing them)."""
    src = decls + "const unsigned long long c10_tab[] = {\n" + ",\n".join(cells) + "\n};\n"
    so = cref.compile_so(src, flags=["-std=gnu11", "-w"], name="c10facts")
    lib = ctypes.CDLL(so)
    tab = list((ctypes.c_ulonglong * (2 * len(cells))).in_dll(lib, "c10_tab"))
    for fn in (so, so + ".c"):
        try:
            os.unlink(fn)
        except OSError:
            pass
    return tab


def gcc_facts(items, prelude):
    """items all accepted by gcc -> {tag: {"size", "signed", "values", "casts": {c: (T)c}, "offset", "ssize"}}."""
    decls = [ln + "\n" for ln in (sp.prelude() if prelude else [])]
    cells = []
    direct = set()
    for it in items:
        decls.append(it["text"] + "\n")
        ct = it["CT"]
        if ct is not None:
            cells.append("sizeof(%s), ((%s)-1) < 0" % (ct, ct))
            if len(direct) < CAST_CROSSCHECK:
                direct.add(it["tag"])
                for c in CASTS:
                    cells.append("((%s)(%s)) < 0, (unsigned long long)((%s)(%s))" % (ct, sp.lit(c), ct, sp.lit(c)))
        for nm in it["names"]:
            cells.append("%s < 0, (unsigned long long)%s" % (nm, nm))
        if it["struct"]:
            cells.append("__builtin_offsetof(%s, f), sizeof(%s)" % (it["struct"], it["struct"]))
    tab = _read_table(cells, "".join(decls))
    ctab = cast_table()
    res = {}
    pos = 0
    for it in items:
        f = {"size": None, "signed": None, "casts": {}, "offset": None, "ssize": None}
        if it["CT"] is not None:
            f["size"], f["signed"] = tab[pos], bool(tab[pos + 1])
            pos += 2
            if (f["size"], f["signed"]) not in ctab:
                raise InfraError("gcc gave %s a type that is none of int / unsigned / long / unsigned long" % it["text"])
            f["casts"] = ctab[f["size"], f["signed"]]
            if it["tag"] in direct:
                for c in CASTS:
                    if f["casts"][c] != _sval(tab[pos], tab[pos + 1]):
                        raise InfraError("(%s)(%d) differs from the cast to the compatible integer type" % (it["CT"], c))
                    pos += 2
        values = []
        for nm in it["names"]:
            values.append(_sval(tab[pos], tab[pos + 1]))
            pos += 2
        f["values"] = values
        if it["struct"]:
            f["offset"], f["ssize"] = tab[pos], tab[pos + 1]
            pos += 2
        res[it["tag"]] = f
    if pos != len(tab):
        raise InfraError("facts table misread")
    return res


# ---------------------------------------------------------------------------------------
# cffi, three modes

def _import(name, path, register=False):
    spec = importlib.util.spec_from_file_location(name, path)
    mod = importlib.util.module_from_spec(spec)
    if register:
        sys.modules[name] = mod         # a module that include()s this one imports it by name
    spec.loader.exec_module(mod)
    return mod


_modcount = itertools.count()


def _err(e):
    return "error:%s: %s" % (type(e).__name__, str(e)[:200])


class Opened(object):
    """One FFI in one mode: .ffi/.lib to observe, .builder/.name/.csource to include() it from another one."""


def open_mode(mode, items, prelude, include_of=None):
    """Declare all items in one FFI of the given mode; with include_of (an Opened of the same mode) declare nothing
    and include() that one instead."""
    import cffi
    f = cffi.FFI()
    if include_of is None:
        pre = (sp.prelude() if prelude else [])
        text = "\n".join(pre + [it["text"] for it in items]) + "\n"
        csource = "\n".join(pre + [it["ctext"] for it in items]) + "\n"
        f.cdef(text)
    else:
        f.include(include_of.builder)
        csource = include_of.csource
    o = Opened()
    o.builder, o.csource, o.name = f, csource, None
    if mode == "inline":
        o.ffi, o.lib, o.has_ic = f, f.dlopen(None), False
        return o
    d = os.path.join(build.scratch(), "c10")
    os.makedirs(d, exist_ok=True)
    name = o.name = "c10_%s_%d_%d" % (mode, os.getpid(), next(_modcount))
    if mode == "abi":
        f.set_source(name, None)
        f.compile(tmpdir=d, verbose=0)
        m = _import(name, os.path.join(d, name + ".py"), register=True)
        o.ffi, o.lib, o.has_ic = m.ffi, m.ffi.dlopen(None), True
        return o
    so = compile_api(f, name, csource, d)
    m = _import(name, so, register=True)
    for fn in (so, os.path.join(d, name + ".c")):
        try:
            os.unlink(fn)
        except OSError:
            pass
    o.ffi, o.lib, o.has_ic = m.ffi, m.lib, True
    return o


def close_mode(o):
    if o is not None and o.name:
        sys.modules.pop(o.name, None)


class GeneratedCodeRejected(Exception):
    pass


def compile_api(f, name, csource, d):
    """emit_c_code() + gcc -O0 (the setuptools driver of ffi.compile() is not what is judged
    here and costs as much as the compilation itself)."""
    cfile = os.path.join(d, name + ".c")
    f.set_source(name, csource)
    with contextlib.redirect_stdout(io.StringIO()):
        f.emit_c_code(cfile)
    so = os.path.join(d, name + build.EXT_SUFFIX)
    p = subprocess.run(["gcc", "-O0", "-g0", "-w", "-std=gnu11", "-shared", "-fPIC", "-I" + build.INCLUDEPY,
                        cfile, "-o", so], stdout=subprocess.PIPE, stderr=subprocess.STDOUT, text=True)
    if p.returncode != 0:
        raise GeneratedCodeRejected(p.stdout[-1500:])
    return so


def string_inputs(gf):
    """values handed to ffi.cast(T, .) for ffi.string(): every value of the enum, then the fixed CASTS"""
    vs = sorted(set(gf["values"]))
    return vs + [c for c in CASTS if c not in vs]


def observe(ffi, lib, has_ic, it, gf):
    """Everything the statement names for one enum.  gf (gcc's facts) is used only to
    choose which values to cast; nothing observed is derived from it."""
    o = {}
    T = it["T"]
    if isinstance(T, tuple):            # the type of a struct field
        try:
            T = dict(ffi.typeof(T[1]).fields)[T[2]].type
        except Exception as e:
            T = None
            o["size"] = o["signed"] = _err(e)
    if T is not None:
        try:
            o["size"] = ffi.sizeof(T)
        except Exception as e:
            o["size"] = _err(e)
        try:
            o["signed"] = int(ffi.cast(T, -1)) < 0
        except Exception as e:
            o["signed"] = _err(e)
        try:
            relements = (ffi.typeof(T) if isinstance(T, str) else T).relements
        except Exception as e:
            relements = _err(e)
    vals, ics, rel = [], [], []
    for nm in it["names"]:
        try:
            vals.append(getattr(lib, nm))
        except Exception as e:
            vals.append(_err(e))
        if has_ic:
            try:
                ics.append(ffi.integer_const(nm))
            except Exception as e:
                ics.append(_err(e))
        if T is not None:
            rel.append(relements.get(nm, "missing") if isinstance(relements, dict) else relements)
    o["lib"] = vals
    if T is not None:
        o["relements"] = rel
    if has_ic:
        o["integer_const"] = ics
    if T is not None:
        st = {}
        for v in string_inputs(gf):
            try:
                st[v] = ffi.string(ffi.cast(T, v))
            except Exception as e:
                st[v] = _err(e)
        o["string"] = st
    if it["struct"]:
        try:
            o["field_offset"] = ffi.offsetof(it["struct"], "f")
        except Exception as e:
            o["field_offset"] = _err(e)
        try:
            o["struct_size"] = ffi.sizeof(it["struct"])
        except Exception as e:
            o["struct_size"] = _err(e)
    return o


def expected(it, gf):
    values = gf["values"]
    x = {"values": list(values)}
    if it["CT"] is not None:
        first = {}
        for nm, v in zip(it["names"], values):
            first.setdefault(v, nm)
        st = {}
        for v in string_inputs(gf):
            w = v if v in first else gf["casts"][v]        # the enum's own values are representable in its type
            st[v] = first.get(w, str(w))
        x.update(size=gf["size"], signed=gf["signed"], string=st)
    if it["struct"]:
        x.update(field_offset=gf["offset"], struct_size=gf["ssize"])
    return x


def compare(o, x):
    bad = []
    for key in ("size", "signed"):
        if key in x or key in o:
            if o.get(key, "absent") != x.get(key, "absent"):
                bad.append((key, o.get(key, "absent"), x.get(key, "absent")))
    for key in ("lib", "relements", "integer_const"):
        if key in o and o[key] != x["values"]:
            bad.append(("value_" + key, o[key], x["values"]))
    if "string" in x or "string" in o:
        so, sx = o.get("string", {}), x.get("string", {})
        if so != sx:
            diff = sorted(k for k in set(so) | set(sx) if so.get(k) != sx.get(k))
            bad.append(("string", {k: so.get(k) for k in diff}, {k: sx.get(k) for k in diff}))
    # the layout of a struct with a field of the enum type: a consequence of the underlying integer type
    for key in ("field_offset", "struct_size"):
        if key in x and o.get(key) != x[key]:
            bad.append((key, o.get(key), x[key]))
    return bad


def run_mode(mode, items, facts, prelude, include, out, ev):
    """Observe all items in `mode` (and, with include, again through an FFI that includes the first);
    if declaring them together fails, split."""
    o1 = o2 = None
    try:
        try:
            o1 = open_mode(mode, items, prelude)
            if include:
                o2 = open_mode(mode, items, prelude, include_of=o1)
        except Exception as e:
            if len(items) == 1:
                out.append((mode if o1 is None else mode + "+include", items[0],
                            [("rejected", _err(e), "accepted by gcc")]))
                return
            h = len(items) // 2
            run_mode(mode, items[:h], facts, prelude, include, out, ev)
            run_mode(mode, items[h:], facts, prelude, include, out, ev)
            return
        for it in items:
            gf = facts[it["tag"]]
            x = expected(it, gf)
            for label, o in ((mode, o1), (mode + "+include", o2)):
                if o is None:
                    continue
                ev[0] += 1
                bad = compare(observe(o.ffi, o.lib, o.has_ic, it, gf), x)
                if bad:
                    out.append((label, it, bad))
    finally:
        close_mode(o2)
        close_mode(o1)


MODES = ("inline", "abi", "api")


def classify(it, gf, cnt):
    values = gf["values"]
    cnt("family_" + it["fam"])
    if it["form"] != "tag":
        cnt("form_" + it["form"])
    if it["CT"] is not None:
        size, signed = gf["size"], gf["signed"]
        ty = "%s%d" % ("i" if signed else "u", size * 8)
        cnt("gcc_type_" + ty)
        if it["fam"] != "base":
            cnt("gcc_type_%s_in_family_%s" % (ty, it["fam"]))
        first = set(values)
        for v in string_inputs(gf):
            if v in first:
                continue
            w = gf["casts"][v]
            if w in first:
                cnt("string_cast_wraps_onto_enumerator")
            elif w != v:
                cnt("string_decimal_of_wrapped_cast")
            elif w > 2 ** 31 - 1:
                cnt("string_decimal_above_INT_MAX")
            elif w < -2 ** 31:
                cnt("string_decimal_below_INT_MIN")
            else:
                cnt("string_decimal_small")
    else:
        cnt("no_type_name_values_only")
    if len(set(values)) < len(values):
        cnt("has_duplicate_values")
    kinds = set(e[0] for e in it["seq"])
    for c, label in (("i", "has_implicit"), ("r", "has_backref"), ("x", "refers_to_enumerator_of_earlier_tagged_enum"),
                     ("a", "refers_to_enumerator_of_earlier_anonymous_enum"), ("d", "refers_to_define"),
                     ("h", "has_hex_octal_or_suffixed_literal")):
        if c in kinds:
            cnt(label)
    names = it["names"]
    if names != sorted(names):
        cnt("names_sorted_order_differs_from_declaration_order")
    if any(a != b and b.startswith(a) for a in names for b in names):
        cnt("names_one_is_prefix_of_another")
    if len(names) >= 100:
        cnt("has_100_or_more_enumerators")
    if max(values) > 2 ** 31 - 1:
        cnt("value_above_INT_MAX")
    if max(values) > 2 ** 32 - 1:
        cnt("value_above_UINT_MAX")
    if max(values) > 2 ** 63 - 1:
        cnt("value_above_LONG_MAX")
    if min(values) < -2 ** 31:
        cnt("value_below_INT_MIN")
    if min(values) < 0:
        cnt("has_negative")
    if it["struct"]:
        cnt("field_offset_%d" % gf["offset"])


def work(job):
    """job = {"base": first index, "specs": [...] all accepted by gcc, "prelude": bool, "include": bool}
    -> (n, evaluations, class counts, mismatches, samples)"""
    base = job["base"]
    items = [make_item("e%d" % (base + i), s) for i, s in enumerate(job["specs"])]
    counts = {}

    def cnt(k, n=1):
        counts[k] = counts.get(k, 0) + n
    out = []
    ev = [0]
    samples = []
    if items:
        facts = gcc_facts(items, job["prelude"])
        for it in items:
            classify(it, facts[it["tag"]], cnt)
        for mode in MODES:
            run_mode(mode, items, facts, job["prelude"], job["include"], out, ev)
        for it in items[:2]:
            gf = facts[it["tag"]]
            text = it["text"] if len(it["text"]) < 300 else it["text"][:300] + " ..."
            samples.append({"decl": text, "family": it["fam"], "gcc": [gf["size"], gf["signed"], gf["values"][:8]]})
    return len(items), ev[0], counts, out, samples


def filter_by_gcc(ctx, specs):
    """Ask gcc about every declaration (chunks of one syntax-only run each)."""
    good = []
    chunks = [specs[i:i + 1500] for i in range(0, len(specs), 1500)]

    def one(chunk):
        return gcc_accepts([make_item("e%d" % i, s)["text"] for i, s in enumerate(chunk)])
    for chunk, r in pool.pmap(one, [[c] for c in chunks]):
        if isinstance(r, (pool.WorkerError, pool.Crash)):
            raise InfraError("gcc acceptance pass failed: %r" % (r,))
        acc, other = r
        for s, a in zip(chunk, acc):
            if a is None:
                good.append(s)
            else:
                ctx.count("excluded_gcc_error" if a == "error" else "excluded_gcc_says_no_integer_type_fits")
                ctx.count("excluded_in_family_" + s[0])
        for w in other:
            ctx.count("gcc_other_warning: " + w[:80])
    order = {s: i for i, s in enumerate(specs)}
    good.sort(key=order.__getitem__)
    return good


def make_jobs(good):
    """Blocks of specs that are declared together in one FFI per mode.  Long enums are spread one per block
    (they cost as much as a block); the include family gets its own blocks (every module is built twice)."""
    groups = {}
    for s in good:
        big = s[0] == "big"
        key = (s[0] == "include", sp.needs_prelude(s), big)
        groups.setdefault(key, []).append(s)
    jobs = []
    base = 0
    for key in sorted(groups):
        lst = groups[key]
        step = 1 if key[2] else BLOCK
        for i in range(0, len(lst), step):
            part = lst[i:i + step]
            jobs.append({"base": base, "specs": part, "prelude": key[1], "include": key[0]})
            base += len(part)
    # the most expensive first
    jobs.sort(key=lambda j: -(len(j["specs"]) * (2 if j["include"] else 1) + sum(len(s[3]) for s in j["specs"]) // 4))
    return jobs


def sig_of(kind, mode, it):
    sig = {"kind": kind, "mode": mode}
    if it["fam"] != "base":
        # new families: say which shape it was (the base family keeps its two-key signature)
        sig["family"] = it["fam"]
        sig["form"] = it["form"]
    return sig


def detail_of(job, mode, it, kind, got, want):
    return {"spec": it["spec"], "decl": it["text"], "mode": mode, "kind": kind, "observed": got, "gcc": want,
            "prelude": job["prelude"], "include": job["include"]}


def run(ctx):
    specs, bounds = sp.enumerate_space(ctx.quick)
    total = len(specs)
    per_family = {}
    for s in specs:
        per_family[s[0]] = per_family.get(s[0], 0) + 1
    good = filter_by_gcc(ctx, specs)
    jobs = make_jobs(good)
    ctx.log("%d enum declarations %s, %d accepted by gcc, %d blocks" % (total, per_family, len(good), len(jobs)))
    accepted = 0
    evaluations = 0
    distinct = set()
    for job, r in pool.pmap(work, [[j] for j in jobs], item_timeout=1500):
        if isinstance(r, pool.WorkerError):
            raise InfraError("worker failed: %s" % r.tb)
        if isinstance(r, pool.Crash):
            ctx.violation({"kind": "crash", "families": sorted(set(s[0] for s in job["specs"]))},
                          {"job": job, "how": r.describe()})
            continue
        n, nev, counts, out, samples = r
        accepted += n
        evaluations += nev
        distinct.update(s[1:] for s in job["specs"])       # the include family repeats declarations of other families
        for k, v in counts.items():
            ctx.count(k, v)
        for s in samples:
            ctx.sample(s)
        for mode, it, bad in out:
            for kind, got, want in bad:
                ctx.violation(sig_of(kind, mode, it), detail_of(job, mode, it, kind, got, want))
    plan = sp.base_plan(ctx.quick)
    cov = {
        "evaluations": evaluations,
        "distinct_nontrivial": len(distinct),
        "rule": "base family: every enumerator sequence of the plan %s (length, alphabet size) where each enumerator is one of the "
                "alphabet's explicit values, implicit, or '= <any earlier enumerator>'; alphabet = %s; subsets = %s / %s; "
                "further families, each a full product: %s; "
                "non-trivial = accepted by gcc -std=gnu11, so sizeof/signedness/values/ffi.string (own values + the casts %s) "
                "were compared in 3 modes, the include family in 6 (distinct declarations counted); declarations gcc rejects "
                "with an error, or for which it warns that no integer type can hold the values, are excluded" % (
                    [(n, len(a)) for n, a in plan], [v[0] for v in VALUES], [VALUES[i][0] for i in SUBSET],
                    [VALUES[i][0] for i in SUBSET5],
                    "; ".join("(%s) %s" % (k, v) for k, v in bounds.items() if k != "base"), CASTS),
        "exhaustive": True,
        "declarations": total,
        "declarations_per_family": per_family,
        "accepted_by_gcc_and_compared": accepted,
        "excluded_rejected_by_gcc": total - accepted,
        "bound": {"plan": [[n, len(a)] for n, a in plan], "families": bounds},
    }
    return ctx.finish(cov, ["gcc 12 -std=gnu11 decides validity, size, signedness and values of every declaration, and "
                            "the value of (enum type)(constant) for the casts (taken from the compatible integer type, cross-checked "
                            "against the enum type itself on %d enums per block)" % CAST_CROSSCHECK])


def replay(detail):
    if "job" in detail:
        # a block whose worker died: run the same block in this process (it dies again if the crash reproduces)
        job = dict(detail["job"])
        job["specs"] = [sp.norm_spec(s) for s in job["specs"]]
        print("block of %d declarations starting at e%d; the worker had died: %s" % (
            len(job["specs"]), job["base"], detail.get("how")))
        sys.stdout.flush()
        n, nev, counts, out, samples = work(job)
        print("the block ran to its end in this process: %d mismatches" % len(out))
        return 1 if out else 0
    if "spec" in detail:
        spec = sp.norm_spec(detail["spec"])
    else:                               # replay files written before the families existed
        spec = sp.norm_spec(("base", "tag", ("L",), detail["seq"]))
    it = make_item("e0", spec)
    print(it["text"])
    acc, other = gcc_accepts([it["text"]])
    if acc[0] is not None:
        print("gcc has no answer for this declaration (%s): excluded" % acc[0])
        return 0
    job = {"base": 0, "specs": [spec], "prelude": sp.needs_prelude(spec), "include": bool(detail.get("include"))}
    n, nev, counts, out, samples = work(job)
    hit = 0
    for mode, it, bad in out:
        if mode != detail.get("mode", mode):
            continue
        for b in bad:
            print("MISMATCH mode=%s %s: observed %r, gcc %r" % (mode, b[0], b[1], b[2]))
            hit += 1
    if not hit:
        print("no mismatch")
    return 1 if hit else 0
