"""The (cdef, C source) universe shared by C12 and C33.

One fixed, hand-enumerated universe: every integer/char/float primitive as a
global, a constant and a function result/argument; 16 structs/unions (plain,
nested, arrays, bitfields, packed through a pragma in the source, partial with
'...;', '[...]', flexible tail, anonymous typedef, enum fields); 8 enums;
integer #defines and 'static const int X = n;' constants; a typedef chain.
Added for C12 (audit gaps): structs/unions with anonymous struct/union members
(kind 'anon', addressed by the flattened leaf names), a struct known only through a
pointer typedef (via_pointer), '[...]' in two dimensions, bitfields of _Bool / enum /
long long / in a union, 'static const' over eight more integer types at the types'
boundaries, and a part 'misc' (variadic function, function-pointer / pointer / open
array / '[...]' globals, non-integer constants, macro and static inline "functions",
'typedef ... *p').

The cdef is assembled from *parts* (one per struct / enum / constant / block of
primitives) so that a mutant is "the universe cdef with exactly one part
replaced".  Nothing here imports cffi.
"""
import ctypes
import struct

# ---------------------------------------------------------------------------------------
# primitives

# (key, C type, family)   family: int | bool | char | wchar | float | ldouble
PRIMS = [
    ("char", "char", "char"),
    ("schar", "signed char", "int"),
    ("uchar", "unsigned char", "int"),
    ("short", "short", "int"),
    ("ushort", "unsigned short", "int"),
    ("int", "int", "int"),
    ("uint", "unsigned int", "int"),
    ("long", "long", "int"),
    ("ulong", "unsigned long", "int"),
    ("llong", "long long", "int"),
    ("ullong", "unsigned long long", "int"),
    ("bool", "_Bool", "bool"),
    ("wchar", "wchar_t", "wchar"),
    ("c16", "char16_t", "wchar"),
    ("c32", "char32_t", "wchar"),
    ("i8", "int8_t", "int"),
    ("u8", "uint8_t", "int"),
    ("i16", "int16_t", "int"),
    ("u16", "uint16_t", "int"),
    ("i32", "int32_t", "int"),
    ("u32", "uint32_t", "int"),
    ("i64", "int64_t", "int"),
    ("u64", "uint64_t", "int"),
    ("iptr", "intptr_t", "int"),
    ("uptr", "uintptr_t", "int"),
    ("pdiff", "ptrdiff_t", "int"),
    ("size", "size_t", "int"),
    ("ssize", "ssize_t", "int"),
    ("float", "float", "float"),
    ("double", "double", "float"),
    ("ldouble", "long double", "ldouble"),
]
PRIM = {k: (t, fam) for k, t, fam in PRIMS}
PRIM_BY_CTYPE = {t: k for k, t, fam in PRIMS}

HEADERS = ("#include <stddef.h>\n#include <stdint.h>\n#include <sys/types.h>\n#include <wchar.h>\n"
           "#include <uchar.h>\n#include <float.h>\n#include <string.h>\n")

MACROS = r"""
#define U_MAXOF(T) ((T)(((T)-1) > 0 ? (T)-1 : (T)((((unsigned long long)1) << (sizeof(T)*8-1)) - 1)))
#define U_MINOF(T) ((T)(((T)-1) > 0 ? (T)0 : (T)(-(long long)((((unsigned long long)1) << (sizeof(T)*8-1)) - 1) - 1)))
"""


def _prim_consts(key):
    """C initialisers (init of the global, 'max' constant, 'min' constant)."""
    t, fam = PRIM[key]
    if fam == "int":
        return "(%s)37" % t, "U_MAXOF(%s)" % t, "U_MINOF(%s)" % t
    if fam == "bool":
        return "1", "1", "0"
    if fam == "char":
        return "(char)37", "U_MAXOF(char)", "U_MINOF(char)"
    if fam == "wchar":
        return "(%s)0x41" % t, "(%s)(sizeof(%s) >= 4 ? 0x10FFFF : 0xFFFF)" % (t, t), "(%s)1" % t
    if key == "float":
        return "1.5f", "FLT_MAX", "-2.25f"
    if key == "double":
        return "1.5", "DBL_MAX", "-2.25"
    return "1.5L", "(1.0L/3)", "-2.25L"


def prim_source(key):
    t, fam = PRIM[key]
    init, kmax, kmin = _prim_consts(key)
    return ("%(t)s g_%(k)s = %(init)s;\n"
            "void *addr_g_%(k)s(void) { return &g_%(k)s; }\n"
            "%(t)s get_%(k)s(void) { return g_%(k)s; }\n"
            "%(t)s id_%(k)s(%(t)s x) { return x; }\n"
            "static const %(t)s kc_%(k)s = %(kmax)s;\n"
            "static const %(t)s kn_%(k)s = %(kmin)s;\n" % dict(t=t, k=key, init=init, kmax=kmax, kmin=kmin))


def prim_cdef(key):
    t, fam = PRIM[key]
    return ("extern %(t)s g_%(k)s;\nvoid *addr_g_%(k)s(void);\n%(t)s get_%(k)s(void);\n%(t)s id_%(k)s(%(t)s);\n"
            "static const %(t)s kc_%(k)s;\nstatic const %(t)s kn_%(k)s;\n" % dict(t=t, k=key))


def prim_names(key):
    return ["g_" + key, "addr_g_" + key, "get_" + key, "id_" + key, "kc_" + key, "kn_" + key]


# ---- value handling (the Python-level value cffi is expected to produce for a C value) ----

def prim_range(key, pf):
    """pf = facts['P'][key] = (size, signed, align), measured by gcc."""
    size, signed, _ = pf
    fam = PRIM[key][1]
    if fam == "bool":
        return 0, 1
    if signed:
        return -(1 << (8 * size - 1)), (1 << (8 * size - 1)) - 1
    return 0, (1 << (8 * size)) - 1


def to_py(key, cint):
    """C integer value -> the Python object cffi shows for it."""
    fam = PRIM[key][1]
    if fam == "char":
        return bytes([cint & 0xFF])
    if fam == "wchar":
        return chr(cint)
    return cint


def f32(v):
    return struct.unpack("<f", struct.pack("<f", v))[0]


def prim_values(key, pf):
    """The value alphabet of a primitive: list of (python value, memory image)."""
    size, signed, _ = pf
    fam = PRIM[key][1]
    lo, hi = prim_range(key, pf)
    if fam in ("int", "bool"):
        cs = sorted({lo, lo + 1 if hi > 1 else lo, 0, 1, min(37, hi), hi - 1 if hi > 1 else hi, hi} |
                    ({-1} if lo < 0 else set()))
    elif fam == "char":
        cs = sorted({lo, -1 if lo < 0 else 255, 0, 1, 65, 127, hi})
    elif fam == "wchar":
        cs = [0, 1, 0x41, 0xE9, 0xD7FF, 0xE000, 0xFFFF]
        if size >= 4:
            cs += [0x10000, 0x10FFFF]
    else:
        vals = [0.0, -0.0, 1.5, -2.25, 0.1, 1e-310, 1.7976931348623157e308, -1.7976931348623157e308,
                float("inf"), float("-inf"), float("nan")]
        out = []
        for v in vals:
            if key == "float":
                try:
                    v = f32(v)
                except OverflowError:
                    v = 3.4028234663852886e38 if v > 0 else -3.4028234663852886e38
                out.append((v, struct.pack("<f", v)))
            elif key == "double":
                out.append((v, struct.pack("<d", v)))
            else:
                out.append((v, bytes(ctypes.c_longdouble(v))[:10]))
        return out
    mask = (1 << (8 * size)) - 1
    return [(to_py(key, c), (c & mask).to_bytes(size, "little")) for c in cs]


def norm(v):
    """Normalise a value read from cffi for comparison / JSON."""
    if isinstance(v, bool):
        return int(v)
    if isinstance(v, float):
        return "nan" if v != v else v.hex()
    if isinstance(v, (int, str, bytes)) or v is None:
        return v
    return v


def fact_value(key, tok):
    """Parse a value printed by the reference program for primitive `key`."""
    fam = PRIM[key][1]
    if fam in ("float", "ldouble"):
        return float.fromhex(tok) if tok not in ("inf", "-inf", "nan", "-nan") else float(tok.replace("-nan", "nan"))
    return to_py(key, int(tok))


# ---------------------------------------------------------------------------------------
# structs / unions

def F(name, tmpl, kind, prim=None, **kw):
    d = dict(name=name, tmpl=tmpl, kind=kind, prim=prim)
    d.update(kw)
    return d


# `fields` is the C definition; `cdef` (optional) lists the field names the cdef declares
# (in that order) for structs that are partial in the base universe.
STRUCTS = [
    dict(tag="s_plain", su="struct", fields=[
        F("a", "char {n}", "scalar", "char"), F("b", "int {n}", "scalar", "int"),
        F("c", "short {n}", "scalar", "short"), F("d", "long long {n}", "scalar", "llong")]),
    dict(tag="s_nested", su="struct", deps=["s_plain"], fields=[
        F("x", "char {n}", "scalar", "char"), F("in", "struct s_plain {n}", "struct", sub="s_plain"),
        F("y", "short {n}", "scalar", "short")]),
    dict(tag="s_arr", su="struct", fields=[
        F("a", "short {n}[3]", "array", "short", base="short", dims=(3,)),
        F("b", "char {n}[5]", "array", "char", base="char", dims=(5,)),
        F("c", "int {n}[2][2]", "array", "int", base="int", dims=(2, 2)),
        F("e", "long long {n}", "scalar", "llong")]),
    dict(tag="s_bf", su="struct", fields=[
        F("a", "int {n}:3", "bits", "int", base="int", width=3),
        F("b", "unsigned int {n}:7", "bits", "uint", base="unsigned int", width=7),
        F("c", "int {n}", "scalar", "int"),
        F("d", "short {n}:9", "bits", "short", base="short", width=9),
        F("e", "unsigned char {n}", "scalar", "uchar")]),
    dict(tag="s_packed", su="struct", packed=True, fields=[
        F("a", "char {n}", "scalar", "char"), F("b", "int {n}", "scalar", "int"),
        F("c", "short {n}", "scalar", "short"), F("d", "long long {n}", "scalar", "llong")]),
    dict(tag="u_plain", su="union", fields=[
        F("i", "int {n}", "scalar", "int"),
        F("c", "char {n}[6]", "array", "char", base="char", dims=(6,)),
        F("d", "double {n}", "scalar", "double")]),
    dict(tag="s_ptr", su="struct", selfref=True, fields=[
        F("p", "void *{n}", "ptr"), F("c", "char {n}", "scalar", "char"),
        F("fn", "int (*{n})(int)", "fnptr"), F("next", "struct s_ptr *{n}", "ptr")]),
    dict(tag="s_float", su="struct", fields=[
        F("f", "float {n}", "scalar", "float"), F("d", "double {n}", "scalar", "double"),
        F("ld", "long double {n}", "scalar", "ldouble"), F("c", "char {n}", "scalar", "char")]),
    dict(tag="t_anon", su="struct", typedef=True, fields=[
        F("a", "char {n}", "scalar", "char"), F("b", "long {n}", "scalar", "long")]),
    dict(tag="s_ints", su="struct", fields=[
        F("a", "signed char {n}", "scalar", "schar"), F("b", "unsigned short {n}", "scalar", "ushort"),
        F("c", "unsigned int {n}", "scalar", "uint"), F("d", "long {n}", "scalar", "long"),
        F("e", "unsigned long long {n}", "scalar", "ullong"), F("f", "_Bool {n}", "scalar", "bool"),
        F("w", "wchar_t {n}", "scalar", "wchar")]),
    dict(tag="s_flex", su="struct", novalue=True, fields=[
        F("n", "int {n}", "scalar", "int"), F("tail", "char {n}[]", "flex", "char", base="char")]),
    dict(tag="s_enumf", su="struct", deps=["e_fld", "e_fld2"], fields=[
        F("e", "enum e_fld {n}", "enum", enum="e_fld"), F("k", "char {n}", "scalar", "char"),
        F("v", "enum e_fld2 {n}", "enum", enum="e_fld2")]),
    # partial in the base universe -----------------------------------------------------
    dict(tag="s_dots", su="struct", partial_base=True, fields=[
        F("n", "short {n}", "scalar", "short"),
        F("a", "int {n}[4]", "array", "int", base="int", dims=(4,), cdef_tmpl="int {n}[...]"),
        F("z", "char {n}", "scalar", "char")]),
    dict(tag="s_partial", su="struct", partial_base=True, cdef=["d", "b"], fields=[
        F("a", "char {n}", "scalar", "char"), F("b", "int {n}", "scalar", "int"),
        F("c", "double {n}", "scalar", "double"), F("d", "short {n}", "scalar", "short"),
        F("e", "char {n}[3]", "array", "char", base="char", dims=(3,))]),
    dict(tag="u_partial", su="union", partial_base=True, cdef=["s"], fields=[
        F("s", "short {n}", "scalar", "short"), F("l", "long long {n}", "scalar", "llong"),
        F("c", "char {n}", "scalar", "char")]),
    dict(tag="s_pnest", su="struct", partial_base=True, cdef=["in"], deps=["s_plain"], fields=[
        F("pad", "char {n}", "scalar", "char"), F("in", "struct s_plain {n}", "struct", sub="s_plain"),
        F("q", "int {n}", "scalar", "int")]),
    # ---- added for C12: anonymous struct/union members.  kind 'anon': name '', 'su' and 'sub' (the
    # members); the leaves are addressed by their own names in C and in cffi (flat_fields()).
    dict(tag="s_anon", su="struct", fields=[
        F("k", "int {n}", "scalar", "int"),
        F("", None, "anon", su="struct", sub=[F("p", "char {n}", "scalar", "char"), F("q", "short {n}", "scalar", "short")]),
        F("", None, "anon", su="union", sub=[F("u1", "int {n}", "scalar", "int"), F("u2", "float {n}", "scalar", "float")]),
        F("z", "char {n}", "scalar", "char")]),
    dict(tag="u_anon", su="union", fields=[                       # anonymous member inside a union, last
        F("w", "long long {n}", "scalar", "llong"),
        F("", None, "anon", su="struct", sub=[F("p", "char {n}", "scalar", "char"), F("q", "int {n}", "scalar", "int")])]),
    dict(tag="s_anon2", su="struct", fields=[                     # two levels, anonymous member last
        F("h", "char {n}", "scalar", "char"),
        F("", None, "anon", su="struct", sub=[
            F("m", "short {n}", "scalar", "short"),
            F("", None, "anon", su="union", sub=[F("c1", "char {n}", "scalar", "char"), F("c2", "int {n}", "scalar", "int")]),
            F("n", "long long {n}", "scalar", "llong")])]),
    dict(tag="s_anon1", su="struct", fields=[                     # anonymous member first and only member
        F("", None, "anon", su="struct", sub=[F("a", "int {n}", "scalar", "int"), F("b", "char {n}", "scalar", "char")])]),
    dict(tag="s_anonbf", su="struct", fields=[                    # a bitfield carrier (kept nested) next to a plain one
        F("pre", "int {n}", "scalar", "int"),
        F("", None, "anon", su="union", sub=[
            F("a", "unsigned int {n}:3", "bits", "uint", base="unsigned int", width=3),
            F("b", "unsigned int {n}:5", "bits", "uint", base="unsigned int", width=5)]),
        F("", None, "anon", su="struct", sub=[F("p", "char {n}", "scalar", "char"), F("q", "int {n}", "scalar", "int")]),
        F("t", "char {n}", "scalar", "char")]),
    dict(tag="s_panon", su="struct", partial_base=True, cdef=["", "y"], fields=[    # anonymous member in a '...;' struct
        F("x", "char {n}", "scalar", "char"),
        F("", None, "anon", su="struct", sub=[F("p", "short {n}", "scalar", "short"), F("q", "long long {n}", "scalar", "llong")]),
        F("y", "int {n}", "scalar", "int"),
        F("w", "double {n}", "scalar", "double")]),
    # ---- a struct known only through a pointer typedef: 'typedef struct { ... } *np_plain;'
    dict(tag="np_plain", su="struct", typedef=True, via_pointer=True, fields=[
        F("c", "char {n}", "scalar", "char"), F("x", "int {n}", "scalar", "int"),
        F("ld", "long double {n}", "scalar", "ldouble"), F("z", "short {n}", "scalar", "short")]),
    # ---- '[...]' in the first of two dimensions
    dict(tag="s_dots2", su="struct", partial_base=True, fields=[
        F("c", "char {n}", "scalar", "char"),
        F("m", "short {n}[3][2]", "array", "short", base="short", dims=(3, 2), cdef_tmpl="short {n}[...][2]"),
        F("t", "int {n}", "scalar", "int")]),
    # ---- bitfields of _Bool, long long (wider than 32), an enum type; bitfields in a union
    # (the enum is e_part, which has no mutants of its own: mutants of an enum and of a struct that uses it
    # cannot share a module)
    dict(tag="s_bf2", su="struct", deps=["e_part"], fields=[
        F("f", "_Bool {n}:1", "bits", "bool", base="_Bool", width=1),
        F("w", "long long {n}:40", "bits", "llong", base="long long", width=40),
        F("g", "unsigned char {n}:3", "bits", "uchar", base="unsigned char", width=3),
        F("e", "enum e_part {n}:4", "bits", "uint", base="enum e_part", width=4),
        F("tail", "char {n}", "scalar", "char")]),
    dict(tag="u_bf", su="union", fields=[
        F("a", "unsigned int {n}:3", "bits", "uint", base="unsigned int", width=3),
        F("b", "int {n}:5", "bits", "int", base="int", width=5),
        F("c", "int {n}", "scalar", "int")]),
]
STRUCT = {s["tag"]: s for s in STRUCTS}


def flat_fields(fields):
    """The named leaves of a field list: anonymous struct/union members are expanded (recursively),
    as C and cffi expose them."""
    for f in fields:
        if f["kind"] == "anon":
            for g in flat_fields(f["sub"]):
                yield g
        else:
            yield f


def has_anon(fields):
    return any(f["kind"] == "anon" for f in fields)


def field_label(f):
    """A name for a field in operator labels (anonymous members have no name of their own)."""
    if f["kind"] == "anon":
        return "{%s}" % "+".join(g["name"] for g in flat_fields(f["sub"]))
    return f["name"]


def ctype_expr(s, tag=None):
    """C expression naming the struct type itself (a via_pointer kind has no name for it)."""
    tag = tag or s["tag"]
    if s.get("via_pointer"):
        return "__typeof__(*(%s)0)" % tag
    return tname(s, tag)


# Every struct kind is present NALIAS+1 times in the universe: once under its own tag
# (slot 0) and NALIAS times as 'typedef <the struct> <tag>_a<k>;' in the source, declared in
# the cdef as 'typedef struct { same fields } <tag>_a<k>;' (slots 1..NALIAS).  The slots are
# interchangeable declarations of the same C type, so that one module can carry several
# independent single-point mutants of the same struct kind.
NALIAS = 11


def alias_name(s, slot):
    return "%s_a%d" % (s["tag"], slot)


def tname(s, tag=None):
    """The C type name of a struct descriptor."""
    tag = tag or s["tag"]
    return tag if s.get("typedef") else "%s %s" % (s["su"], tag)


def slot_tname(s, slot):
    return tname(s) if slot == 0 else alias_name(s, slot)


def slot_text(s, fields, slot, partial=False):
    """cdef text declaring slot `slot` of struct kind s with the given fields."""
    if slot == 0:
        return struct_text(s, fields, partial=partial)
    s2 = dict(s)
    s2["typedef"] = True
    return struct_text(s2, fields, tag=alias_name(s, slot), partial=partial)


def slot_part(s, slot):
    return "struct:" + s["tag"] + ("#%d" % slot if slot else "")


def field_text(f, for_c):
    if f["kind"] == "anon":
        return "%s { %s };" % (f["su"], " ".join(field_text(g, for_c) for g in f["sub"]))
    t = f["tmpl"] if for_c else f.get("cdef_tmpl", f["tmpl"])
    return t.format(n=f["name"]) + ";"


def struct_text(s, fields, tag=None, partial=False, for_c=False):
    """Text of a struct declaration with the given field list."""
    tag = tag or s["tag"]
    body = " ".join(field_text(f, for_c) for f in fields)
    if partial and not for_c:
        body += " ...;"
    if s.get("typedef"):
        return "typedef %s { %s } %s%s;\n" % (s["su"], body, "*" if s.get("via_pointer") else "", tag)
    return "%s %s { %s };\n" % (s["su"], tag, body)


def c_struct_def(s, fields=None, tag=None, packed=None):
    txt = struct_text(s, fields if fields is not None else s["fields"], tag, for_c=True)
    if s.get("packed") if packed is None else packed:
        txt = "#pragma pack(push, 1)\n" + txt + "#pragma pack(pop)\n"
    return txt


def base_cdef_fields(s):
    if "cdef" in s:
        by = {}
        for f in s["fields"]:
            by.setdefault(f["name"], f)
        return [by[n] for n in s["cdef"]]
    return list(s["fields"])


def struct_source(s):
    """Globals and accessors the source defines for a struct (its definition is emitted separately)."""
    T = tname(s)
    tag = s["tag"]
    out = []
    if tag == "s_flex":
        out.append("static struct { struct s_flex s; char room[8]; } gs_s_flex_store;\n"
                   "void *addr_gs_s_flex(void) { return &gs_s_flex_store; }\n"
                   "struct s_flex *ptr_s_flex(void) { return &gs_s_flex_store.s; }\n")
        return "".join(out)
    if s.get("via_pointer"):
        out.append("%s gs_%s;\nvoid *addr_gs_%s(void) { return &gs_%s; }\n%s ptr_%s(void) { return &gs_%s; }\n" % (
            ctype_expr(s), tag, tag, tag, tag, tag, tag))
        return "".join(out)
    out.append("%s gs_%s;\nvoid *addr_gs_%s(void) { return &gs_%s; }\n" % (T, tag, tag, tag))
    out.append("%s ret_%s(void) { return gs_%s; }\n" % (T, tag, tag))
    out.append("void take_%s(%s v) { gs_%s = v; }\n" % (tag, T, tag))
    out.append("%s *ptr_%s(void) { return &gs_%s; }\n" % (T, tag, tag))
    for f in flat_fields(s["fields"]):
        if f["kind"] == "bits":
            out.append("long long bfget_%s_%s(void) { return gs_%s.%s; }\n" % (tag, f["name"], tag, f["name"]))
            out.append("void bfset_%s_%s(long long v) { gs_%s.%s = v; }\n" % (tag, f["name"], tag, f["name"]))
    return "".join(out)


def struct_cdef_extras(s):
    T = tname(s)
    tag = s["tag"]
    if tag == "s_flex":
        return "void *addr_gs_s_flex(void);\nstruct s_flex *ptr_s_flex(void);\n"
    if s.get("via_pointer"):
        return "void *addr_gs_%s(void);\n%s ptr_%s(void);\n" % (tag, tag, tag)
    out = ["extern %s gs_%s;\nvoid *addr_gs_%s(void);\n%s ret_%s(void);\nvoid take_%s(%s);\n%s *ptr_%s(void);\n" % (
        T, tag, tag, T, tag, tag, T, T, tag)]
    for f in flat_fields(s["fields"]):
        if f["kind"] == "bits":
            out.append("long long bfget_%s_%s(void);\nvoid bfset_%s_%s(long long);\n" % (
                tag, f["name"], tag, f["name"]))
    return "".join(out)


def struct_extra_names(s):
    tag = s["tag"]
    if tag == "s_flex":
        return ["addr_gs_s_flex", "ptr_s_flex"]
    if s.get("via_pointer"):
        return ["addr_gs_" + tag, "ptr_" + tag]
    out = ["gs_" + tag, "addr_gs_" + tag, "ret_" + tag, "take_" + tag, "ptr_" + tag]
    for f in flat_fields(s["fields"]):
        if f["kind"] == "bits":
            out += ["bfget_%s_%s" % (tag, f["name"]), "bfset_%s_%s" % (tag, f["name"])]
    return out


# ---------------------------------------------------------------------------------------
# enums

# name=None: anonymous; typedef: name is a typedef of an anonymous enum.
# `c` is the list in the source; `cdef` the text of the body in the base cdef (None = same
# enumerators with explicit values); partial_base: the base cdef ends with '...'
ENUMS = [
    dict(tag="e_small", c=[("ES_A", 0), ("ES_B", 1), ("ES_C", 2)], implicit=True),
    dict(tag="e_vals", c=[("EV_N", -5), ("EV_Z", 0), ("EV_P", 1000)]),
    dict(tag="e_big", c=[("EB_A", 1), ("EB_B", 4294967295)]),
    dict(tag="e_huge", c=[("EH_A", -1), ("EH_B", 9223372036854775807)]),
    dict(tag="e_neg", c=[("EN_A", -2147483648), ("EN_B", 2147483647)]),
    dict(tag="te_t", typedef=True, c=[("TA", 7), ("TB", 9)]),
    dict(tag=None, key="e_anon", c=[("AN_X", 11), ("AN_Y", 12)]),
    dict(tag="e_fld", c=[("EF_A", -3)]),                    # used as struct field types (s_enumf)
    dict(tag="e_fld2", c=[("EF2_A", 4294967295)]),
    dict(tag="e_part", partial_base=True, c=[("EP_A", 3), ("EP_B", 40), ("EP_C", 41)], cdef_names=["EP_C", "EP_A"]),
]
for _e in ENUMS:
    _e.setdefault("key", _e["tag"])
ENUM = {e["key"]: e for e in ENUMS}


def enum_tname(e):
    if e["tag"] is None:
        return None
    return e["tag"] if e.get("typedef") else "enum " + e["tag"]


def enum_text(e, pairs, partial=False, implicit=False):
    """pairs: [(name, value or None)]"""
    body = ", ".join(n if v is None else "%s = %d" % (n, v) for n, v in pairs)
    if partial:
        body += ", ..."
    if e.get("typedef"):
        return "typedef enum { %s } %s;\n" % (body, e["tag"])
    if e["tag"] is None:
        return "enum { %s };\n" % body
    return "enum %s { %s };\n" % (e["tag"], body)


def enum_c_def(e):
    if e.get("implicit"):
        return enum_text(e, [(n, None) for n, v in e["c"]])
    return enum_text(e, e["c"])


def enum_base_pairs(e):
    if e.get("partial_base"):
        return [(n, None) for n in e["cdef_names"]]
    if e.get("implicit"):
        return [(n, None) for n, v in e["c"]]
    return list(e["c"])


def enum_source(e):
    T = enum_tname(e)
    if T is None:
        return ""
    k = e["key"]
    return "%s ge_%s = %s;\n%s ide_%s(%s x) { return x; }\n" % (T, k, e["c"][-1][0], T, k, T)


def enum_cdef_extras(e):
    T = enum_tname(e)
    if T is None:
        return ""
    k = e["key"]
    return "extern %s ge_%s;\n%s ide_%s(%s);\n" % (T, k, T, k, T)


# ---------------------------------------------------------------------------------------
# integer constants with a value in the cdef

# (name, value, C text of the value, form)   form: 'define' | 'const:<type>' | 'dots'
CONSTS = [
    ("D_ZERO", 0, "0", "define"),
    ("D_ONE", 1, "1", "define"),
    ("D_NEG", -1, "(-1)", "define"),
    ("D_I8MIN", -128, "(-128)", "define"),
    ("D_DEC", 1000, "1000", "define"),
    ("D_HEX", 0x7fffffff, "0x7fffffff", "define"),
    ("D_OCT", 0o755, "0755", "define"),
    ("D_I32MIN", -2147483648, "(-2147483647-1)", "define"),
    ("D_U32", 4294967295, "4294967295U", "define"),
    ("D_I64MAX", 9223372036854775807, "9223372036854775807LL", "define"),
    ("D_I64MIN", -9223372036854775808, "(-9223372036854775807LL-1)", "define"),
    ("D_U64MAX", 18446744073709551615, "18446744073709551615ULL", "define"),
    ("KI_POS", 7, "7", "const:int"),
    ("KI_NEG", -3, "-3", "const:long"),
    ("KI_UBIG", 4000000000, "4000000000U", "const:unsigned int"),
    ("D_DOTS1", 77, "77", "dots"),
    ("D_DOTS2", -9000000000, "(-9000000000LL)", "dots"),
    ("D_DOTS3", (1 << 20) + 3, "((1<<20)+3)", "dots"),
    # added for C12: 'static const' over more integer types, values at the type's own boundaries
    ("KT_UCHAR", 255, "255", "const:unsigned char"),
    ("KT_SCHAR", -128, "(-128)", "const:signed char"),
    ("KT_SHORT", -32768, "(-32768)", "const:short"),
    ("KT_BOOL", 1, "1", "const:_Bool"),
    ("KT_LLMIN", -9223372036854775808, "(-9223372036854775807LL-1)", "const:long long"),
    ("KT_LLMAX", 9223372036854775807, "9223372036854775807LL", "const:long long"),
    ("KT_ULL63", 9223372036854775808, "9223372036854775808ULL", "const:unsigned long long"),
    ("KT_ULLMAX", 18446744073709551615, "18446744073709551615ULL", "const:unsigned long long"),
    ("KT_I8", 127, "127", "const:int8_t"),
    ("KT_SIZE", 18446744073709551615, "((size_t)-1)", "const:size_t"),
    ("KT_UZERO", 0, "0", "const:unsigned long long"),
]
CONST = {c[0]: c for c in CONSTS}


def const_source(c):
    name, val, ctext, form = c
    if form.startswith("const:"):
        return "static const %s %s = %s;\n" % (form[6:], name, ctext)
    return "#define %s %s\n" % (name, ctext)


def const_cdef(c, value=None, dots=False):
    name, val, ctext, form = c
    v = val if value is None else value
    if form == "dots" or dots:
        return "#define %s ...\n" % name
    if form.startswith("const:"):
        return "static const %s %s = %d;\n" % (form[6:], name, v)
    return "#define %s %d\n" % (name, v)


# ---------------------------------------------------------------------------------------
# typedef chain and friends

TYPEDEF_SRC = ("typedef int t1;\ntypedef t1 t2;\ntypedef t2 *t3;\ntypedef t3 t4[2];\n"
               "typedef unsigned short tu_dots;\ntypedef long long ti_dots;\ntypedef float tf_dots;\n"
               "typedef struct opq_s { int hidden; } opq_t;\n"
               "typedef struct s_plain tsp_t;\n")
TYPEDEF_CDEF = ("typedef int t1;\ntypedef t1 t2;\ntypedef t2 *t3;\ntypedef t3 t4[2];\n"
                "typedef unsigned long... tu_dots;\ntypedef int... ti_dots;\ntypedef float... tf_dots;\n"
                "typedef ... opq_t;\n"
                "typedef struct s_plain tsp_t;\n"
                "t2 td_f(t3, t4);\nextern t4 g_t4;\nextern t2 g_t2;\ntu_dots td_u(tu_dots);\nti_dots td_i(ti_dots);\n"
                "tf_dots td_fl(tf_dots);\nopq_t *td_opq(void);\nint td_opq_get(opq_t *);\ntsp_t *td_sp(void);\n")
TYPEDEF_CODE = ("t2 g_t2 = 5;\nt4 g_t4 = { &g_t2, 0 };\n"
                "t2 td_f(t3 a, t4 b) { return *a + *b[0]; }\n"
                "tu_dots td_u(tu_dots x) { return x; }\nti_dots td_i(ti_dots x) { return x; }\n"
                "tf_dots td_fl(tf_dots x) { return x; }\n"
                "static opq_t the_opq = { 1234 };\nopq_t *td_opq(void) { return &the_opq; }\n"
                "int td_opq_get(opq_t *p) { return p->hidden; }\n"
                "tsp_t *td_sp(void) { return &gs_s_plain; }\n")
TYPEDEF_NAMES = ["td_f", "g_t4", "g_t2", "td_u", "td_i", "td_fl", "td_opq", "td_opq_get", "td_sp"]
TYPEDEF_TYPES = ["t1", "t2", "t3", "t4", "tu_dots", "ti_dots", "tf_dots", "opq_t", "tsp_t"]


# ---------------------------------------------------------------------------------------
# part 'misc' (added for C12): item kinds the statement lists that the rest of the universe lacks

MISC_TYPES_SRC = ("#include <stdarg.h>\n"
                  "typedef struct opq2_s { int hidden2; } *opq_p;\n")
MISC_CODE = r"""
int vsum(int n, ...) { va_list ap; int s = 0; va_start(ap, n); while (n-- > 0) s += va_arg(ap, int); va_end(ap); return s; }
double vmix(const char *fmt, ...) { va_list ap; double s = 0; va_start(ap, fmt);
    for (; *fmt; fmt++) { if (*fmt == 'i') s += va_arg(ap, int); else if (*fmt == 'l') s += (double)va_arg(ap, long long);
                          else if (*fmt == 'd') s += va_arg(ap, double); else if (*fmt == 'p') s += *(short *)va_arg(ap, void *); }
    va_end(ap); return s; }
static int misc_dbl(int x) { return 2 * x; }
static int misc_neg(int x) { return -x; }
int (*g_fp)(int) = misc_dbl;
void *addr_g_fp(void) { return &g_fp; }
void *addr_misc_dbl(void) { return (void *)misc_dbl; }
void *addr_misc_neg(void) { return (void *)misc_neg; }
int call_g_fp(int x) { return g_fp(x); }
char g_strbuf[8] = "hello";
char *g_str = g_strbuf;
void *addr_g_str(void) { return &g_str; }
void *addr_g_strbuf(void) { return g_strbuf; }
int g_open[3] = { 1, 2, 3 };
void *addr_g_open(void) { return g_open; }
int g_dots[5] = { 10, 20, 30, 40, 50 };
void *addr_g_dots(void) { return g_dots; }
short g_m[2][3] = { { 1, 2, 3 }, { 4, 5, 6 } };
void *addr_g_m(void) { return g_m; }
long long g_m2[4][3];
void *addr_g_m2(void) { return g_m2; }
static const double K_PI = 3.25;
static const float K_F = -0.5f;
const char *const g_ccs = "const-hello";
void *addr_g_ccs_target(void) { return (void *)g_ccs; }
static const struct s_plain K_S = { 'x', -7, 12, 1LL << 40 };
#define mac_add(a, b) ((a) + (b))
static inline long inl_neg(long x) { return -x; }
static struct opq2_s the_opq2 = { 4321 };
opq_p get_opq_p(void) { return &the_opq2; }
int opq_p_get(opq_p p) { return p->hidden2; }
void *addr_the_opq2(void) { return &the_opq2; }
"""
MISC_CDEF = ("int vsum(int n, ...);\ndouble vmix(const char *fmt, ...);\n"
             "extern int (*g_fp)(int);\nvoid *addr_g_fp(void);\nvoid *addr_misc_dbl(void);\nvoid *addr_misc_neg(void);\n"
             "int call_g_fp(int);\n"
             "extern char *g_str;\nvoid *addr_g_str(void);\nvoid *addr_g_strbuf(void);\n"
             "extern int g_open[];\nvoid *addr_g_open(void);\n"
             "extern int g_dots[...];\nvoid *addr_g_dots(void);\n"
             "extern short g_m[2][...];\nvoid *addr_g_m(void);\n"
             "extern long long g_m2[...][...];\nvoid *addr_g_m2(void);\n"
             "static const double K_PI;\nstatic const float K_F;\n"
             "extern const char *const g_ccs;\nvoid *addr_g_ccs_target(void);\n"
             "static const struct s_plain K_S;\n"
             "int mac_add(int, int);\nlong inl_neg(long);\n"
             "typedef ... *opq_p;\nopq_p get_opq_p(void);\nint opq_p_get(opq_p);\nvoid *addr_the_opq2(void);\n")
MISC_NAMES = ["vsum", "vmix", "g_fp", "addr_g_fp", "addr_misc_dbl", "addr_misc_neg", "call_g_fp", "g_str", "addr_g_str",
              "addr_g_strbuf", "g_open", "addr_g_open", "g_dots", "addr_g_dots", "g_m", "addr_g_m", "g_m2", "addr_g_m2",
              "K_PI", "K_F", "g_ccs", "addr_g_ccs_target", "K_S", "mac_add", "inl_neg", "get_opq_p", "opq_p_get",
              "addr_the_opq2"]


# ---------------------------------------------------------------------------------------
# assembling source, reference program and cdef parts

def types_source():
    """All type definitions and macros of the universe source."""
    out = [HEADERS, MACROS]
    for e in ENUMS:
        out.append(enum_c_def(e))
    for s in STRUCTS:
        out.append(c_struct_def(s))
        out.append("typedef %s %s;\n" % (tname(s), ", ".join(alias_name(s, k) for k in range(1, NALIAS + 1))))
    for c in CONSTS:
        out.append(const_source(c))
    out.append(TYPEDEF_SRC)
    out.append(MISC_TYPES_SRC)
    return "".join(out)


def code_source():
    out = []
    for k, t, fam in PRIMS:
        out.append(prim_source(k))
    for s in STRUCTS:
        out.append(struct_source(s))
    for e in ENUMS:
        out.append(enum_source(e))
    out.append(TYPEDEF_CODE)
    out.append(MISC_CODE)
    return "".join(out)


def source():
    return types_source() + code_source()


def parts():
    """Ordered list of cdef parts: (part id, text, cdef kwargs)."""
    out = []
    out.append(("prims", "".join(prim_cdef(k) for k, t, fam in PRIMS), {}))
    for e in ENUMS:
        out.append(("enum:" + e["key"], enum_text(e, enum_base_pairs(e), partial=bool(e.get("partial_base"))), {}))
    for s in STRUCTS:
        kw = {"packed": True} if s.get("packed") else {}
        for slot in range(NALIAS + 1):
            out.append((slot_part(s, slot),
                        slot_text(s, base_cdef_fields(s), slot,
                                  partial=bool(s.get("partial_base")) and s["tag"] != "s_dots"),
                        kw))
    for c in CONSTS:
        out.append(("const:" + c[0], const_cdef(c), {}))
    out.append(("extras", "".join(struct_cdef_extras(s) for s in STRUCTS) +
                "".join(enum_cdef_extras(e) for e in ENUMS) + TYPEDEF_CDEF, {}))
    out.append(("misc", MISC_CDEF, {}))
    return out


def apply_cdef(ffi, plist, replace=None):
    """Feed the parts to ffi.cdef(), joining neighbours with equal kwargs.
    replace: {part id: (text, kwargs)}"""
    replace = replace or {}
    cur_kw, cur = None, []

    def flush():
        if cur:
            ffi.cdef("".join(cur), **cur_kw)
    for pid, text, kw in plist:
        if pid in replace:
            text, kw = replace[pid]
        if cur_kw is None or kw != cur_kw:
            flush()
            cur_kw, cur = kw, []
        cur.append(text)
    flush()


def cdef_text(plist, replace=None):
    replace = replace or {}
    out = []
    for pid, text, kw in plist:
        if pid in replace:
            text, kw = replace[pid]
        out.append(("/* %s %r */\n" % (pid, kw) if kw else "") + text)
    return "".join(out)


PRINT_HELPERS = r"""
#include <stdio.h>
#define PRINT_INT(label, name, x) do { if ((x) <= 0) printf("%s %s %lld\n", label, name, (long long)(x)); \
    else printf("%s %s %llu\n", label, name, (unsigned long long)(x)); } while (0)
#define PRINT_FLT(label, name, x) printf("%s %s %a\n", label, name, (double)(x))
"""


def reference_main():
    """main() printing every fact of the universe (appended to the universe source)."""
    b = []
    for k, t, fam in PRIMS:
        b.append('printf("P %s %%d %%d %%d\\n", (int)sizeof(%s), (int)(((%s)-1) < (%s)0), (int)_Alignof(%s));' % (
            k, t, t, t, t))
        pr = "PRINT_FLT" if fam in ("float", "ldouble") else "PRINT_INT"
        b.append('%s("GI", "%s", g_%s);' % (pr, k, k))
        b.append('%s("KC", "%s", kc_%s);' % (pr, k, k))
        b.append('%s("KN", "%s", kn_%s);' % (pr, k, k))
    for s in STRUCTS:
        T = ctype_expr(s)
        b.append('printf("S %s %%d %%d\\n", (int)sizeof(%s), (int)_Alignof(%s));' % (s["tag"], T, T))
        for f in flat_fields(s["fields"]):
            if f["kind"] == "bits":
                continue
            sz = "-1" if f["kind"] == "flex" else "(int)sizeof(((%s *)0)->%s)" % (T, f["name"])
            b.append('printf("F %s %s %%d %%d\\n", (int)offsetof(%s, %s), %s);' % (
                s["tag"], f["name"], T, f["name"], sz))
    for e in ENUMS:
        T = enum_tname(e)
        if T is not None:
            b.append('printf("E %s %%d %%d\\n", (int)sizeof(%s), (int)(((%s)-1) < 0));' % (e["key"], T, T))
            b.append('PRINT_INT("GE", "%s", ge_%s);' % (e["key"], e["key"]))
        for n, v in e["c"]:
            b.append('PRINT_INT("V", "%s", %s);' % (n, n))
    for c in CONSTS:
        b.append('PRINT_INT("V", "%s", %s);' % (c[0], c[0]))
    for t in TYPEDEF_TYPES:
        if t == "opq_t":
            continue
        b.append('printf("T %s %%d %%d\\n", (int)sizeof(%s), (int)_Alignof(%s));' % (t, t, t))
    # part 'misc': X = a C value of the universe, printed by the reference program
    b.append('PRINT_FLT("X", "K_PI", K_PI);')
    b.append('PRINT_FLT("X", "K_F", K_F);')
    for fld in "abcd":
        b.append('PRINT_INT("X", "K_S.%s", K_S.%s);' % (fld, fld))
    b.append('PRINT_INT("X", "vsum", vsum(3, 1, 2, 4));')
    b.append('PRINT_INT("X", "vsum0", vsum(0));')
    b.append('{ short sh = -9; PRINT_FLT("X", "vmix", vmix("ildp", -5, 1LL << 40, 0.25, (void *)&sh)); }')
    b.append('PRINT_INT("X", "g_fp", g_fp(21));')
    b.append('PRINT_INT("X", "mac_add", mac_add(3, 4));')
    b.append('PRINT_INT("X", "inl_neg", inl_neg(3));')
    b.append('PRINT_INT("X", "opq_p_get", opq_p_get(get_opq_p()));')
    b.append('printf("XS g_str %s\\n", g_str);')
    b.append('printf("XS g_ccs %s\\n", g_ccs);')
    for nm, n in (("g_open", 3), ("g_dots", 5)):
        b.append('PRINT_INT("X", "len_%s", sizeof(%s) / sizeof(%s[0]));' % (nm, nm, nm))
        for i in range(n):
            b.append('PRINT_INT("X", "%s[%d]", %s[%d]);' % (nm, i, nm, i))
    for nm in ("g_m", "g_m2"):
        b.append('PRINT_INT("X", "len0_%s", sizeof(%s) / sizeof(%s[0]));' % (nm, nm, nm))
        b.append('PRINT_INT("X", "len1_%s", sizeof(%s[0]) / sizeof(%s[0][0]));' % (nm, nm, nm))
        b.append('PRINT_INT("X", "size_%s", sizeof(%s));' % (nm, nm))
    for i in range(2):
        for j in range(3):
            b.append('PRINT_INT("X", "g_m[%d][%d]", g_m[%d][%d]);' % (i, j, i, j))
    return PRINT_HELPERS + "int main(void) {\n" + "\n".join(b) + "\nreturn 0; }\n"


def parse_reference(out):
    facts = {"P": {}, "GI": {}, "KC": {}, "KN": {}, "S": {}, "F": {}, "E": {}, "GE": {}, "V": {}, "T": {}, "X": {},
             "XS": {}}
    for line in out.splitlines():
        p = line.split()
        k = p[0]
        if k == "P":
            facts["P"][p[1]] = (int(p[2]), bool(int(p[3])), int(p[4]))
        elif k in ("GI", "KC", "KN"):
            facts[k][p[1]] = p[2]
        elif k == "S":
            facts["S"][p[1]] = (int(p[2]), int(p[3]))
        elif k == "F":
            facts["F"].setdefault(p[1], {})[p[2]] = (int(p[3]), int(p[4]))
        elif k == "E":
            facts["E"][p[1]] = (int(p[2]), bool(int(p[3])))
        elif k in ("GE", "V"):
            facts[k][p[1]] = int(p[2])
        elif k == "T":
            facts["T"][p[1]] = (int(p[2]), int(p[3]))
        elif k == "X":
            facts["X"][p[1]] = p[2]
        elif k == "XS":
            facts["XS"][p[1]] = line.split(" ", 2)[2]
    return facts


def declared_names():
    """Every name the base cdef makes visible on lib."""
    out = []
    for k, t, fam in PRIMS:
        out += prim_names(k)
    for s in STRUCTS:
        out += struct_extra_names(s)
    for e in ENUMS:
        if e.get("partial_base"):
            out += e["cdef_names"]
        else:
            out += [n for n, v in e["c"]]
        if enum_tname(e) is not None:
            out += ["ge_" + e["key"], "ide_" + e["key"]]
    out += [c[0] for c in CONSTS]
    out += TYPEDEF_NAMES
    out += MISC_NAMES
    return out
