"""C29 -- callback closures stay distinct and bound to their own function (E2).

Exact explicit-state exploration by *process cloning*: a state (live callbacks,
the closure allocator's free list and page state) is a process; every enabled
operation is applied in a fork() of it, so no replay and no abstraction of the
allocator state is involved.  Initial states hold L background callbacks with L
placed on both sides of every closure-page boundary.
"""
import ctypes
import gc as _gc
import json
import mmap
import os
import struct
import sys
import weakref

from .. import build, pool
from ..build import InfraError

ID = "C29"
LEVEL = "model_checking"
META = dict(
    engine="E2-hist", level="model_checking",
    technique="explicit-state depth-first search over create/drop/call/collect histories where every state is a real "
              "process cloned with fork() (allocator state included), from initial states at each closure-page boundary",
    text="From 0, c-1, c, c+2c-1, c+2c and c+2c+3c-1.. live callbacks (c = closures per 4096-byte page, measured), all "
         "histories of depth <= 4 (quick; thorough 5, from more page boundaries) over: create a callback with signature A or B in the lowest free "
         "of 3 slots, create a callback inside a reference cycle (cleared by the collector first, or dying by refcount "
         "inside the collection) that also owns a cdata whose finalizer creates one more callback during the teardown, drop a slot, call through the cdata, call from C through the raw address, call from C a callback that drops itself, puts a new callback in its slot and then fails (its own onerror and error value must handle that), gc.collect().  After "
         "every step all live addresses (background included) are pairwise distinct, every slot callback and two "
         "background callbacks return their own token with their own signature.",
    note="fork() clones the whole process, so the explored successor states are exact; addresses are observed with "
         "ffi.cast('uintptr_t', cb); C-side calls go through ctypes function pointers built from the raw address")

NSLOT = 3
_ST = {}


def closure_capacity():
    """closures per page and the page growth sequence, measured from addresses of a fresh process"""
    r, w = os.pipe()
    pid = os.fork()
    if pid == 0:
        try:
            import cffi
            ffi = cffi.FFI()
            keep = []
            addrs = []
            for i in range(2000):
                cb = ffi.callback("int(int)", lambda x: x)
                keep.append(cb)
                addrs.append(int(ffi.cast("uintptr_t", cb)))
            os.write(w, json.dumps(addrs).encode())
        finally:
            os._exit(0)
    os.close(w)
    data = b""
    while True:
        b = os.read(r, 1 << 16)
        if not b:
            break
        data += b
    os.close(r)
    _, status = os.waitpid(pid, 0)
    if os.WIFSIGNALED(status) or not data:
        return None, ("crash", os.WTERMSIG(status) if os.WIFSIGNALED(status) else None)
    addrs = json.loads(data.decode())
    if len(set(addrs)) != len(addrs):
        return None, ("duplicate", len(addrs) - len(set(addrs)))
    # a new mmap block shows as a jump that is not the regular stride
    strides = [abs(addrs[i + 1] - addrs[i]) for i in range(len(addrs) - 1)]
    stride = min(strides)
    bounds = [i + 1 for i, s in enumerate(strides) if s != stride]
    return stride, bounds


def tokenA(k, x):
    return (k * 1000 + x) & 0x7FFFFFFF


def tokenB(k, x, y):
    return k * 1000.0 + x - y


SELFREP = 0x5e1f


class _BodyError(Exception):
    pass


class _Holder(object):
    def __init__(self, k):
        self.k = k

    def fn(self, x):
        return tokenA(self.k, x)


class State(object):
    """Lives in the current process."""

    def __init__(self, L):
        import cffi
        self.ffi = cffi.FFI()
        self.bg = []
        self.bgaddr = set()
        for i in range(L):
            cb = self._make("A", 100000 + i)
            self.bg.append(cb)
            self.bgaddr.add(int(self.ffi.cast("uintptr_t", cb)))
        if len(self.bgaddr) != L:
            raise InfraError("background callbacks already collide")
        self.slots = [None] * NSLOT      # (cb, sig, k)
        self.nk = 0
        self.spawned = []                # (cb, k): callbacks created by finalizers while a cycle is torn down
        self.ncyc = 0
        self.nops = 0
        self.events = []

    def _spawn(self):
        # runs inside a weakref.finalize callback, i.e. possibly in the middle of a garbage collection that is
        # clearing a callback: creating a callback right then must get a closure nobody else owns
        if len(self.spawned) < 2:
            self.nk += 1
            self.spawned.append((self._make("A", 500 + self.nk), 500 + self.nk))

    def _make_cycle(self, order, k):
        """A callback that is part of a reference cycle which also owns a plain cdata with a finalizer that
        creates another callback.  order 'late': the rest of the cycle (a dict) becomes GC-tracked AFTER the
        callback, so the collector clears the callback first (tp_clear on the callback, then its dealloc);
        'early': an instance tracked BEFORE the callback, so the callback dies by refcount inside the
        collection.  Signature A; the function answers tokenA(k, x) for the two probe arguments."""
        ffi = self.ffi
        buf = ffi.new("char[]", 16)
        weakref.finalize(buf, self._spawn)
        if order == "late":
            d = {3: tokenA(k, 3), 7: tokenA(k, 7)}
            cb = ffi.callback("int(int)", d.__getitem__)
            d["cb"] = cb
            d["buf"] = buf
        else:
            h = _Holder(k)
            cb = ffi.callback("int(int)", h.fn)
            h.cb = cb
            h.buf = buf
        return cb

    def _make(self, sig, k):
        ffi = self.ffi
        if sig == "A":
            def body(x, k=k):
                if x == SELFREP:
                    # invoked from C through the raw address: drop myself, put a new callback in my slot (it may
                    # get my closure's memory), then fail -- the failure is still MINE to handle
                    for i in range(NSLOT):
                        if self.slots[i] is not None and self.slots[i][2] == k:
                            self.nk += 1
                            self.slots[i] = None
                            self.slots[i] = (self._make("A", self.nk), "A", self.nk)
                    raise _BodyError(k)
                return tokenA(k, x)

            def onerror(exc, val, tb, k=k):
                self.events.append(("onerror", k, getattr(val, "args", (None,))[0]))
            return ffi.callback("int(int)", body, error=-k - 1, onerror=onerror)
        return ffi.callback("double(double, double)", lambda x, y, k=k: tokenB(k, x, y))

    def enabled(self):
        ops = []
        free = [i for i in range(NSLOT) if self.slots[i] is None]
        if free:
            ops += [("new", "A"), ("new", "B")]
            # (a cycle needs create + drop + collect to matter: only offered while three steps remain)
            if self.ncyc < _ST.get("max_cycles", 1) and self.nops <= _ST.get("depth", 4) - 3:
                ops += [("newcyc", "late"), ("newcyc", "early")]
        for i in range(NSLOT):
            if self.slots[i] is not None:
                ops += [("drop", i), ("call", i), ("ccall", i)]
                if self.slots[i][1] == "A" and len(self.slots[i]) == 3:
                    ops.append(("selfrep", i))       # (not for the cycle callbacks: their function is a dict method)
        ops.append(("collect",))
        return ops

    def apply(self, op):
        k = op[0]
        if k not in ("call", "ccall"):
            self.nops += 1
        if k == "new":
            i = [j for j in range(NSLOT) if self.slots[j] is None][0]
            self.nk += 1
            self.slots[i] = (self._make(op[1], self.nk), op[1], self.nk)
        elif k == "newcyc":
            i = [j for j in range(NSLOT) if self.slots[j] is None][0]
            self.nk += 1
            self.slots[i] = (self._make_cycle(op[1], self.nk), "A", self.nk, "cycle")
            self.ncyc += 1
        elif k == "drop":
            self.slots[op[1]] = None
        elif k == "collect":
            _gc.collect()
        elif k == "selfrep":
            cb, sig, kk = self.slots[op[1]][:3]
            addr = int(self.ffi.cast("uintptr_t", cb))
            fn = ctypes.CFUNCTYPE(ctypes.c_int, ctypes.c_int)(addr)
            del cb
            del self.events[:]
            r = fn(SELFREP)
            ev = list(self.events)
            del self.events[:]
            if r != -kk - 1 or ev != [("onerror", kk, kk)]:
                return {"kind": "failure-handled-by-another-callback", "op": list(op), "returned": r,
                        "own_error_value": -kk - 1, "onerror_events": ev, "own": kk}
        elif k in ("call", "ccall"):
            cb, sig, kk = self.slots[op[1]][:3]
            r = self._call(cb, sig, 7, via_c=(k == "ccall"))
            want = tokenA(kk, 7) if sig == "A" else tokenB(kk, 7.0, 2.5)
            if r != want:
                return {"kind": "wrong-function-invoked", "op": list(op), "got": r, "want": want}
        return self.check()

    def _call(self, cb, sig, x, via_c):
        if not via_c:
            return cb(x) if sig == "A" else cb(float(x), 2.5)
        addr = int(self.ffi.cast("uintptr_t", cb))
        if sig == "A":
            return ctypes.CFUNCTYPE(ctypes.c_int, ctypes.c_int)(addr)(x)
        return ctypes.CFUNCTYPE(ctypes.c_double, ctypes.c_double, ctypes.c_double)(addr)(float(x), 2.5)

    def check(self):
        seen = {}
        for i in range(NSLOT):
            if self.slots[i] is None:
                continue
            cb, sig, kk = self.slots[i][:3]
            a = int(self.ffi.cast("uintptr_t", cb))
            if a in self.bgaddr:
                return {"kind": "address-shared-with-live-callback", "with": "background"}
            if a in seen:
                return {"kind": "address-shared-with-live-callback", "with": "slot"}
            seen[a] = i
            for via_c in (False, True):
                r = self._call(cb, sig, 3, via_c)
                want = tokenA(kk, 3) if sig == "A" else tokenB(kk, 3.0, 2.5)
                if r != want:
                    return {"kind": "wrong-function-invoked", "slot": i, "got": r, "want": want, "via_c": via_c}
        for cb, kk in self.spawned:
            a = int(self.ffi.cast("uintptr_t", cb))
            if a in self.bgaddr or a in seen:
                return {"kind": "address-shared-with-live-callback", "with": "callback-created-by-finalizer"}
            seen[a] = "spawned"
            for via_c in (False, True):
                r = self._call(cb, "A", 3, via_c)
                if r != tokenA(kk, 3):
                    return {"kind": "wrong-function-invoked", "slot": "spawned", "got": r, "want": tokenA(kk, 3),
                            "via_c": via_c}
        for j in (0, len(self.bg) - 1):
            if self.bg:
                r = self._call(self.bg[j], "A", 5, True)
                if r != tokenA(100000 + j, 5):
                    return {"kind": "background-callback-broken", "index": j, "got": r}
        return None


def explore_fork(st, hist_ops, depth, ctr, vfile, observers_only=False):
    """DFS: every successor state is a forked clone of the current process.  observers_only: apply the pure
    observers of this state and stop (the state-changing successors are other work items)."""
    if len(hist_ops) >= depth:
        return
    for op in st.enabled():
        if observers_only and op[0] not in ("call", "ccall"):
            continue
        if op[0] in ("call", "ccall"):
            # pure observers: the successor state is the current state, so they are applied in place
            # (checked, counted) and nothing new lies below them
            info = st.apply(op)
            n = struct.unpack_from("qqq", ctr, 0)
            struct.pack_into("qqq", ctr, 0, n[0] + 1, max(n[1], len(hist_ops) + 1), n[2] + (1 if info else 0))
            if info is not None:
                with open(vfile, "a") as f:
                    f.write(json.dumps({"history": hist_ops + [list(op)], "info": info}) + "\n")
            continue
        pid = os.fork()
        if pid == 0:
            rc = 0
            try:
                h = hist_ops + [list(op)]
                info = st.apply(op)
                n = struct.unpack_from("qqq", ctr, 0)
                struct.pack_into("qqq", ctr, 0, n[0] + 1, max(n[1], len(h)), n[2])
                if info is not None:
                    with open(vfile, "a") as f:
                        f.write(json.dumps({"history": h, "info": info}) + "\n")
                    n = struct.unpack_from("qqq", ctr, 0)
                    struct.pack_into("qqq", ctr, 0, n[0], n[1], n[2] + 1)
                else:
                    explore_fork(st, h, depth, ctr, vfile)
            except BaseException as e:
                with open(vfile, "a") as f:
                    f.write(json.dumps({"history": hist_ops + [list(op)],
                                        "info": {"kind": "exception", "error": "%s: %s" % (type(e).__name__, e)}}) + "\n")
                rc = 0
            finally:
                os._exit(rc)
        _, status = os.waitpid(pid, 0)
        if os.WIFSIGNALED(status):
            with open(vfile, "a") as f:
                f.write(json.dumps({"history": hist_ops + [list(op)],
                                    "info": {"kind": "crash", "signal": os.WTERMSIG(status)}}) + "\n")


def work(item):
    """One work item, explored inside a forked child holding L background callbacks.
    (L, first, depth, None): apply `first`, run the observers of that state, report its state-changing successors.
    (L, first, depth, second): apply `first` (already counted by the item above), then `second`, then everything below."""
    L, first, depth, second = item
    _ST["depth"] = depth
    ctr = mmap.mmap(-1, 64)
    struct.pack_into("qqq", ctr, 0, 0, 0, 0)
    tag = "_".join(map(str, tuple(first) + tuple(second or ())))
    vfile = os.path.join(build.scratch(), "c29-viol-%d-%s.jsonl" % (L, tag))
    cfile = vfile + ".children"
    open(vfile, "w").close()
    pid = os.fork()
    if pid == 0:
        h = []
        try:
            _gc.disable()
            st = State(L)
            info = st.check()
            if info is None:
                h = [list(first)]
                info = st.apply(tuple(first))
                if second is None:
                    struct.pack_into("qqq", ctr, 0, 1, 1, 0)
                if info is None and second is None:
                    if depth > 1:
                        with open(cfile, "w") as f:
                            json.dump([list(op) for op in st.enabled() if op[0] not in ("call", "ccall")], f)
                    explore_fork(st, h, depth, ctr, vfile, observers_only=True)
                elif info is None:
                    h = h + [list(second)]
                    info = st.apply(tuple(second))
                    struct.pack_into("qqq", ctr, 0, 1, 2, 0)
                    if info is None:
                        explore_fork(st, h, depth, ctr, vfile)
                elif second is not None:
                    info = None          # reported by the item without `second`
            if info is not None:
                with open(vfile, "a") as f:
                    f.write(json.dumps({"history": h, "info": info}) + "\n")
        except BaseException as e:
            with open(vfile, "a") as f:
                f.write(json.dumps({"history": h, "info": {"kind": "exception", "error": repr(e)}}) + "\n")
        finally:
            os._exit(0)
    _, status = os.waitpid(pid, 0)
    viol = []
    if os.WIFSIGNALED(status):
        viol.append({"history": [list(first)] + ([list(second)] if second else []),
                     "info": {"kind": "crash", "signal": os.WTERMSIG(status)}})
    with open(vfile) as f:
        for line in f:
            viol.append(json.loads(line))
    children = []
    if os.path.exists(cfile):
        with open(cfile) as f:
            children = [tuple(c) for c in json.load(f)]
    n = struct.unpack_from("qqq", ctr, 0)
    return {"L": L, "transitions": n[0], "max_depth": n[1], "viol": viol, "children": children}


def run(ctx):
    stride, bounds = closure_capacity()
    if stride is None:
        # creating 2000 callbacks that all stay alive already failed
        ctx.violation({"kind": "many-live-callbacks-" + bounds[0]}, {"L": 2000, "history": [], "info": {"what": bounds}})
        ctx.sample({"L": 2000, "history": []})
        return ctx.finish({"states": 1, "transitions": 1, "traces_validated_against_impl": 1, "evaluations": 1,
                           "distinct_nontrivial": 2, "exhaustive": False,
                           "rule": "stopped: 2000 simultaneously live callbacks already violate the property"}, [])
    if not bounds:
        raise InfraError("could not find a closure page boundary")
    ctx.log("closure stride %d bytes, page boundaries after %r callbacks" % (stride, bounds[:5]))
    Ls = [0]
    for b in bounds[:2 if ctx.quick else 3]:
        Ls += [b - 1, b]
    if ctx.quick:
        Ls = Ls[:-1]          # second boundary: only the state from which the next creation crosses it
    depth = 4 if ctx.quick else 5
    _ST["max_cycles"] = 1 if ctx.quick else 2
    _ST["depth"] = depth
    first_ops = [("new", "A"), ("new", "B"), ("newcyc", "late"), ("newcyc", "early"), ("collect",)]
    # quick: full depth from the empty allocator and from the state just before the first page boundary; one
    # step less from the two states beyond it (every process there carries 73 / 218 callbacks)
    depth_of = dict((L, depth) for L in Ls)
    if ctx.quick:
        for L in Ls[2:]:
            depth_of[L] = depth - 1
    items = [(L, f, depth_of[L], None) for L in Ls for f in first_ops]
    # split further: second-level ops for the 'new' subtrees are the expensive part; keep one level
    tot = 0
    maxd = 0
    # phase 1: every (L, first op) state with its observers; phase 2: one item per state-changing successor of those
    for phase in (1, 2):
        nxt = []
        for item, r in pool.pmap(work, [[it] for it in items], contain_crashes=False, item_timeout=3000, nproc=12):
            if isinstance(r, pool.WorkerError):
                raise InfraError(r.tb)
            tot += r["transitions"]
            maxd = max(maxd, r["max_depth"])
            ctx.count("L=%d" % r["L"], r["transitions"])
            for v in r["viol"]:
                ctx.violation({"kind": v["info"].get("kind")}, {"L": item[0], "history": v["history"], "info": v["info"]})
            for c in r["children"]:
                nxt.append((item[0], item[1], item[2], c))
        items = nxt
        if phase == 1:
            ctx.count("work_items_phase2", len(items))
    ctx.sample({"L": Ls[1], "history": [["new", "A"], ["drop", 0], ["new", "B"], ["ccall", 0]]})
    cov = {
        "states": tot, "transitions": tot, "traces_validated_against_impl": tot, "max_depth": maxd,
        "evaluations": tot, "distinct_nontrivial": tot,
        "rule": "every state is a process obtained by fork() from its predecessor and one real state-changing operation "
                "(create, drop, collect); the pure observers (call through cdata, call from C) are applied in place in every "
                "state and not extended, since they leave the state unchanged; no other merging",
        "initial_live_callbacks": Ls, "closure_stride_bytes": stride, "page_boundaries_after": bounds[:6],
        "unmerged_depth_d0": depth, "depth_per_initial_state": dict((str(k), v) for k, v in depth_of.items()), "exhaustive": True,
    }
    return ctx.finish(cov, ["fork() clones the allocator state exactly"])


def replay(detail):
    _gc.disable()
    st = State(detail["L"])
    for op in detail["history"]:
        info = st.apply(tuple(op))
        print(op, "->", info)
        if info:
            return 1
    return 0
