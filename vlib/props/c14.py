"""C14 -- callbacks and extern "Python" pass values exactly and contain errors.

E1: signature alphabet (every unary `R f(A)` over 24 argument x 25 result types incl.
long double and by-value structs/union, `R f(void)`, binary functions over an 8-type
subset, three 6-argument functions, 15 further types -- enums, typedef'ed / stdint integer
names, char16_t, char32_t, void *, char **, a function pointer -- as `X f(X)`,
`long long f(X)`, `X f(long long)`, four wide signatures of 12-22 arguments)
x mechanisms {ffi.callback of the compiled module's FFI, ffi.callback of an in-line FFI,
@ffi.def_extern; direct and decorator form, cdecl as pointer and as function type,
def_extern with and without name=, extern "Python" and extern "Python+C"; a callable whose
repr() raises} x error configurations {none, error=e, onerror->None (with and without
error=), onerror->value, onerror raising, onerror returning an unconvertible value / a
half-convertible initialiser} x Python bodies {return r for every r of the result
alphabet (convertible and unconvertible; Python natives, cdata of the same / a wider /
another type, objects with __int__+__index__ / __float__), raise an Exception, a
BaseException (KeyboardInterrupt, SystemExit, GeneratorExit), StopIteration, an exception
that cannot be instantiated, one whose __str__ raises; re-enter the C caller (nested
invocation whose inner body raises)}.

The caller is compiled C (in the same module as the extern "Python" trampolines): it
takes its arguments from constant tables generated from B(A), calls the function
pointer / the extern "Python" function and stores the raw bytes it received.  It is
invoked through ctypes; the tables' values and the expected encodings of results are
computed in Python/ctypes/gcc without cffi.  The tables of wchar_t / char32_t / _Bool also
hold objects without a Python counterpart (not a code point; a _Bool byte of 2 or 255).

Supplements: _c14_complex (complex arguments/results of extern "Python" functions) and
_c14_structs (every by-value struct shape of C13's struct space as argument and as result
of a callback and of an extern "Python" function).

Oracle: (1) the Python function was invoked exactly once and saw exactly the table's
values (an argument without Python counterpart: the function need not be invoked, the call
is then an error case); (2) C received the encoding of r if r is convertible, else the
error value (zero-filled / error= / onerror's value); (3) no exception propagates to the
code that called the C caller; sys.unraisablehook fires exactly in the error cases without
onerror, onerror is called exactly once in the error cases with onerror.
"""
import collections
import ctypes
import itertools
import os
import shutil
import struct
import sys
import time

from .. import build, cref, pool
from ..build import InfraError
from . import c13
from .c13 import STD_INTS, STRUCTS, cd2py, enc, dec

ID = "C14"
LEVEL = "exploration"
META = dict(
    engine="E1-enum", level="exploration",
    technique="exhaustive enumeration of signatures x mechanisms x error configurations x argument/result alphabets; "
              "a compiled C caller (driven through ctypes) passes table values and records the raw bytes it receives",
    text="Every unary signature over 24 argument x 25 result types (all integer types, _Bool, char, wchar_t, float, "
         "double, long double, 3 pointer types, 4 by-value structs, a by-value union, void), nullary, binary (8-type "
         "subset), 6-argument and 12-22-argument signatures, and 15 further types (enums, typedef/stdint integer names, "
         "char16_t, char32_t, void *, char **, function pointer) are instantiated through 8 mechanism spellings "
         "(ffi.callback of a compiled and of an in-line FFI in direct and decorator form, extern \"Python\" / "
         "\"Python+C\" with def_extern(name=) and by __name__, callables whose repr() raises) under 11 error "
         "configurations (none, error=, onerror returning None / a value / an unconvertible value / a half-convertible "
         "initialiser, onerror raising); a C caller feeds every in-range boundary value of each argument type (and "
         "wchar_t/char32_t/_Bool objects that have no Python counterpart), the Python body returns every element of the "
         "result alphabet (in range, out of range, wrong type, cdata of the same/wider/other type, __int__/__float__ "
         "objects, partial and half-convertible initialisers), raises one of 7 kinds of exception or re-enters the C "
         "caller.  Every by-value struct shape of C13's struct space (all field sequences up to length 2, thorough 3, over "
         "22 field kinds) is passed to and returned from a callback and an extern \"Python\" function, with raise / "
         "unconvertible / error= / onerror cases.  Arguments seen, bytes received by C, containment of the exception, "
         "unraisablehook and onerror invocations are compared with an independent model.",
    note="expected values come from Python/ctypes/gcc, never from cffi; result-widening to ffi_arg is invisible on "
         "x86-64 (libffi's closure return path re-extends from the first bytes), so it is not judged; struct results of "
         "the shape supplement are compared through a C-side weighted checksum of all leaves; a struct with a long "
         "double leaf is outside the alphabet; quick about 45 s, thorough about 3 min on the idle 16-core machine")

UNION_DECL = "union u1 { int i; double d; char c[3]; };\ntypedef int (*fp_t)(int);\n"
PTRS = ["char *", "int *", "struct s3 *"]
# further types of the statement ("every signature over supported types"), exercised as `X f(X)`, `long long f(X)` and
# `X f(long long)` (family "x"): enums (CT_IS_ENUM + signed/unsigned), typedef'ed and stdint integer names (distinct
# ctype objects), the 2- and 4-byte unicode characters, void * / pointer to pointer / function pointer
X_INTS = ["enum e1", "enum e2", "uint8_t", "int16_t", "int32_t", "uint64_t", "u16_t", "i64_t", "intptr_t", "size_t"]
X_TYPES = X_INTS + ["char16_t", "char32_t", "void *", "char **", "fp_t"]
PTRK = ("pc", "pi", "ps", "pv", "ppc")
CNAME = {"char **": "char * *", "fp_t": "int(*)(int)"}
T_ARGS = STD_INTS + ["_Bool", "char", "wchar_t", "float", "double", "long double"] + PTRS + STRUCTS + ["union u1"]
T_RETS = T_ARGS + ["void"]
BIN8 = ["signed char", "unsigned short", "int", "unsigned long", "float", "double", "int *", "struct s3"]

S_LEAVES = {
    "struct s1": [("a", "unsigned char")],
    "struct s2": [("x", "float"), ("y", "float")],
    "struct s3": [("a", "long"), ("b", "double")],
    "struct s4": [("a", "int"), ("c", "char[5]"), ("d", "double"), ("e", "long long"), ("s", "short"),
                  ("n.a", "unsigned char")],
}
S_VALUES = {
    "struct s1": [{"a": 0}, {"a": 200}, {"a": 255}],
    "struct s2": [{"x": 1.5, "y": -2.5}, {"x": 0.0, "y": float("inf")}, {"x": -0.0, "y": 1.401298464324817e-45}],
    "struct s3": [{"a": 5, "b": 2.5}, {"a": -2 ** 63, "b": -0.0}, {"a": 2 ** 63 - 1, "b": 1.7976931348623157e308}],
    "struct s4": [{"a": 1, "c": b"abcde", "d": 2.5, "e": -3, "s": 4, "n.a": 5},
                  {"a": -2 ** 31, "c": b"\x00\xff\x80\x7f\x01", "d": -0.0, "e": 2 ** 63 - 1, "s": -2 ** 15, "n.a": 255},
                  {"a": 2 ** 31 - 1, "c": b"\x00\x00\x00\x00\x00", "d": 5e-324, "e": -2 ** 63, "s": 2 ** 15 - 1, "n.a": 0}],
}
U_VALUES = [struct.pack("<d", 1.5), struct.pack("<ii", 42, 0), b"abc\x00\x00\x00\x00\x00"]
LD_EXPRS = ["1.25L", "-0.0L", "(1.0L + 0x1p-60L)", "__builtin_infl()", "1e4000L", "0x1p-16445L", "-3.0L"]
F_VALUES = [0.0, -0.0, 1.5, -2.25, float("inf"), float("-inf"), float("nan"), 3.4028234663852886e38,
            1.401298464324817e-45, 16777216.0, 0.10000000149011612]
D_VALUES = [0.0, -0.0, 1.5, -2.25, float("inf"), float("-inf"), float("nan"), 1.7976931348623157e308, 5e-324,
            2.2250738585072014e-308, 0.1, 9007199254740993.0]
C_VALUES = [0, 1, 65, 127, 128, 255]
W_VALUES = [0, 97, 0xff, 0x100, 0xd7ff, 0xe000, 0xffff, 0x10000, 0x10ffff]
# argument tables of the character types; the values after the valid ones have no Python counterpart (not a code
# point): the arguments cannot be converted, see UNCALLABLE below
W_ARGS = {"wchar_t": W_VALUES + [0x110000, -1],
          "char32_t": W_VALUES + [0xd800, 0x110000, 0xffffffff],
          "char16_t": [0, 97, 0xff, 0x100, 0xd7ff, 0xd800, 0xdfff, 0xe000, 0xffff]}
BOOL_BAD_BYTES = [2, 255]              # a _Bool object whose byte is neither 0 nor 1 (stored with memcpy)
P_OFFSETS = [None, 0, 8, 16]            # NULL or c14_static + k

LEAF_SIZE = {"unsigned char": 1, "short": 2, "int": 4, "long": 8, "long long": 8}
_MODEL = None


def kind_of(t):
    if t == "long double":
        return "ld"
    if t == "union u1":
        return "union"
    if t == "char **":
        return "ppc"
    if t == "fp_t":
        return "fp"
    return c13.kind_of(t)


def model():
    """Facts from gcc: integer ranges, sizes, struct leaf offsets, long double images."""
    global _MODEL
    if _MODEL is not None:
        return _MODEL
    rng = c13.facts()
    src = ["#include <stdio.h>\n#include <stddef.h>\n#include <stdint.h>\n#include <string.h>\n#include <wchar.h>\n"
           "#include <uchar.h>\n#include <sys/types.h>\n", c13.STRUCT_DECLS, UNION_DECL, "int main(void){\n"]
    for t in T_ARGS + X_TYPES:
        src.append('printf("Z|%s|%%d\\n", (int)sizeof(%s));\n' % (t, t))
    for t, leaves in S_LEAVES.items():
        for path, lt in leaves:
            src.append('printf("O|%s|%s|%%d\\n", (int)offsetof(%s, %s));\n' % (t, path, t, path))
    for i, e in enumerate(LD_EXPRS):
        src.append('{ long double x = %s; unsigned char b[16]; int k; memset(b, 0, 16); memcpy(b, &x, sizeof x); '
                   'printf("L|%d|"); for (k = 0; k < 10; k++) printf("%%02x", b[k]); printf("\\n"); }\n' % (e, i))
    src.append("return 0;}\n")
    size, off, ld = {}, {}, {}
    for line in cref.run_c("".join(src)).splitlines():
        p = line.split("|")
        if p[0] == "Z":
            size[p[1]] = int(p[2])
        elif p[0] == "O":
            off[(p[1], p[2])] = int(p[3])
        else:
            ld[int(p[1])] = bytes.fromhex(p[2])
    size["void"] = 0
    _MODEL = {"range": rng, "size": size, "off": off, "ld": ld}
    return _MODEL


# ------------------------------------------------------------------------------------
# model values: how they are written in C, what Python must see, how C must receive them

def in_range_values(t):
    lo, hi = model()["range"][t]
    return [v for v in cref.boundary_values(lo, hi) if lo <= v <= hi]


def arg_values(t, small=False):
    """Model values the C caller passes for an argument of type t."""
    k = kind_of(t)
    if k in ("int", "bool"):
        vs = in_range_values(t)
        if small:
            lo, hi = model()["range"][t]
            vs = sorted({lo, -1 if lo < 0 else 1, 0, hi})
        elif k == "bool":
            vs = vs + BOOL_BAD_BYTES
        return vs
    vs = {"char": C_VALUES, "wchar": W_ARGS.get(t), "ld": list(range(len(LD_EXPRS))), "pc": P_OFFSETS, "pi": P_OFFSETS,
          "ps": P_OFFSETS, "pv": P_OFFSETS, "ppc": P_OFFSETS, "fp": [None, 0, 1],
          "union": list(range(len(U_VALUES)))}.get(k)
    if vs is None:
        vs = F_VALUES if t == "float" else D_VALUES if t == "double" else list(range(len(S_VALUES[t])))
    return vs[:4] if small else vs


def arg_unconvertible(t, mv):
    """The C value has no Python counterpart: convert_to_object() fails before the Python function can be called."""
    k = kind_of(t)
    if k == "wchar":
        return model()["size"][t] == 4 and not 0 <= mv <= 0x10ffff
    return k == "bool" and mv > 1


def c_float(v, suffix=""):
    if v != v:
        return "__builtin_nan%s(\"\")" % suffix
    if v in (float("inf"), float("-inf")):
        return ("-" if v < 0 else "") + "__builtin_inf%s()" % suffix
    return "%s%s" % (v.hex(), suffix)


def c_struct(t, mv):
    parts = []
    for path, lt in S_LEAVES[t]:
        v = mv[path]
        if lt == "char[5]":
            lit = "{%s}" % ", ".join("(char)%d" % b for b in v)
        elif lt in ("float", "double"):
            lit = c_float(v, "f" if lt == "float" else "")
        elif v == -2 ** 63:
            lit = "(-9223372036854775807LL - 1)"
        else:
            lit = "%dLL" % v
        parts.append(".%s = %s" % (path, lit))
    return "{ %s }" % ", ".join(parts)


def c_literal(t, mv):
    k = kind_of(t)
    if k in ("int", "bool", "char", "wchar"):
        if mv == -2 ** 63:
            return "(%s)(-9223372036854775807LL - 1)" % t
        return "(%s)%d%s" % (t, mv, "ULL" if mv >= 2 ** 63 else "LL")
    if k == "float":
        return c_float(mv, "f" if t == "float" else "")
    if k == "ld":
        return LD_EXPRS[mv]
    if k in PTRK:
        return "(%s)0" % t if mv is None else "(%s)(c14_static + %d)" % (t, mv)
    if k == "fp":
        return "(fp_t)0" if mv is None else "c14_fn%d" % mv
    if k == "struct":
        return c_struct(t, S_VALUES[t][mv])
    if k == "union":
        return "{ .c = {0} }"       # filled at start-up from bytes, see c14_init
    raise InfraError(t)


def _dbits(v):
    return struct.pack("<d", v).hex()


def _as_float32(v):
    return ctypes.c_float(v).value


def seen_expected(t, mv, L):
    """What the Python function must see for model value mv (same shape as capture())."""
    k = kind_of(t)
    if k == "int":
        return ("int", mv)
    if k == "bool":
        return ("bool", bool(mv))
    if k == "char":
        return ("bytes", bytes([mv]))
    if k == "wchar":
        return ("str", (mv,))
    if k == "float":
        return ("float", _dbits(_as_float32(mv) if t == "float" else mv))
    if k == "ld":
        return ("ld", model()["ld"][mv])
    if k in PTRK:
        return ("ptr", CNAME.get(t, t), 0 if mv is None else L.static + mv)
    if k == "fp":
        return ("ptr", CNAME[t], 0 if mv is None else L.fnaddr[mv])
    if k == "union":
        return ("union", U_VALUES[mv])
    return struct_shape(t, S_VALUES[t][mv])


def struct_shape(t, mv):
    """The cd2py() shape of a struct with leaf values mv."""
    def leaf(lt, v):
        if lt == "char[5]":
            return ("A", "char[5]", tuple(("bytes", bytes([b])) for b in v))
        if lt == "float":
            return ("f", _dbits(_as_float32(v)))
        if lt == "double":
            return ("f", _dbits(v))
        return ("int", v)
    out = []
    for path, lt in S_LEAVES[t]:
        if "." in path:
            outer, inner = path.split(".")
            out.append((outer, ("S", "struct s1", ((inner, leaf(lt, mv[path])),))))
        else:
            out.append((path, leaf(lt, mv[path])))
    return ("S", t, tuple(out))


def capture(ffi, t, x):
    """Turn what the Python function received into comparable data (during the call)."""
    k = kind_of(t)
    if k == "float":
        return ("float", _dbits(x)) if type(x) is float else ("?", repr(x))
    if k in ("int", "bool", "char"):
        return (type(x).__name__, x)
    if k == "wchar":
        return ("str", tuple(ord(ch) for ch in x)) if type(x) is str else ("?", repr(x))
    if k == "ld":
        return ("ld", bytes(ffi.buffer(ffi.new("long double *", x)))[:10])
    if k in PTRK or k == "fp":
        return ("ptr", ffi.typeof(x).cname, int(ffi.cast("uintptr_t", x)))
    if k == "union":
        return ("union", bytes(ffi.buffer(ffi.addressof(x))))
    return cd2py(ffi, x)


def encode(t, mv, L):
    """[(offset, bytes)] that the C caller must have received for model value mv."""
    k = kind_of(t)
    m = model()
    if k == "void":
        return []
    if k in ("int", "bool"):
        lo, _hi = m["range"][t]
        return [(0, int(mv).to_bytes(m["size"][t], "little", signed=lo < 0))]
    if k == "char":
        return [(0, mv)]
    if k == "wchar":
        return [(0, mv.to_bytes(m["size"][t], "little", signed=m["range"][t][0] < 0))]
    if k == "float":
        return [(0, struct.pack("<f", _as_float32(mv)) if t == "float" else struct.pack("<d", mv))]
    if k == "ld":
        return [(0, bytes(ctypes.c_longdouble(mv))[:10])]
    if k in PTRK:
        return [(0, (0 if mv is None else L.static + mv).to_bytes(8, "little"))]
    if k == "fp":
        return [(0, (0 if mv is None else L.fnaddr[mv]).to_bytes(8, "little"))]
    if k == "union":
        return [(0, mv)]
    segs = []
    for path, lt in S_LEAVES[t]:
        v = mv.get(path)
        o = m["off"][(t, path)]
        if lt == "char[5]":
            b = bytes(v)
        elif lt == "float":
            b = struct.pack("<f", _as_float32(v))
        elif lt == "double":
            b = struct.pack("<d", v)
        else:
            b = int(v).to_bytes(LEAF_SIZE[lt], "little", signed=lt != "unsigned char")
        segs.append((o, b))
    return segs


def zero_value(t):
    k = kind_of(t)
    if k in ("int", "bool"):
        return 0
    if k == "char":
        return b"\x00"
    if k == "wchar":
        return 0
    if k in ("float", "ld"):
        return 0.0
    if k in PTRK or k == "fp":
        return None
    if k == "union":
        return b"\x00" * 8
    if k == "struct":
        return {p: (b"\x00" * 5 if lt == "char[5]" else 0.0 if lt in ("float", "double") else 0) for p, lt in S_LEAVES[t]}
    return None


# ---- result alphabets: (label, spec, model value or UNCONV) --------------------------------

UNCONV = "unconvertible"

WRONG = [("py:NoneType", ("py", None)), ("py:str", ("py", "x")), ("py:list", ("py", [1])), ("py:dict", ("py", {"q": 1}))]


def struct_init(t, mv, form):
    """A Python initialiser (tuple or dict) for the by-value struct with leaves mv."""
    def val(path, lt):
        return mv[path]
    if form == "dict":
        d = {}
        for path, lt in S_LEAVES[t]:
            if "." in path:
                o, i = path.split(".")
                d[o] = {i: mv[path]}
            else:
                d[path] = mv[path]
        return d
    out = []
    for path, lt in S_LEAVES[t]:
        out.append((mv[path],) if "." in path else mv[path])
    return tuple(out)


def bad_initializer(t):
    """An initialiser of the by-value struct/union t whose LAST item cannot be converted: the conversion fails after
    the result buffer has been cleared and the leading fields have been written."""
    if kind_of(t) == "union":
        return ("x",)
    tup = list(struct_init(t, S_VALUES[t][2], "tuple"))
    tup[-1] = "x"
    return tuple(tup)


def onerror_bad_spec(t, how):
    """What the onerror handler returns in the configurations onerror-badvalue / onerror-badinit."""
    if how == "onerror-badinit":
        return ("py", bad_initializer(t))
    if kind_of(t) in ("struct", "union"):
        return ("py", 5)
    for lab, spec, mv in ret_alphabet(t):
        if mv is UNCONV and lab in ("int:above", "py:bytes:len2", "py:str:len2", "py:int:huge", "cdata:other-ptr",
                                    "cdata:other-fnptr", "py:int"):
            return spec
    raise InfraError("no unconvertible value for %s" % t)


def ret_alphabet(t):
    k = kind_of(t)
    m = model()
    out = []
    if k == "void":
        return [("py:NoneType", ("py", None), None), ("py:int", ("py", 0), UNCONV), ("py:str", ("py", "x"), UNCONV),
                ("py:tuple", ("py", ()), UNCONV)]
    if k in ("int", "bool"):
        lo, hi = m["range"][t]
        for v in cref.boundary_values(lo, hi):
            out.append(("int:in", ("py", v), v) if lo <= v <= hi else
                       ("int:below" if v < lo else "int:above", ("py", v), UNCONV))
        out += [("py:bool", ("py", True), 1), ("py:float", ("py", 1.5), UNCONV), ("py:float", ("py", 1.0), UNCONV),
                ("py:bytes", ("py", b"x"), UNCONV), ("cdata:double", ("cast", "double", 1.0), UNCONV)]
        # result objects that are not Python ints: a cdata of the result type itself, a cdata of a wider integer type
        # (in and out of range: small signed results are converted twice, convert_from_object_fficallback), objects
        # implementing the integer protocol (both __int__ and __index__, so that every reading of "int() works" agrees)
        for v in sorted({lo, hi, 1}):
            out.append(("cdata:same", ("cast", t, v), v))
        wide = "long long" if lo < 0 else "unsigned long long"
        wlo, whi = m["range"][wide]
        out.append(("cdata:wider", ("cast", wide, hi), hi))
        if hi + 1 <= whi:
            out.append(("cdata:wider:above", ("cast", wide, hi + 1), UNCONV))
        if wlo <= lo - 1:
            out.append(("cdata:wider:below", ("cast", wide, lo - 1), UNCONV))
        out += [("obj:int+index", ("obj", "num", hi), hi), ("obj:int+index", ("obj", "num", lo), lo),
                ("obj:int+index:above", ("obj", "num", hi + 1), UNCONV), ("obj:float", ("obj", "float", 1.0), UNCONV)]
        if t.startswith("enum "):
            out.append(("py:str:enumerator", ("py", "E1B" if t == "enum e1" else "E2B"), UNCONV))
    elif k == "char":
        out += [("py:bytes", ("py", bytes([v])), bytes([v])) for v in C_VALUES]
        out += [("py:bytes:len0", ("py", b""), UNCONV), ("py:bytes:len2", ("py", b"ab"), UNCONV), ("py:int", ("py", 65), UNCONV),
                ("py:float", ("py", 1.5), UNCONV)]
        out += [("cdata:same", ("cast", "char", v), bytes([v])) for v in (0, 65, 255)]
        out += [("cdata:signed char", ("cast", "signed char", 65), UNCONV)]
    elif k == "wchar":
        hi = m["range"][t][1]
        out += [("py:str", ("py", chr(v)), v) for v in W_VALUES + [0xd800, 0xdfff] if v <= hi]
        out += [("py:str:len0", ("py", ""), UNCONV), ("py:str:len2", ("py", "ab"), UNCONV), ("py:int", ("py", 65), UNCONV),
                ("py:bytes", ("py", b"a"), UNCONV)]
        if hi < 0x10000:
            out.append(("py:str:nonbmp", ("py", chr(0x10000)), UNCONV))     # needs two char16_t
        out += [("cdata:same", ("cast", t, v), v) for v in (0, 0x100, 0xffff)]
        out += [("cdata:char", ("cast", "char", 65), UNCONV)]
    elif k in ("float", "ld"):
        vs = F_VALUES if t == "float" else D_VALUES
        out += [("py:float", ("py", v), v) for v in vs + [1e39, -1e39, 1e-46]]
        out += [("py:int", ("py", v), float(v)) for v in (0, 1, -1, 2 ** 24 + 1, 2 ** 53 + 1, 2 ** 63, -2 ** 64, 10 ** 30)]
        out += [("py:bool", ("py", True), 1.0), ("py:int:huge", ("py", 2 ** 1024), UNCONV),
                ("py:bytes", ("py", b"x"), UNCONV)]
        if k == "ld":
            out += [("cdata:long double", ("cast", "long double", 1.25), 1.25)]
        out += [("cdata:double", ("cast", "double", -7.5), -7.5)]
        out += [("cdata:float", ("cast", "float", 2.5), 2.5), ("cdata:int", ("cast", "int", 1), UNCONV),
                ("obj:float", ("obj", "float", -3.5), -3.5)]
    elif k in PTRK:
        out += [("cdata:ptr", ("ptr", t, o), o) for o in P_OFFSETS[1:]]
        out += [("cdata:NULL", ("null",), None), ("cdata:void*", ("ptr", "void *", 8), 8),
                ("cdata:typed-NULL", ("cast", t, 0), None),
                # any pointer converts to 'void *'; a pointer to another type converts to nothing else
                ("cdata:other-ptr", ("ptr", "short *", 8), 8 if k == "pv" else UNCONV), ("py:int", ("py", 0), UNCONV),
                ("py:bytes", ("py", b"x"), UNCONV), ("cdata:int", ("cast", "int", 0), UNCONV)]
        if k == "ppc":
            out.append(("cdata:other-ptr", ("ptr", "char *", 8), UNCONV))
    elif k == "fp":
        out += [("cdata:fnptr", ("fn", i), i) for i in (0, 1)]
        out += [("cdata:NULL", ("null",), None), ("cdata:typed-NULL", ("cast", "fp_t", 0), None),
                ("cdata:other-fnptr", ("fncast", "long(*)(long)", 0), UNCONV), ("py:int", ("py", 0), UNCONV),
                ("py:function", ("pyfn",), UNCONV), ("cdata:int", ("cast", "int", 0), UNCONV),
                ("cdata:data-ptr", ("ptr", "char *", 8), UNCONV)]
    elif k == "union":
        out += [("cdata:union", ("union", i), U_VALUES[i]) for i in range(len(U_VALUES))]
        out += [("py:int", ("py", 5), UNCONV), ("cdata:struct", ("struct", "struct s1", {"a": 1}), UNCONV),
                ("init:bad-tail", ("py", bad_initializer(t)), UNCONV)]
    else:
        for mv in S_VALUES[t]:
            out.append(("cdata:struct", ("struct", t, mv), mv))
            out.append(("init:tuple", ("py", struct_init(t, mv, "tuple")), mv))
            out.append(("init:dict", ("py", struct_init(t, mv, "dict")), mv))
        # partial initialisers: what is not given must arrive as zero (as with ffi.new)
        first = S_LEAVES[t][0]
        z = zero_value(t)
        z1 = dict(z)
        z1[first[0]] = S_VALUES[t][1][first[0]]
        if len(S_LEAVES[t]) > 1:
            out.append(("init:partial", ("py", (S_VALUES[t][1][first[0]],)), z1))
            out.append(("init:partial", ("py", {first[0]: S_VALUES[t][1][first[0]]}), z1))
        out.append(("init:partial", ("py", ()), z))
        out.append(("init:partial", ("py", {}), z))
        other = "struct s1" if t != "struct s1" else "struct s3"
        out += [("cdata:other-struct", ("struct", other, S_VALUES[other][0]), UNCONV), ("py:int", ("py", 5), UNCONV),
                ("init:too-many", ("py", tuple(range(9))), UNCONV), ("init:bad-key", ("py", {"zz": 1}), UNCONV),
                ("cdata:ptr", ("structptr", t, S_VALUES[t][0]), UNCONV),
                ("init:bad-tail", ("py", bad_initializer(t)), UNCONV)]
    if k != "void":
        out += [(lab, sp, UNCONV) for lab, sp in WRONG
                if not (k in ("struct", "union") and lab in ("py:list", "py:dict"))     # those are initialisers
                and not (k == "wchar" and lab == "py:str")]                             # "x" is a valid wchar_t
    return out


def error_values(t):
    """(e, v): model values used for error= and for onerror's return value."""
    k = kind_of(t)
    if k == "bool":
        return 1, 0
    if k == "int":
        lo, hi = model()["range"][t]
        return (-42 if lo < 0 else 200), 17
    if k == "char":
        return b"E", b"V"
    if k == "wchar":
        return ord("E"), min(0x10ffff, model()["range"][t][1])
    if k in ("float", "ld"):
        return -42.5, 17.25
    if k in PTRK:
        return 8, 16
    if k == "fp":
        return 0, 1
    if k == "union":
        return U_VALUES[1], U_VALUES[0]
    if k == "struct":
        return S_VALUES[t][1], S_VALUES[t][0]
    return None, None


def spec_for_model(t, mv):
    """A spec whose realisation converts to model value mv."""
    k = kind_of(t)
    if k in ("int", "bool"):
        return ("py", mv)
    if k == "char":
        return ("py", mv)
    if k == "wchar":
        return ("py", chr(mv))
    if k in ("float", "ld"):
        return ("py", mv)
    if k in PTRK:
        return ("null",) if mv is None else ("ptr", t, mv)
    if k == "fp":
        return ("null",) if mv is None else ("fn", mv)
    if k == "union":
        return ("union", U_VALUES.index(mv))
    return ("struct", t, mv)


class _Num(object):
    """An integer-like object: int() works on it whichever protocol is consulted."""

    def __init__(self, v):
        self.v = v

    def __int__(self):
        return self.v

    def __index__(self):
        return self.v


def realize(spec, ffi, L, keep):
    k = spec[0]
    if k == "py":
        return spec[1]
    if k == "cast":
        return ffi.cast(spec[1], spec[2])
    if k == "null":
        return ffi.NULL
    if k == "ptr":
        return ffi.cast(spec[1], L.static + spec[2])
    if k == "fn":
        return ffi.cast("fp_t", L.fnaddr[spec[1]])
    if k == "fncast":
        return ffi.cast(spec[1], L.fnaddr[spec[2]])
    if k == "pyfn":
        return c13._a_python_function
    if k == "obj":
        return _Num(spec[2]) if spec[1] == "num" else c13._WithFloat(spec[2])
    if k == "union":
        p = ffi.new("union u1 *")
        ffi.buffer(p)[:] = U_VALUES[spec[1]]
        keep.append(p)
        return p[0]
    if k in ("struct", "structptr"):
        p = ffi.new(spec[1] + " *", struct_init(spec[1], spec[2], "dict"))
        keep.append(p)
        return p[0] if k == "struct" else p
    raise InfraError("bad spec %r" % (spec,))


# ------------------------------------------------------------------------------------
# generated module

def tname(t):
    return t.replace(" **", "_pp").replace(" *", "_p").replace(" ", "_")


def sig_decl(sg, name, ptr=False):
    _fam, _k, R, A = sg
    return "%s %s(%s)" % (R, "(*%s)" % name if ptr else name, ", ".join(A) or "void")


def module_source(sigs, small_types):
    """(cdef text, C preamble) for one block of signatures."""
    types = []
    for sg in sigs:
        for t in sg[3]:
            if t not in types:
                types.append(t)
    cdef = [c13.STRUCT_DECLS, UNION_DECL]
    src = ["#include <string.h>\n#include <stdint.h>\n#include <wchar.h>\n#include <uchar.h>\n#include <sys/types.h>\n",
           c13.STRUCT_DECLS, UNION_DECL,
           "char c14_static[64];\nunsigned char c14_res[64];\nint c14_res_len = -1;\n"
           "int c14_fn0(int x) { return x + 1; }\nint c14_fn1(int x) { return x * 2; }\n"
           "static void c14_store(const void *p, int n) { memset(c14_res, 0xEE, sizeof c14_res); "
           "if (n > 0) memcpy(c14_res, p, n); c14_res_len = n; }\n"]
    init = []
    for t in types:
        for small in (False, True):
            vs = arg_values(t, small)
            nm = "c14_%s_%s" % ("s" if small else "a", tname(t))
            if kind_of(t) == "union":
                src.append("static union u1 %s[%d];\n" % (nm, len(vs)))
                for i, mv in enumerate(vs):
                    init.append("memcpy(&%s[%d], \"%s\", 8);" % (nm, i, "".join("\\x%02x" % b for b in U_VALUES[mv])))
            elif kind_of(t) in PTRK or kind_of(t) == "fp":
                src.append("static %s %s[%d];\n" % (t, nm, len(vs)))
                for i, mv in enumerate(vs):
                    init.append("%s[%d] = %s;" % (nm, i, c_literal(t, mv)))
            elif kind_of(t) == "bool":
                # stored as bytes: the table also holds _Bool objects whose byte is neither 0 nor 1
                src.append("static _Bool %s[%d];\n" % (nm, len(vs)))
                for i, mv in enumerate(vs):
                    init.append("memcpy(&%s[%d], \"\\x%02x\", 1);" % (nm, i, mv))
            else:
                src.append("static %s %s[%d] = { %s };\n" % (t.replace(" *", " *"), nm, len(vs),
                                                              ", ".join(c_literal(t, mv) for mv in vs)))
    src.append("void c14_init(void) { %s }\n" % " ".join(init))
    for sg in sigs:
        fam, k, R, A = sg
        plus_c = python_plus_c(sg)         # every 8th trampoline is declared extern "Python+C" (not static)
        cdef.append('extern "Python%s" %s;\n' % ("+C" if plus_c else "", sig_decl(sg, "ep_%d" % k)))
        src.append("%s%s;\n" % ("" if plus_c else "static ", sig_decl(sg, "ep_%d" % k)))
        small = is_small(fam)
        idx = []
        for j, t in enumerate(A):
            n = len(arg_values(t, small))
            idx.append("c14_%s_%s[%s]" % ("s" if small else "a", tname(t), value_index_c(sg, j)))
        call = "f(%s)" % ", ".join(idx)
        body = "%s = fn ? (%s)fn : ep_%d;\n" % (sig_decl(sg, "f", ptr=True), sig_decl(sg, "", ptr=True).replace("(*)", "(*)"), k)
        if R == "void":
            body += "    %s; c14_store(0, 0);\n" % call
        else:
            body += "    %s r = %s; c14_store(&r, (int)sizeof r);\n" % (R, call)
        src.append("void c14_call_%d(void *fn, int i)\n{\n    %s}\n" % (k, body))
    return "".join(cdef), "".join(src)


def python_plus_c(sg):
    return sg[1] % 8 == 5


def is_small(fam):
    """Unary families use the full argument tables, the others the products of the reduced ones."""
    return fam not in ("u", "x")


def value_index(sg, i, j):
    """Index into the table of argument j for call number i."""
    fam, _k, _R, A = sg
    small = is_small(fam)
    if fam == "w":                  # wide signatures: 4 calls, argument j takes its values in rotation
        return (i + j) % len(arg_values(A[j], small))
    for t in A[:j]:
        i //= len(arg_values(t, small))
    return i % len(arg_values(A[j], small))


def value_index_c(sg, j):
    fam, _k, _R, A = sg
    small = is_small(fam)
    n = len(arg_values(A[j], small))
    if fam == "w":
        return "(i + %d) %% %d" % (j, n)
    div = 1
    for t in A[:j]:
        div *= len(arg_values(t, small))
    return "(i / %d) %% %d" % (div, n)


# error configurations.  onerror-badvalue: the handler returns a value that cannot be converted to the result type;
# onerror-badinit (struct / union results): it returns an initialiser whose last item cannot be converted.  The
# documentation says "if it simply returns None -- or if onerror itself fails -- then the value of error will be used".
CONFIGS = ["none", "error", "onerror-none", "onerror-none+error", "onerror-value+error", "onerror-raises",
           "onerror-raises+error", "onerror-badvalue", "onerror-badvalue+error", "onerror-badinit", "onerror-badinit+error"]
# mechanisms: how the Python function is attached
#   callback                ffi.callback(cdecl, fn, **kw) of the compiled module's FFI, cdecl = "R (*)(A)"
#   callback-decorator      ffi.callback(cdecl, **kw)(fn) of the compiled module's FFI, cdecl = function type "R (A)"
#   callback-inline         ffi.callback(cdecl, **kw)(fn) of an in-line FFI, cdecl = "R (*)(A)"
#   callback-inline-direct  ffi.callback(cdecl, fn, **kw) of an in-line FFI, cdecl = "R (A)"
#   extern-python           ffi.def_extern(name=..., **kw)(fn)
#   extern-python-byname    ffi.def_extern(**kw)(fn) with fn.__name__ == the declared name
#   *-badrepr               the callable is an object whose __repr__ raises (the unraisable message is built with %R)
MECHS = ["callback", "callback-inline", "extern-python", "callback-decorator", "callback-inline-direct",
         "extern-python-byname", "callback-badrepr", "extern-python-badrepr"]
QUICK_CONFIGS = {      # quick tier: the spellings share the C entry points of "callback" / "extern-python"
    "callback-inline": ("none", "onerror-value+error"),         # other ctype objects: whole argument / result sweep
    "callback-decorator": ("error", "onerror-value+error"),     # keyword arguments must arrive; error paths
    "callback-inline-direct": ("error", "onerror-value+error"),
    "extern-python-byname": ("error", "onerror-value+error"),
    "callback-badrepr": ("error", "onerror-raises"),            # where the message with %R is built
    "extern-python-badrepr": ("error", "onerror-raises"),
}
# what the Python body raises: an ordinary Exception, BaseExceptions that are not Exceptions, an exception whose
# class cannot be instantiated (the raise statement fails with another exception), one whose __str__/__repr__ raise
RAISES = ["raise", "raise:KeyboardInterrupt", "raise:SystemExit", "raise:GeneratorExit", "raise:StopIteration",
          "raise:BadInit", "raise:BadStr"]


class BodyError(Exception):
    pass


class HandlerError(Exception):
    pass


class BadInit(Exception):
    def __init__(self, *args):
        raise LookupError("BadInit cannot be instantiated")


class BadStr(Exception):
    def __str__(self):
        raise ArithmeticError("BadStr.__str__")

    __repr__ = __str__


class BadReprCallable(object):
    """A callable whose repr() fails."""

    def __init__(self, fn):
        self.fn = fn

    def __call__(self, *args):
        return self.fn(*args)

    def __repr__(self):
        raise ArithmeticError("BadReprCallable.__repr__")


def raise_for(mode):
    """(exception to raise, name of the exception type the onerror handler must be given)."""
    if mode in ("raise", "nest"):
        return BodyError("boom"), "BodyError"
    name = mode.split(":")[1]
    if name == "BadInit":
        return BadInit, "LookupError"
    if name == "BadStr":
        return BadStr("x"), "BadStr"
    if name == "SystemExit":
        return SystemExit(3), name
    return {"KeyboardInterrupt": KeyboardInterrupt, "GeneratorExit": GeneratorExit,
            "StopIteration": StopIteration}[name](), name


def build_module(item):
    """Phase 1 (one work item per module): generate and compile; returns (tag, name, path of the .so)."""
    import cffi
    tag, sigs = item
    cdef, src = module_source(sigs, None)
    d = os.path.join(build.scratch_shared(), "c14_%s" % tag)
    os.makedirs(d, exist_ok=True)
    name = "c14m_%s" % tag
    ffi = cffi.FFI()
    ffi.cdef(cdef)
    ffi.set_source(name, src, extra_compile_args=["-w", "-g0"])
    t0 = time.time()
    try:
        so = ffi.compile(tmpdir=d)
    except Exception as e:
        raise InfraError("test library %s did not compile: %s: %s" % (name, type(e).__name__, e))
    return tag, name, so, time.time() - t0


_INL = None


def inline_ffi():
    """The in-line (pure Python) FFI whose callback() is the second mechanism; one per process."""
    global _INL
    if _INL is None:
        import cffi
        _INL = cffi.FFI()
        _INL.cdef(c13.STRUCT_DECLS + UNION_DECL)
        _INL.typeof("struct s4 (*)(union u1, fp_t, enum e1, enum e2, u16_t, i64_t)")
    return _INL


class Lib(object):
    """A compiled module loaded into this process."""
    _loaded = {}

    @classmethod
    def get(cls, name, so, sigs):
        L = cls._loaded.get(so)
        if L is None:
            L = cls._loaded[so] = cls(name, so, sigs)
        return L

    def __init__(self, name, so, sigs):
        import cffi
        self.so = so
        self.mod = c13._import(name, so)
        self.inl = inline_ffi()
        self.cd = ctypes.CDLL(so)
        self.cd.c14_init()
        self.static = ctypes.addressof(ctypes.c_char.in_dll(self.cd, "c14_static"))
        self.fnaddr = [ctypes.cast(getattr(self.cd, "c14_fn%d" % i), ctypes.c_void_p).value for i in (0, 1)]
        self.res = (ctypes.c_ubyte * 64).in_dll(self.cd, "c14_res")
        self.res_len = ctypes.c_int.in_dll(self.cd, "c14_res_len")
        self.callers = {}
        for sg in sigs:
            f = getattr(self.cd, "c14_call_%d" % sg[1])
            f.argtypes = [ctypes.c_void_p, ctypes.c_int]
            f.restype = None
            self.callers[sg[1]] = f

    def ffi_of(self, mech):
        return self.inl if mech.startswith("callback-inline") else self.mod.ffi


HOOK_LOG = []


def _hook(u):
    HOOK_LOG.append((getattr(u.exc_type, "__name__", "?"), str(u.err_msg)))


class Scenario(object):
    """Mutable state read by the Python body and by the onerror handler."""

    def __init__(self):
        self.mode = "ret"
        self.ret = None
        self.seen = []
        self.onerror_calls = []
        self.onerror_ret = None
        self.depth = 0
        self.addr = 0
        self.inner = None               # nested invocation: (argument index, raw bytes received, escaped exception)
        self.inner_i = 0


def supported(sg, mech):
    if mech.startswith("extern-python"):
        return True
    return all(kind_of(t) != "union" for t in list(sg[3]) + [sg[2]])


def install(L, sg, mech, cfg, scn):
    """Create the callback / attach the extern "Python" body.  Returns (address or 0, keepalive)."""
    fam, k, R, A = sg
    ffi = L.ffi_of(mech)
    keep = []

    def body(*args):
        scn.seen.append(tuple(capture(ffi, t, x) for t, x in zip(A, args)) if len(args) == len(A) else ("arity", len(args)))
        if scn.mode == "nest" and scn.depth == 0:
            # re-entrant invocation: the C caller is run again from inside the Python function; the inner
            # invocation raises, the outer one must still deliver its own result
            scn.depth = 1
            esc = None
            try:
                L.callers[k](scn.addr or None, scn.inner_i)
            except BaseException as e:              # noqa: B902
                esc = "%s: %s" % (type(e).__name__, e)
            scn.depth = 0
            scn.inner = (scn.inner_i, bytes(L.res[:max(L.res_len.value, 0)]), esc)
            return scn.ret
        if scn.mode != "ret":
            raise raise_for(scn.mode)[0]
        return scn.ret

    kw = {}
    e, v = error_values(R)
    if "error" in cfg.split("+") or cfg == "error":
        if R != "void":
            kw["error"] = realize(spec_for_model(R, e), ffi, L, keep)
    if cfg.startswith("onerror"):
        how = cfg.split("+")[0]

        def handler(exc, val, tb):
            scn.onerror_calls.append((getattr(exc, "__name__", repr(exc)), type(val).__name__, tb is not None))
            if how == "onerror-raises":
                raise HandlerError("handler")
            if how in ("onerror-value", "onerror-badvalue", "onerror-badinit"):
                return scn.onerror_ret
            return None
        kw["onerror"] = handler
        if how == "onerror-value":
            scn.onerror_ret = realize(spec_for_model(R, v), ffi, L, keep)
        elif how in ("onerror-badvalue", "onerror-badinit"):
            scn.onerror_ret = realize(onerror_bad_spec(R, how), ffi, L, keep)
    fn = BadReprCallable(body) if mech.endswith("-badrepr") else body
    scn.addr = 0
    if mech.startswith("extern-python"):
        if mech == "extern-python-byname":
            body.__name__ = "ep_%d" % k
            L.mod.ffi.def_extern(**kw)(body)
        else:
            L.mod.ffi.def_extern(name="ep_%d" % k, **kw)(fn)
        return 0, (keep, body)
    if mech in ("callback", "callback-badrepr"):
        cb = ffi.callback(sig_decl(sg, "", ptr=True), fn, **kw)
    elif mech == "callback-inline":
        cb = ffi.callback(sig_decl(sg, "", ptr=True), **kw)(body)       # decorator form of the pure-Python FFI
    elif mech == "callback-decorator":
        cb = ffi.callback(sig_decl(sg, ""), **kw)(body)                 # decorator form, cdecl is a function type
    elif mech == "callback-inline-direct":
        cb = ffi.callback(sig_decl(sg, ""), body, **kw)
    else:
        raise InfraError("mechanism %r" % mech)
    keep.append(cb)
    scn.addr = int(ffi.cast("uintptr_t", cb))
    return scn.addr, (keep, body)


def expected_result(sg, cfg, convertible_mv, is_error):
    """Model value C must receive."""
    R = sg[2]
    if not is_error:
        return convertible_mv
    e, v = error_values(R)
    how = cfg.split("+")[0]
    has_error = cfg == "error" or cfg.endswith("+error")
    if how == "onerror-value":
        return v
    return e if has_error else zero_value(R)


def arg_index_count(sg):
    if sg[0] == "w":
        return 4
    small = is_small(sg[0])
    n = 1
    for t in sg[3]:
        n *= len(arg_values(t, small))
    return n


def args_expected(L, sg, i):
    """(what the Python function must see, positions of arguments that have no Python counterpart)."""
    small = is_small(sg[0])
    out, unconv = [], []
    for j, t in enumerate(sg[3]):
        mv = arg_values(t, small)[value_index(sg, i, j)]
        if arg_unconvertible(t, mv):
            unconv.append(j)
            out.append(None)
        else:
            out.append(seen_expected(t, mv, L))
    return tuple(out), unconv


def cases_of(sg, mech, cfg, tier):
    """[(arg index, body mode, index into ret_alphabet or None)]."""
    fam, k, R, A = sg
    nargs = arg_index_count(sg)
    rets = ret_alphabet(R)
    ok = [j for j, (_l, _s, mv) in enumerate(rets) if mv is not UNCONV and _l != "init:partial"]
    out = []
    if tier == "thorough" and fam in ("u", "x") and cfg in ("none", "error"):
        for i in range(nargs):
            for j in range(len(rets)):
                out.append((i, "ret", j))
            for md in RAISES:
                out.append((i, md, None))
            out.append((i, "nest", ok[i % len(ok)]))
        return out
    if cfg == "none":
        for i in range(nargs):              # argument sweep (independent of the error configuration)
            out.append((i, "ret", ok[i % len(ok)]))
        for j in range(len(rets)):          # whole result alphabet
            out.append((j % nargs, "ret", j))
    else:
        # error paths.  Everything that happens after the conversion failed is independent of *which*
        # unconvertible value it was, so the quick tier takes one value per class (label) here;
        # the complete alphabet runs under "none" above and, in the thorough tier, under every configuration.
        seen_labels = set()
        for j in range(len(rets)):
            lab, _sp, mv = rets[j]
            if mv is UNCONV:
                if tier == "quick" and lab in seen_labels:
                    continue
                seen_labels.add(lab)
                out.append((j % nargs, "ret", j))
            elif j in (ok[0], ok[-1]):
                out.append((j % nargs, "ret", j))
    out.append((0, "raise", None))
    out.append((nargs - 1, "raise", None))
    for n, md in enumerate(RAISES[1:]):
        out.append(((n + 1) % nargs, md, None))
    out.append((0, "nest", ok[0]))
    out.append((nargs - 1, "nest", ok[-1]))
    return out


def check_case(L, sg, mech, cfg, addr, scn, case, rets, keep):
    """Run one case; return (list of (kind, info), facts for the histogram)."""
    fam, k, R, A = sg
    i, mode, j = case
    ffi = L.ffi_of(mech)
    scn.seen.clear()
    scn.onerror_calls.clear()
    del HOOK_LOG[:]
    scn.mode = mode
    scn.inner = None
    scn.depth = 0
    if mode in ("ret", "nest"):
        label, spec, mv = rets[j]
        scn.ret = realize(spec, ffi, L, keep)
        if mode == "nest":
            label = "nest"
            n_idx = arg_index_count(sg)
            scn.inner_i = next((c for c in ((i + d) % n_idx for d in range(1, n_idx + 1))
                                if not args_expected(L, sg, c)[1]), i)
    else:
        label, mv = mode, UNCONV
        scn.ret = None
    is_error = mv is UNCONV
    bad = []
    escaped = None
    try:
        L.callers[k](addr or None, i)
    except BaseException as e:               # noqa: B902 -- anything arriving here escaped from the callback
        escaped = "%s: %s" % (type(e).__name__, e)
    if escaped is not None:
        bad.append(("exception-escaped", escaped))
    want_seen, unconv = args_expected(L, sg, i)
    uncallable = False
    inner_error = 0
    if mode == "nest" and not unconv:
        # outer invocation, then the inner one (which raises) from inside the Python function
        want_inner, unconv_inner = args_expected(L, sg, scn.inner_i)
        inner_error = 1
        if scn.inner is None:
            bad.append(("nested-call-not-made", len(scn.seen)))
        else:
            if scn.inner[2] is not None:
                bad.append(("exception-escaped", "inner: " + scn.inner[2]))
            want = expected_result(sg, cfg, UNCONV, True)
            if R != "void":
                for off, b in encode(R, want, L):
                    if scn.inner[1][off:off + len(b)] != b:
                        bad.append(("result-bytes", {"nested": "inner", "received": scn.inner[1].hex(),
                                                     "expected_at_%d" % off: b.hex(), "expected_model": repr(want)[:200]}))
                        break
            if len(scn.seen) != 2:
                bad.append(("python-function-invocations", len(scn.seen)))
            elif scn.seen[0] != want_seen or scn.seen[1] != want_inner:
                bad.append(("arguments-seen", {"seen": repr(scn.seen)[:300], "passed": repr((want_seen, want_inner))[:300]}))
    elif unconv:
        # An argument has no Python counterpart (a wchar_t/char32_t that is not a code point, a _Bool byte > 1):
        # the statement's "passes exactly its argument values" cannot hold.  What is judged: nothing escapes, and
        # if the Python function is not invoked the call is an error case like any other (error value, one report).
        # If an implementation invokes the function nevertheless, the other arguments must be exact.
        if len(scn.seen) == 0:
            uncallable = is_error = True
        elif len(scn.seen) != 1:
            bad.append(("python-function-invocations", len(scn.seen)))
        elif any(a != b for j2, (a, b) in enumerate(zip(scn.seen[0], want_seen)) if j2 not in unconv):
            bad.append(("arguments-seen", {"seen": repr(scn.seen[0])[:300], "passed": repr(want_seen)[:300]}))
        if mode == "nest" and scn.inner is not None:
            inner_error = 1
    elif len(scn.seen) != 1:
        bad.append(("python-function-invocations", len(scn.seen)))
    elif scn.seen[0] != want_seen:
        bad.append(("arguments-seen", {"seen": repr(scn.seen[0])[:300], "passed": repr(want_seen)[:300]}))
    want = expected_result(sg, cfg, mv, is_error)
    n = L.res_len.value
    raw = bytes(L.res[:max(n, 0)])
    if n != model()["size"][R]:
        bad.append(("result-size", n))
    elif R != "void":
        for off, b in encode(R, want, L):
            if raw[off:off + len(b)] != b:
                bad.append(("result-bytes", {"received": raw.hex(), "expected_at_%d" % off: b.hex(),
                                             "expected_model": repr(want)[:200]}))
                break
    has_onerror = cfg.startswith("onerror")
    nh = len(HOOK_LOG)
    nerr = inner_error + (1 if is_error else 0)         # error cases in this execution (nested: inner and/or outer)
    if not nerr:
        if nh:
            bad.append(("hook-called-without-error", HOOK_LOG[:2]))
        if scn.onerror_calls:
            bad.append(("onerror-called-without-error", scn.onerror_calls[:2]))
    elif not has_onerror:
        if nh != nerr:
            bad.append(("hook-calls-in-error-case", nh))
    else:
        if len(scn.onerror_calls) != nerr:
            bad.append(("onerror-calls-in-error-case", len(scn.onerror_calls)))
        elif mode != "ret" and not uncallable and scn.onerror_calls[0][0] != raise_for(mode)[1]:
            bad.append(("onerror-exception-type", scn.onerror_calls[0]))
        how = cfg.split("+")[0]
        if how in ("onerror-none", "onerror-value") and nh:
            bad.append(("hook-called-although-onerror-handled", HOOK_LOG[:2]))
        # onerror raised, or returned something unconvertible ("onerror itself fails"): nothing may escape (judged
        # above); how often the hook fires for the pair of exceptions is not specified
    return bad, label, (is_error or inner_error > 0)


def work(item):
    """Phase 2: execute every case of a chunk of signatures on an already compiled module."""
    name, so, modsigs, sigs, tier = item
    t0 = time.time()
    sys.unraisablehook = _hook
    L = Lib.get(name, so, modsigs)
    t1 = time.time()
    res = {"cases": 0, "nontrivial": 0, "classes": collections.Counter(), "bad": {}, "nbad": 0, "samples": [],
           "nsig": len(sigs), "skipped_union_libffi": 0, "instances": 0}
    for sg in sigs:
        fam, k, R, A = sg
        rets = ret_alphabet(R)
        for mech in MECHS:
            if not supported(sg, mech):
                res["skipped_union_libffi"] += 1
                continue
            for cfg in CONFIGS:
                if tier == "quick" and cfg not in (QUICK_CONFIGS.get(mech, CONFIGS) if R != "void" or mech not in QUICK_CONFIGS
                                                   else ("none", "onerror-raises")):
                    continue                 # same C entry point as "callback"; only the Python wrapper differs
                if R == "void" and "error" in cfg.replace("onerror", ""):
                    continue                 # error= is not allowed for void results
                if R == "void" and cfg.startswith("onerror-value"):
                    continue
                if cfg.startswith("onerror-badinit") and kind_of(R) not in ("struct", "union"):
                    continue
                scn = Scenario()
                addr, keepalive = install(L, sg, mech, cfg, scn)
                res["instances"] += 1
                keep = []
                for case in cases_of(sg, mech, cfg, tier):
                    bad, label, is_error = check_case(L, sg, mech, cfg, addr, scn, case, rets, keep)
                    res["cases"] += 1
                    if is_error:
                        res["nontrivial"] += 1
                    res["classes"]["mech/" + mech] += 1
                    res["classes"]["cfg/" + cfg] += 1
                    if case[1] == "ret":
                        res["classes"]["body/" + ("argument-unconvertible" if is_error and rets[case[2]][2] is not UNCONV
                                                  else "unconvertible" if is_error else "ok")] += 1
                        res["classes"]["ret/" + label.split(":")[0]] += 1
                    else:
                        res["classes"]["body/" + case[1]] += 1
                    if fam in ("x", "w"):
                        res["classes"]["family/" + {"x": "extended-types", "w": "wide"}[fam]] += 1
                    if len(keep) > 64:
                        del keep[:]
                    if bad:
                        res["nbad"] += 1
                        for kind, info in bad:
                            if kind in ("arguments-seen", "python-function-invocations"):
                                sgn = {"kind": kind, "mech": mech, "args": ",".join(A) or "void", "cfg": "-", "ret": "-",
                                       "body": "-"}
                            else:
                                sgn = {"kind": kind, "mech": mech, "args": "-", "cfg": cfg, "ret": R, "body": label}
                            if cfg.startswith("onerror-bad") and kind == "result-bytes":
                                # onerror returned something unconvertible: own root cause, own signature
                                sgn = {"kind": kind, "mech": mech, "cfg": cfg, "onerror_returns": "unconvertible",
                                       "result_kind": kind_of(R)}
                            ent = res["bad"].setdefault(repr(sorted(sgn.items())), [sgn, 0, []])
                            ent[1] += 1
                            if len(ent[2]) < 2:
                                ent[2].append({"sig": [fam, k, R, list(A)], "decl": sig_decl(sg, "f"), "mech": mech,
                                               "cfg": cfg, "case": [case[0], case[1], case[2]],
                                               "returns": enc(rets[case[2]][1]) if case[2] is not None else "raise",
                                               "kind": kind, "info": info})
                    if res["cases"] % 4999 == 1:
                        res["samples"].append({"decl": sig_decl(sg, "f"), "mech": mech, "cfg": cfg, "arg_index": case[0],
                                               "body": label, "received": bytes(L.res[:max(L.res_len.value, 0)]).hex()})
                del keepalive
    res["t_build"] = t1 - t0
    res["t_run"] = time.time() - t1
    return res


# ------------------------------------------------------------------------------------

def signatures(tier):
    sigs = []
    n = itertools.count()

    def add(fam, R, A):
        sigs.append((fam, next(n), R, tuple(A)))
    for A in T_ARGS:
        for R in T_RETS:
            add("u", R, [A])
    for R in T_RETS:
        add("n", R, [])
    for i, A in enumerate(BIN8):
        for j, B in enumerate(BIN8):
            add("b", BIN8[(i + 3 * j) % 8], [A, B])
    add("m", "double", ["signed char", "unsigned short", "int *", "struct s3", "double", "long long"])
    add("m", "struct s4", ["float", "char *", "struct s1", "unsigned long", "_Bool", "wchar_t"])
    add("m", "long double", ["long double", "struct s4", "union u1", "float", "struct s2", "long double"])
    # the extended types: as argument and result together, as argument only, as result only
    for X in X_TYPES:
        add("x", X, [X])
        add("x", "long long", [X])
        add("x", X, ["long long"])
    # wide signatures: more arguments than argument registers (6 INTEGER, 8 SSE on x86-64), so that the libffi closure
    # and the extern "Python" trampoline (8-byte slots) handle stack-passed arguments, structs passed in memory after
    # the registers are used up and a long double beyond slot 6
    add("w", "double", ["signed char", "unsigned short", "int", "unsigned int", "long", "unsigned long", "long long",
                        "short"] + ["double", "float"] * 5)
    add("w", "struct s3", ["long"] * 6 + ["double"] * 8 + ["struct s3", "struct s4", "long double", "struct s2",
                                                          "signed char", "struct s1", "float", "int *"])
    add("w", "long double", ["long double", "int", "float", "_Bool", "char", "wchar_t", "long double", "struct s2",
                             "unsigned long long", "struct s3", "double", "char *", "long double", "unsigned char"])
    add("w", "struct s4", ["struct s4", "union u1", "struct s4", "double", "enum e1", "char16_t", "fp_t", "void *",
                           "struct s3", "long", "enum e2", "union u1"])
    return sigs


def _phase1(item):
    what, arg = item
    if what == "build":
        return build_module(arg)
    if what == "cx":
        from . import _c14_complex as CX
        return CX.work(arg[1])
    from . import _c14_structs as ST
    return ST.work(arg)


def run(ctx):
    model()
    import cffi
    from cffi import _shimmed_dist_utils, recompiler      # noqa: F401
    shared = build.scratch_shared()
    inline_ffi()                            # parser tables are built once, before the workers fork
    try:
        sigs = signatures(ctx.tier)
        per = 64
        blocks = [sigs[i:i + per] for i in range(0, len(sigs), per)]
        from . import _c14_complex as CX
        from . import _c14_structs as ST
        from . import _c13_structs as SS
        space = SS.struct_space(2 if ctx.quick else 3)
        sblocks = [(i, list(b)) for i, b in enumerate(pool.chunks(space, 40 if ctx.quick else 110))]
        for st in space:
            for c in SS.classify(st):
                ctx.count("struct_shape/" + c)
        ctx.log("%d signatures in %d modules; %d by-value struct shapes in %d modules" % (
            len(sigs), len(blocks), len(space), len(sblocks)))
        cx_sigs = CX.signatures()
        groups = [(True, [g for g in cx_sigs if "dc" in g[1]]), (False, [g for g in cx_sigs if "dc" not in g[1]])]
        # phase 1 (one pool): compile the signature modules; meanwhile the two self-contained supplements run --
        # complex arguments / results of extern "Python" functions (libffi callbacks cannot have them) and the
        # by-value struct shapes
        built = {}
        tcomp = 0.0
        n_cx = 0
        st_tot = collections.Counter()
        import json
        allsigs = collections.Counter()
        p1 = [[("cx", groups[0])]] + [[("build", ("%d_b%d" % (os.getpid(), i), b))] for i, b in enumerate(blocks)]
        p1 += [[("cx", groups[1])]] + [[("st", b)] for b in sblocks]
        for item, r in pool.pmap(_phase1, p1, item_timeout=1800):
            what = item[0]
            if what == "build":
                if isinstance(r, (pool.WorkerError, pool.Crash)):
                    raise InfraError("building a test module failed: %r" % (r,))
                built[r[0]] = (r[1], r[2])
                tcomp += r[3]
                continue
            if isinstance(r, pool.WorkerError):
                raise InfraError(r.tb)
            if what == "cx":
                has_dc = item[1][0]
                if isinstance(r, pool.Crash):
                    ctx.violation({"kind": "crash", "mech": "extern-python", "args": "complex",
                                   "double_complex_argument": has_dc},
                                  {"complex": True, "how": r.describe(), "double_complex_argument": has_dc,
                                   "note": "the module is built with -fstack-protector-all: a trampoline overran its buffer"})
                    continue
                n, cx_bad = r
                n_cx += n
                for kind, decl, info in cx_bad:
                    ctx.violation({"kind": kind, "mech": "extern-python", "type": info.get("type"),
                                   "double_complex_argument": has_dc},
                                  {"complex": True, "decl": decl, "info": info})
                continue
            # by-value struct shapes
            if isinstance(r, pool.Crash):
                ctx.violation({"kind": "crash", "site": "struct-shapes"},
                              {"structs": True, "block": [[k[0] for k in kinds] for kinds in item[1][1]], "how": r.describe()})
                continue
            for key in ("structs", "cases", "errors", "excluded_union_libffi"):
                st_tot[key] += r[key]
            for kind, mech, cname, keys, decl, info in r["bad"]:
                sgn = {"kind": kind, "site": "struct-shapes", "mech": mech, "case": cname, "cfg": info.get("cfg"),
                       "union_member": "un" in keys}
                ctx.violation(sgn, {"structs": True, "kinds": keys, "decl": decl, "mech": mech, "case": cname,
                                    "kind": kind, "info": info})
                allsigs[json.dumps(sgn, sort_keys=True)] += 1
                st_tot["bad"] += 1
        ctx.count("struct_shapes/cases", st_tot["cases"])
        ctx.count("struct_shapes/error-cases", st_tot["errors"])
        ctx.log("modules compiled (%.1fs cpu-wall in total); supplements done" % tcomp)
        chunk = 6 if ctx.quick else 2
        items = []
        for i, b in enumerate(blocks):
            name, so = built["%d_b%d" % (os.getpid(), i)]
            for j in range(0, len(b), chunk):
                items.append([(name, so, b, b[j:j + chunk], ctx.tier)])
        # big (6-argument) signatures first, then interleave the modules
        items.sort(key=lambda it: -sum(arg_index_count(sg) for sg in it[0][3]))
        tot = collections.Counter()
        for item, r in pool.pmap(work, items, item_timeout=1200):
            if isinstance(r, pool.WorkerError):
                raise InfraError(r.tb)
            if isinstance(r, pool.Crash):
                ctx.violation({"kind": "crash"}, {"block": [sig_decl(s, "f") for s in item[3]], "how": r.describe()})
                continue
            for key in ("cases", "nontrivial", "nbad", "nsig", "skipped_union_libffi", "instances", "t_build", "t_run"):
                tot[key] += r[key]
            for k, v in r["classes"].items():
                ctx.count(k, v)
            for s in r["samples"]:
                ctx.sample(s)
            for _k, (sgn, cnt, examples) in sorted(r["bad"].items()):
                for det in examples:
                    ctx.violation(sgn, det)
                allsigs[json.dumps(sgn, sort_keys=True)] += cnt
        ctx.log("cpu-wall: %.1fs loading modules, %.1fs executing cases" % (tot["t_build"], tot["t_run"]))
        tot["cases"] += st_tot["cases"]
        tot["nontrivial"] += st_tot["errors"]
        tot["nbad"] += st_tot["bad"]
        tot["cases"] += n_cx
        cov = {
            "complex_signatures_extern_python": n_cx,
            "by_value_struct_shapes": st_tot["structs"],
            "by_value_struct_shape_cases": st_tot["cases"],
            "by_value_struct_shapes_with_union_member_refused_by_libffi": st_tot["excluded_union_libffi"],
            "evaluations": tot["cases"],
            "distinct_nontrivial": tot["nontrivial"],
            "signatures": tot["nsig"],
            "callback_instances": tot["instances"],
            "modules": len(blocks),
            "excluded_union_by_value_through_libffi": tot["skipped_union_libffi"],
            "failing_cases": tot["nbad"],
            "failing_checks_by_signature": dict(sorted(allsigs.items())),
            "rule": "every signature x %d mechanisms (3 ways to attach the function + 3 spellings + 2 with a callable whose "
                    "repr() raises%s) x %d error configurations (void: 5; onerror-badinit only for struct/union results); "
                    "per instance: %s; %d kinds of raising bodies and 2 re-entrant (nested) invocations per instance; "
                    "argument tables include wchar_t/char32_t values that are no code points and _Bool bytes 2/255 "
                    "(function cannot be called); every case checks invocation count, arguments seen, bytes received by "
                    "C, escape, unraisablehook and onerror counts.  By-value struct shapes: every struct of the space x "
                    "{callback, extern \"Python\"} x %d cases (argument seen leaf by leaf, result checksummed by C, "
                    "raise / unconvertible / error= / onerror).  non-trivial = the body raised, returned an unconvertible "
                    "value or could not be called (error containment exercised)" % (
                        len(MECHS), "; the spellings only under 2-3 configurations" if ctx.quick else "", len(CONFIGS),
                        "the full product of argument tuples x result alphabet (+ raising bodies, nested) for unary and "
                        "extended-type signatures under 'none' and 'error', sweeps elsewhere" if not ctx.quick else
                        "one sweep over all argument tuples (configuration 'none') and one sweep over the "
                        "whole result alphabet + raise (every configuration)", len(RAISES), len(ST.CASES)),
            "exhaustive": True,
            "bound": {"unary": "%d x %d types" % (len(T_ARGS), len(T_RETS)), "nullary": len(T_RETS), "binary": "8 x 8",
                      "six_args": 3, "extended_types": "%d types x 3 signatures" % len(X_TYPES), "wide_signatures": 4,
                      "max_arity": max(len(sg[3]) for sg in sigs), "struct_shapes_max_fields": 2 if ctx.quick else 3,
                      "product_args_x_results": not ctx.quick},
        }
        return ctx.finish(cov, [
            "the C caller is gcc-compiled code inside the generated module and is invoked through ctypes (GIL released)",
            "expected encodings are computed with Python ints/struct/ctypes and gcc-measured offsets; a partial "
            "initialiser returned for a by-value struct is expected to zero-fill what it does not name, as ffi.new does",
            "unions by value cannot go through libffi (cffi raises NotImplementedError when the callback is created); "
            "those signatures are exercised through extern \"Python\" only",
            "x86-64 SysV: widening of small integer results to ffi_arg is not observable from C"])
    finally:
        shutil.rmtree(shared, ignore_errors=True)


def replay(detail):
    if detail.get("structs"):
        from . import _c14_structs as ST
        return ST.replay(detail)
    if detail.get("complex"):
        from . import _c14_complex as CX
        n, bad = CX.work(CX.signatures())
        for b in bad:
            print("MISMATCH", b)
        return 1 if bad else 0
    model()
    sys.unraisablehook = _hook
    shared = build.scratch_shared()
    try:
        s = detail["sig"]
        sg = (s[0], s[1], s[2], tuple(s[3]))
        _tag, name, so, _t = build_module(("%d_replay" % os.getpid(), [sg]))
        L = Lib.get(name, so, [sg])
        rets = ret_alphabet(sg[2])
        scn = Scenario()
        addr, keepalive = install(L, sg, detail["mech"], detail["cfg"], scn)
        c = detail["case"]
        case = (c[0], c[1], c[2])
        bad, label, is_error = check_case(L, sg, detail["mech"], detail["cfg"], addr, scn, case, rets, [])
        print(sig_decl(sg, "f"), "| mechanism:", detail["mech"], "| configuration:", detail["cfg"])
        print("argument index %d -> python saw %r" % (case[0], scn.seen))
        print("body:", "return %r  [%s]" % (rets[case[2]][1], label) if case[1] == "ret" else case[1])
        if scn.inner is not None:
            print("nested inner call: argument index %d, C received %s, escaped %r" % (scn.inner[0], scn.inner[1].hex(),
                                                                                      scn.inner[2]))
        print("C received %d bytes: %s" % (L.res_len.value, bytes(L.res[:max(L.res_len.value, 0)]).hex()))
        print("unraisablehook calls:", HOOK_LOG, "onerror calls:", scn.onerror_calls)
        for b in bad:
            print("MISMATCH", b)
        return 1 if any(b[0] == detail["kind"] for b in bad) else 0
    finally:
        shutil.rmtree(shared, ignore_errors=True)
