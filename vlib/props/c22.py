"""C22 -- errno is passed to and from C calls and is thread-local (engine E3).

Every pair (and triple) of short thread programs over an alphabet of errno
operations is run under the baton scheduler, in EVERY interleaving at operation
granularity plus a switch point inside every callback body (other threads then
run between cffi's save_errno at callback entry and restore_errno at exit).
Oracle: each thread observes exactly what a sequential per-thread model predicts.
"""
import itertools
import os
import sys

from .. import build, pool, sched
from ..build import InfraError

ID = "C22"
LEVEL = "model_checking"
META = dict(
    engine="E3-sched", level="model_checking",
    technique="stateless model checking: all interleavings (no preemption bound) of 2-3 real threads running every "
              "short program over an errno-operation alphabet, with switch points between operations and inside "
              "callback bodies; oracle = sequential per-thread model",
    text="Operations: assign ffi.errno, read ffi.errno, call a C function that returns the errno it saw and sets a new "
         "one through the API-mode lib, through libffi (ffi.addressof), through an in-line ABI dlopen and an "
         "out-of-line ABI lib, call a C helper that invokes an ffi.callback / extern \"Python\" function in the middle "
         "(whose body is a scheduling point and may assign ffi.errno), and read a global that is really `errno` through "
         "the API-mode address-fetch function.  All programs of length <= 2 (3 threads: 1-2) per thread, all "
         "combinations, all schedules.",
    note="switch points are operation boundaries and callback bodies (other threads are parked on semaphores, so "
         "releasing the GIL inside a C call cannot switch elsewhere); real OS threads, so thread-local storage is real")

C_SRC = r"""
#include <errno.h>
static int seterr(int w) { int seen = errno; errno = w; return seen; }
static int helper(int (*cb)(int), int w1, int *seen_entry, int *seen_after)
{
    *seen_entry = errno;
    errno = w1;
    cb(w1);
    *seen_after = errno;
    return 0;
}
static int xp_cb(int);
static int helper_xp(int w1, int *seen_entry, int *seen_after)
{
    return helper(xp_cb, w1, seen_entry, seen_after);
}
#define cerrno errno
int counter = 5;
static int xp_unattached(int);
static int helper_xpu(int w1, int *seen_entry, int *seen_after)
{
    return helper(xp_unattached, w1, seen_entry, seen_after);
}
"""
CDEF = """
int seterr(int);
int helper(int (*cb)(int), int, int *, int *);
int helper_xp(int, int *, int *);
extern "Python" int xp_cb(int);
extern "Python" int xp_unattached(int);      /* never given a Python function */
int helper_xpu(int, int *, int *);
extern int cerrno;
extern int counter;
"""
CDEF_ABI = "int seterr(int); int helper(int (*cb)(int), int, int *, int *); extern int counter;"

_W = {}


def setup():
    """Build the API module once; open its .so in in-line and out-of-line ABI mode too."""
    import importlib.util
    import cffi
    d = os.path.join(build.scratch_shared(), "c22")
    os.makedirs(d, exist_ok=True)
    name = "_c22_api"
    ffi = cffi.FFI()
    ffi.cdef(CDEF)
    # seterr/helper must be exported for dlopen(): drop 'static' for them via a second definition
    src = C_SRC.replace("static int seterr", "int seterr").replace("static int helper(", "int helper(")
    ffi.set_source(name, src)
    so = ffi.compile(tmpdir=d, verbose=False)
    spec = importlib.util.spec_from_file_location(name, so)
    mod = importlib.util.module_from_spec(spec)
    spec.loader.exec_module(mod)
    ffi2 = cffi.FFI()
    ffi2.cdef(CDEF_ABI)
    lib2 = ffi2.dlopen(so)
    ffi3b = cffi.FFI()
    ffi3b.cdef(CDEF_ABI)
    ffi3b.set_source("_c22_ool", None)
    py = os.path.join(d, "_c22_ool.py")
    ffi3b.emit_python_code(py)
    spec = importlib.util.spec_from_file_location("_c22_ool", py)
    m3 = importlib.util.module_from_spec(spec)
    spec.loader.exec_module(m3)
    lib3 = m3.ffi.dlopen(so)
    _W.update(ffi=mod.ffi, lib=mod.lib, ffi2=ffi2, lib2=lib2, ffi3=m3.ffi, lib3=lib3,
              seterr_ffi=mod.ffi.addressof(mod.lib, "seterr"))


# operations: ('S', v) ('G',) ('C', path, w) ('CB', mech, w1, x_or_None) ('V',)
def alphabet(tid):
    b = 100 * (tid + 1)
    return [
        ("S", b + 1), ("G",),
        ("C", "api", b + 2), ("C", "ffi", b + 3), ("C", "abi", b + 4), ("C", "ool", b + 5),
        ("CB", "callback", b + 6, None), ("CB", "callback", b + 7, b + 8),
        ("CB", "extern", b + 9, b + 10), ("CB", "abi-callback", b + 11, b + 12),
        ("V",),
        # an extern "Python" function that no Python code was attached to (cffi reports it and returns 0)
        ("CBU", b + 13),
        # plain global variables of dlopen()ed libraries: read / write / addressof must not disturb errno
        ("GV", "rd", "ool"), ("GV", "wr", "ool"), ("GV", "addr", "ool"), ("GV", "rd", "abi"), ("GV", "rd", "api"),
    ]


def model(prog, start=0):
    """Sequential model of one thread: list of expected observations."""
    py = start
    obs = []
    for op in prog:
        if op[0] == "S":
            py = op[1]
        elif op[0] == "G":
            obs.append(("G", py))
        elif op[0] == "C":
            obs.append(("C", py))
            py = op[2]
        elif op[0] == "CB":
            after = op[3] if op[3] is not None else op[2]
            obs.append(("CB", py, op[2], after))      # seen at entry, errno seen inside callback, seen after
            py = after
        elif op[0] == "V":
            obs.append(("V", py))
        elif op[0] == "CBU":
            obs.append(("CBU", py, op[1]))      # errno seen at entry; errno after the (empty) extern call
            py = op[1]
        elif op[0] == "GV":
            obs.append(("GV", 5 if op[1] == "rd" else 0))
    obs.append(("END", py))
    return obs


def run_one(progs, prefix):
    s = sched.Sched(prefix, reuse_threads=False)     # thread-local storage must be fresh
    W = _W
    results = [[] for _ in progs]
    cbstate = {}

    def body(i):
        ffi, lib = W["ffi"], W["lib"]
        out = results[i]
        inside = []

        def pycb(w1):
            # runs between save_errno (entry) and restore_errno (exit)
            inside.append(ffi.errno)
            s.point(("in-callback",))
            x = cbstate.get(i)
            if x is not None:
                ffi.errno = x
            else:
                inside.append(ffi.errno)      # still ours after other threads ran?
            return 0
        cb1 = ffi.callback("int(int)", pycb)
        cb2 = W["ffi2"].callback("int(int)", pycb)
        for op in progs[i]:
            s.point(("op",))
            k = op[0]
            if k == "S":
                ffi.errno = op[1]
            elif k == "G":
                out.append(("G", ffi.errno))
            elif k == "C":
                f = {"api": lib.seterr, "ffi": W["seterr_ffi"], "abi": W["lib2"].seterr,
                     "ool": W["lib3"].seterr}[op[1]]
                out.append(("C", f(op[2])))
            elif k == "CB":
                cbstate[i] = op[3]
                del inside[:]
                if op[1] == "extern":
                    # extern "Python" dispatches through one global function: route by thread
                    _XP[s.me().tid] = pycb
                    e, a = ffi.new("int *"), ffi.new("int *")
                    lib.helper_xp(op[2], e, a)
                elif op[1] == "callback":
                    e, a = ffi.new("int *"), ffi.new("int *")
                    lib.helper(cb1, op[2], e, a)
                else:
                    f2 = W["ffi2"]
                    e, a = f2.new("int *"), f2.new("int *")
                    W["lib2"].helper(cb2, op[2], e, a)
                ok_inside = all(v == op[2] for v in inside) and len(inside) >= 1
                out.append(("CB", e[0], op[2] if ok_inside else ("inside", tuple(inside)), a[0]))
            elif k == "V":
                out.append(("V", lib.cerrno))
            elif k == "CBU":
                e, a = ffi.new("int *"), ffi.new("int *")
                lib.helper_xpu(op[1], e, a)
                out.append(("CBU", e[0], a[0]))
            elif k == "GV":
                L = {"ool": W["lib3"], "abi": W["lib2"], "api": lib}[op[2]]
                F = {"ool": W["ffi3"], "abi": W["ffi2"], "api": ffi}[op[2]]
                if op[1] == "rd":
                    out.append(("GV", L.counter))
                elif op[1] == "wr":
                    L.counter = 5
                    out.append(("GV", 0))
                else:
                    F.addressof(L, "counter")
                    out.append(("GV", 0))
        s.point(("end",))
        out.append(("END", ffi.errno))
    for i in range(len(progs)):
        s.spawn(body, i)
    s.results = results
    s.run()
    return s


_XP = {}


def install_extern():
    ffi = _W["ffi"]

    @ffi.def_extern()
    def xp_cb(w1):
        import threading
        t = _CUR[0].me()
        return _XP[t.tid](w1)


_CUR = [None]
_BOUND = [2]


def work(item):
    progs = item
    viol = []
    nexec = [0]
    logs = set()

    expected = [model(p) for p in progs]

    def on_exec(s):
        nexec[0] += 1
        logs.add(tuple(tuple(r) for r in s.results))
        if s.deadlock or s.errors:
            viol.append({"progs": progs, "choices": list(s.choices), "what": "deadlock-or-error",
                         "errors": s.errors})
            return True
        for i, (got, want) in enumerate(zip(s.results, expected)):
            if got != want:
                viol.append({"progs": progs, "choices": list(s.choices), "thread": i, "got": got, "want": want})
                return len(viol) >= 2
        return False
    a = run_one_with_cur(progs, [])
    b = run_one_with_cur(progs, [])
    if a.results != b.results or a.points != b.points:
        # state leaking from one execution into the next (e.g. an errno that is not per thread)
        # shows up here first: it is a violation if a run disagrees with the model, and only
        # otherwise a loss of control by the harness
        if a.points != b.points or (a.results == expected and b.results == expected):
            raise InfraError("non-deterministic replay for %r" % (progs,))
    total_ops = sum(len(p) for p in progs)
    bound = None if (len(progs) == 2 and total_ops <= 3) else _BOUND[0]
    st = sched.explore(lambda p: run_one_with_cur(progs, p), bound, on_exec=on_exec)
    return {"executions": st["executions"], "decisions": st["decisions"], "viol": viol, "distinct": len(logs)}


def run_one_with_cur(progs, prefix):
    # Sched is created inside run_one; the extern dispatcher needs it before threads start
    orig = sched.Sched

    class S2(orig):
        def __init__(self, *a, **k):
            orig.__init__(self, *a, **k)
            _CUR[0] = self
    sched.Sched = S2
    try:
        return run_one(progs, prefix)
    finally:
        sched.Sched = orig


def programs(tid, maxlen, alpha_idx=None):
    al = alphabet(tid)
    if alpha_idx is not None:
        al = [al[i] for i in alpha_idx]
    out = []
    for n in range(1, maxlen + 1):
        out.extend(itertools.product(al, repeat=n))
    return out


def work_block(block):
    tot = {"executions": 0, "decisions": 0, "distinct": 0}
    viol = []
    for progs in block:
        r = work(progs)
        for k in tot:
            tot[k] += r[k]
        viol.extend(r["viol"])
        if len(viol) > 5:
            break
    tot["viol"] = viol
    tot["n"] = len(block)
    return tot


def run(ctx):
    setup()
    install_extern()
    sys.stderr.flush()
    _devnull = os.open(os.devnull, os.O_WRONLY)
    _saved2 = os.dup(2)
    os.dup2(_devnull, 2)           # cffi reports every call of the unattached extern "Python" function on fd 2
    try:
        return _run(ctx)
    finally:
        os.dup2(_saved2, 2)


def _run(ctx):
    _BOUND[0] = 2
    # sequential sanity: every single op alone agrees with the model from a known start
    items = []
    if ctx.quick:
        A0 = [0, 1, 2, 7, 10, 11, 12]
        A1 = [1, 3, 8, 13, 14, 15]
        p0 = programs(0, 2, alpha_idx=A0)
        p1 = programs(1, 2, alpha_idx=A1)
        pairs = [(a, b) for a in p0 for b in p1 if len(a) + len(b) <= 3]
        pairs += [(a, b) for a in programs(0, 1, [5, 6, 9]) for b in programs(1, 1, [5, 6, 9, 10])]
        pairs += [(a, b) for a in programs(0, 2, [0, 7]) for b in programs(1, 2, [1, 3]) if len(a) + len(b) == 4]
        triples = [(a, b, c) for a in programs(0, 1, [0, 2, 7]) for b in programs(1, 1, [1, 3, 7]) for c in programs(2, 1, [0, 1, 7])]
    else:
        p0 = programs(0, 2)
        p1 = programs(1, 2)
        pairs = [(a, b) for a in p0 for b in p1 if len(a) + len(b) <= 3]
        pairs += [(a, b) for a in programs(0, 2, [0, 1, 2, 3, 7, 8, 10]) for b in programs(1, 2, [0, 1, 4, 5, 7, 9, 10])
                  if len(a) + len(b) == 4]
        triples = [(a, b, c) for a in programs(0, 1) for b in programs(1, 1) for c in programs(2, 1, [0, 1, 2, 7, 10])]
    allp = pairs + triples
    # every thread starts from errno 0
    ctx.log("%d program combinations (%d pairs, %d triples)" % (len(allp), len(pairs), len(triples)))
    blocks = list(pool.chunks(allp, max(1, len(allp) // 128)))
    tot_exec = tot_dec = distinct = 0
    for block, r in pool.pmap(work_block, [[b] for b in blocks], contain_crashes=True, item_timeout=7200):
        if isinstance(r, pool.WorkerError):
            raise InfraError(r.tb)
        if isinstance(r, pool.Crash):
            ctx.violation({"kind": "crash"}, {"block": "a block of programs", "how": r.describe()})
            continue
        tot_exec += r["executions"]
        tot_dec += r["decisions"]
        distinct += r["distinct"]
        for v in r["viol"]:
            ctx.violation({"kind": "thread-observed-foreign-or-wrong-errno" if "thread" in v else v["what"]}, v)
    for p in allp[:: max(1, len(allp) // 6)]:
        ctx.sample({"programs": p})
    ctx.count("pairs", len(pairs))
    ctx.count("triples", len(triples))
    cov = {
        "states": tot_dec, "transitions": tot_dec, "traces_validated_against_impl": tot_exec,
        "schedules": tot_exec, "evaluations": tot_exec, "distinct_nontrivial": distinct,
        "rule": "one evaluation = one complete interleaving of one combination of thread programs; all interleavings at "
                "operation and in-callback granularity are run for every combination; distinct_nontrivial = distinct "
                "result tuples summed over combinations",
        "program_combinations": len(allp),
        "preemption_bound": "none (all schedules) for two threads with <= 3 operations in total; %d preemptions for "
                            "longer pairs and for three threads" % _BOUND[0],
        "exhaustive": True,
    }
    return ctx.finish(cov, ["real OS threads under a baton scheduler; switch points = operation boundaries and callback bodies"])


def replay(detail):
    setup()
    install_extern()
    progs = tuple(tuple(tuple(op) for op in p) for p in detail["progs"])
    s = run_one_with_cur(progs, detail["choices"])
    bad = 0
    for i, p in enumerate(progs):
        want = model(p)
        print("thread", i, "program", p)
        print("   got ", s.results[i])
        print("   want", want)
        if s.results[i] != want:
            bad = 1
    return bad
