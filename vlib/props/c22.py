"""C22 -- errno is passed to and from C calls and is thread-local (engine E3).

Every pair (and triple, and a family of quadruples) of short thread programs over
an alphabet of errno operations is run under the baton scheduler, in EVERY
interleaving at operation granularity plus switch points inside every callback
body (other threads then run between cffi's save_errno at callback entry and
restore_errno at exit).  Oracle: each thread observes exactly what a sequential
per-thread model predicts.

Audit-round extension: callback bodies are PROGRAMS over the same operations
(nested C calls, global fetches, second-level callbacks, raising with or without
`onerror`), there are steps that dirty the real C errno between and inside
operations (a failing syscall as an operation, inside `__index__` of an argument,
inside `sys.stderr.write` while cffi prints a callback's traceback), ffi.errno is
read and assigned through four front ends (compiled ffi, in-line FFI = api.py,
out-of-line ffi, _cffi_backend.get_errno/set_errno) with 0 / negative / INT_MAX /
INT_MIN values and rejected values, callbacks run in threads created by C,
callback cdata are called directly from Python, the global-variable paths are
complete (read/write/addressof x API/in-line/out-of-line, assignment to the
`errno` global), and a legacy ffi.verify() module is one more call path.  The
single-thread part of these shapes is enumerated exhaustively in "chains" (many
programs run one after the other in one fresh thread, the model carrying the
state over), the multi-thread part under the scheduler as before.
"""
import itertools
import os
import sys
import threading

from .. import build, pool, sched
from ..build import InfraError

ID = "C22"
LEVEL = "model_checking"
META = dict(
    engine="E3-sched", level="model_checking",
    technique="stateless model checking: all interleavings (no preemption bound) of 2-4 real threads running every "
              "short program over an errno-operation alphabet, with switch points between operations and inside "
              "callback bodies; plus exhaustive single-thread chains over the full operation / callback-body "
              "alphabet; oracle = sequential per-thread model (one errno slot per thread)",
    text="Operations: assign ffi.errno, read ffi.errno (through the compiled ffi, an in-line cffi.FFI() = api.py, an "
         "out-of-line ffi and _cffi_backend.set_errno/get_errno; values 0, negative, INT_MAX, INT_MIN, True, -1 and "
         "rejected values that must leave errno unchanged), call a C function that returns the errno it saw and sets a "
         "new one through the API-mode lib, through libffi (ffi.addressof), through an in-line ABI dlopen, an "
         "out-of-line ABI lib and a legacy ffi.verify() module (also with an argument whose __index__ fails a "
         "syscall, and with a > 512-byte list argument = malloc path), call a C helper that invokes an ffi.callback / "
         "extern \"Python\" function in the middle whose body is itself a program (reads, assignments, nested C calls "
         "through each path, fetch of the `errno` global, a second-level callback, raise with the traceback printed "
         "through a sys.stderr that fails a syscall, raise with an onerror handler that assigns ffi.errno) and a "
         "scheduling point, the same callback called directly from Python and from a thread created by C "
         "(pthread_create; the calling thread's errno must not change), a failing syscall as an operation, read / "
         "write / addressof of plain globals in API / in-line / out-of-line mode and read / write of a global that is "
         "really `errno`.  Scheduler families (counters pairs / triples / audit-pairs / quadruples): all programs of "
         "length <= 2 over the first 17 operations (3 threads: length 1), every pair of single operations of the whole "
         "43-operation alphabet and all 3-operation pairs over a 6+6 subset of it (audit-pairs; quick: 8 x 8 single "
         "operations), 4 threads with one operation each; all combinations, all schedules; a bystander thread (the "
         "controller) keeps its own errno throughout.  Chain families (counters chain:op-singles, chain:op-pairs, "
         "chain:callback-bodies, chain:callback-depth3, chain:front-ends-values; identical in both tiers): every "
         "operation and every ordered pair of operations, every callback body of length <= 2 for every callback "
         "mechanism x {via C helper, direct call, C-created thread}, front end x front end x value.  "
         "The thorough tier is about 1.1 million executions (30 x the quick tier; measured 113 min with a 10+10 "
         "audit-pairs subset on the machine under a load average of 80, i.e. with a fifth of a core per worker).",
    note="switch points are operation boundaries and callback bodies (other threads are parked on semaphores, so "
         "releasing the GIL inside a C call cannot switch elsewhere); real OS threads, so thread-local storage is real; "
         "bodies run in a C-created thread have no switch point (the thread is unknown to the scheduler; its creator "
         "waits in pthread_join)")

C_SRC = r"""
#include <errno.h>
#include <pthread.h>
int seterr(int w) { int seen = errno; errno = w; return seen; }
int seterr_a(int *a, int w) { int seen = errno; (void)a; errno = w; return seen; }
int helper(int (*cb)(int), int tok, int w1, int *seen_entry, int *seen_after)
{
    *seen_entry = errno;
    errno = w1;
    cb(tok);
    *seen_after = errno;
    return 0;
}
struct c22_ct { int (*cb)(int); int tok, w1; int *e, *a; };
static void *c22_ct_main(void *p)
{
    struct c22_ct *c = (struct c22_ct *)p;
    errno = 77;                      /* a new OS thread: the callback must see w1, the helper 77 */
    helper(c->cb, c->tok, c->w1, c->e, c->a);
    return 0;
}
/* runs helper() in a thread made by C; returns the errno the CALLER had at entry and leaves it in place */
int in_cthread(int (*cb)(int), int tok, int w1, int *seen_entry, int *seen_after)
{
    int e0 = errno;
    struct c22_ct c;
    pthread_t t;
    c.cb = cb; c.tok = tok; c.w1 = w1; c.e = seen_entry; c.a = seen_after;
    if (pthread_create(&t, 0, c22_ct_main, &c) != 0) {
        *seen_entry = -12345;
    }
    else {
        pthread_join(t, 0);
    }
    errno = e0;
    return e0;
}
#ifdef C22_API
static int xp_cb(int);
static int xp_cb_oe(int);
static int helper_xp(int oe, int tok, int w1, int *seen_entry, int *seen_after)
{
    return helper(oe ? xp_cb_oe : xp_cb, tok, w1, seen_entry, seen_after);
}
static int in_cthread_xp(int oe, int tok, int w1, int *seen_entry, int *seen_after)
{
    return in_cthread(oe ? xp_cb_oe : xp_cb, tok, w1, seen_entry, seen_after);
}
#define cerrno errno
static int xp_unattached(int);
static int helper_xpu(int w1, int *seen_entry, int *seen_after)
{
    return helper(xp_unattached, 0, w1, seen_entry, seen_after);
}
#endif
int counter = 5;
"""
CDEF_ABI = """
int seterr(int);
int seterr_a(int *, int);
int helper(int (*cb)(int), int, int, int *, int *);
int in_cthread(int (*cb)(int), int, int, int *, int *);
extern int counter;
"""
CDEF = CDEF_ABI + """
int helper_xp(int, int, int, int *, int *);
int in_cthread_xp(int, int, int, int *, int *);
extern "Python" int xp_cb(int);
extern "Python" int xp_cb_oe(int);           /* registered with onerror= */
extern "Python" int xp_unattached(int);      /* never given a Python function */
int helper_xpu(int, int *, int *);
extern int cerrno;
"""

_W = {}
INT_MAX = 2 ** 31 - 1
INT_MIN = -2 ** 31
BAD = {"2**31": 2 ** 31, "-2**31-1": -2 ** 31 - 1, "2**70": 2 ** 70, "str": "x", "float": 1.5, "none": None}
FRONT_ENDS = ("api", "inline", "ool", "backend")
C_PATHS = ("api", "ffi", "abi", "ool", "verify")
CB_MECHS = ("callback", "extern", "abi-callback", "ool-callback", "verify-callback")


def setup():
    """Build the API module once; open its .so in in-line and out-of-line ABI mode too; build a verify() module."""
    import importlib.util
    import warnings
    import cffi
    d = os.path.join(build.scratch_shared(), "c22")
    os.makedirs(d, exist_ok=True)
    name = "_c22_api"
    ffi = cffi.FFI()
    ffi.cdef(CDEF)
    ffi.set_source(name, "#define C22_API 1\n" + C_SRC, libraries=["pthread"])
    so = ffi.compile(tmpdir=d, verbose=False)
    spec = importlib.util.spec_from_file_location(name, so)
    mod = importlib.util.module_from_spec(spec)
    spec.loader.exec_module(mod)
    ffi2 = cffi.FFI()
    ffi2.cdef(CDEF_ABI)
    lib2 = ffi2.dlopen(so)
    ffi3b = cffi.FFI()
    ffi3b.cdef(CDEF_ABI)
    ffi3b.set_source("_c22_ool", None)
    py = os.path.join(d, "_c22_ool.py")
    ffi3b.emit_python_code(py)
    spec = importlib.util.spec_from_file_location("_c22_ool", py)
    m3 = importlib.util.module_from_spec(spec)
    spec.loader.exec_module(m3)
    lib3 = m3.ffi.dlopen(so)
    # legacy verify() module: vengine_cpy has its own wrapper template and reaches restore/save_errno
    # through the _cffi_exports table
    ffiv = cffi.FFI()
    ffiv.cdef(CDEF_ABI)
    dv = os.path.join(d, "verify")
    os.makedirs(dv, exist_ok=True)
    saved = os.dup(2)
    devnull = os.open(os.devnull, os.O_WRONLY)
    sys.stderr.flush()
    os.dup2(devnull, 2)               # distutils chatter
    try:
        with warnings.catch_warnings():
            warnings.simplefilter("ignore")
            libv = ffiv.verify(C_SRC, tmpdir=dv, modulename="_c22_verify", libraries=["pthread"])
    finally:
        os.dup2(saved, 2)
        os.close(saved)
        os.close(devnull)
    if type(libv.seterr).__name__ != "builtin_function_or_method":
        raise InfraError("ffi.verify() did not use the CPython extension engine")
    _W.update(ffi=mod.ffi, lib=mod.lib, ffi2=ffi2, lib2=lib2, ffi3=m3.ffi, lib3=lib3, ffiv=ffiv, libv=libv,
              seterr_ffi=mod.ffi.addressof(mod.lib, "seterr"), seterr_a_ffi=mod.ffi.addressof(mod.lib, "seterr_a"))


# ---------------------------------------------------------------------------------------------
# operations (top level and inside callback bodies):
#   ('S', v[, fe])  ('G'[, fe])  ('SX', badkey, fe)  ('D',)
#   ('C', path, w[, argkind])     argkind: 'dirtyarg' | 'biglist'
#   ('V',)  ('VW', x)  ('GV', access, mode)  ('CBU', w)
#   ('CB', mech, w1, body)  ('CBD', mech, body)  ('CBT', mech, w1, body)
# only as the LAST element of a body:
#   ('RAISE',)                 the body raises; cffi prints the traceback (through sys.stderr = _DirtyErr)
#   ('RAISE', 'onerror', hb)   the body raises; the onerror handler runs the body program hb
# ---------------------------------------------------------------------------------------------
def alphabet(tid):
    b = 100 * (tid + 1)
    rr = (("G",), ("G",))
    return [
        ("S", b + 1), ("G",),
        ("C", "api", b + 2), ("C", "ffi", b + 3), ("C", "abi", b + 4), ("C", "ool", b + 5),
        ("CB", "callback", b + 6, rr), ("CB", "callback", b + 7, (("G",), ("S", b + 8))),
        ("CB", "extern", b + 9, (("G",), ("S", b + 10))), ("CB", "abi-callback", b + 11, (("G",), ("S", b + 12))),
        ("V",),
        # an extern "Python" function that no Python code was attached to (cffi reports it and returns 0)
        ("CBU", b + 13),
        # plain global variables of dlopen()ed libraries: read / write / addressof must not disturb errno
        ("GV", "rd", "ool"), ("GV", "wr", "ool"), ("GV", "addr", "ool"), ("GV", "rd", "abi"), ("GV", "rd", "api"),
        # ---- index 17...: audit-round operations -------------------------------------------------
        ("S", -(b + 1), "inline"),                                             # 17
        ("G", "backend"),                                                      # 18
        ("S", INT_MAX - tid, "backend"),                                       # 19
        ("G", "inline"),                                                       # 20
        ("D",),                                                                # 21
        ("C", "api", b + 21, "dirtyarg"),                                      # 22
        ("C", "abi", b + 22, "biglist"),                                       # 23
        ("C", "verify", b + 23),                                               # 24
        ("CB", "callback", b + 24, (("C", "api", b + 25),)),                   # 25 nested C call
        ("CB", "extern", b + 26, (("V",), ("C", "ffi", b + 27))),              # 26 nested fetch + libffi call
        ("CB", "callback", b + 28, (("G",), ("RAISE",))),                      # 27 raising body
        ("CB", "extern", b + 29, (("RAISE", "onerror", (("S", b + 30),)),)),   # 28 onerror assigns
        ("CB", "abi-callback", b + 31, (("CB", "callback", b + 32, (("G",), ("S", b + 33))),)),   # 29 cb in cb
        ("CBD", "callback", (("G",), ("S", b + 34))),                          # 30 direct call of the cdata
        ("CBT", "callback", b + 35, (("G",), ("S", b + 36))),                  # 31 in a thread made by C
        ("CBT", "extern", b + 37, (("C", "api", b + 38),)),                    # 32
        ("VW", b + 39),                                                        # 33 lib.cerrno = x
        ("GV", "wr", "api"), ("GV", "addr", "api"), ("GV", "wr", "abi"), ("GV", "addr", "abi"),   # 34-37
        ("SX", "2**31", "api"),                                                # 38
        ("CB", "callback", b + 40, (("D",), ("G",))),                          # 39 dirty step inside a body
        ("S", 0, "ool"),                                                       # 40
        ("S", INT_MIN + tid, "api"),                                           # 41
        ("CB", "verify-callback", b + 41, (("G",), ("S", -(b + 42), "backend"))),   # 42
    ]


N_OLD = 17


def values(tid):
    b = 100 * (tid + 1)
    return [b + 1, 0, -(b + 1), INT_MAX - tid, INT_MIN + tid, -1, True]


def body_alphabet(tid, nested=True):
    """Elements of callback bodies (the last two only make sense as the last element)."""
    b = 100 * (tid + 1)
    al = [
        ("G",), ("G", "inline"), ("S", b + 50), ("S", -(b + 51), "inline"), ("S", INT_MAX - tid, "backend"),
        ("C", "api", b + 52), ("C", "ffi", b + 53), ("C", "abi", b + 54), ("C", "ool", b + 55),
        ("C", "verify", b + 56), ("C", "api", b + 57, "dirtyarg"), ("C", "ffi", b + 58, "biglist"),
        ("V",), ("VW", b + 59), ("D",), ("SX", "2**70", "inline"), ("GV", "rd", "api"),
    ]
    if nested:
        al += [
            ("CB", "callback", b + 60, (("G",), ("S", b + 61))),
            ("CB", "extern", b + 62, (("C", "api", b + 63),)),
            ("CB", "abi-callback", b + 64, (("G",), ("RAISE",))),
            ("CBD", "callback", (("S", b + 65),)),
        ]
    al += [
        ("RAISE",), ("RAISE", "onerror", ()), ("RAISE", "onerror", (("S", b + 66),)),
        ("RAISE", "onerror", (("C", "api", b + 67), ("G",))),
    ]
    return al


def bodies(tid, maxlen, nested=True):
    al = body_alphabet(tid, nested)
    out = []
    for n in range(1, maxlen + 1):
        for t in itertools.product(al, repeat=n):
            if any(op[0] == "RAISE" for op in t[:-1]):
                continue                    # nothing runs after a raise
            out.append(t)
    return out


def model(prog, start=0):
    """Sequential model of one thread: list of expected observations.  `py` is the thread's one errno slot."""
    obs = []
    py = _model_ops(prog, start, obs)
    obs.append(("END", py))
    return obs


def _model_ops(ops, py, obs):
    for op in ops:
        k = op[0]
        if k == "S":
            py = int(op[1])
        elif k == "G":
            obs.append(("G", py))
        elif k == "SX":
            obs.append(("SX", "raised"))                 # and the slot keeps its value
        elif k == "C":
            obs.append(("C", py))
            py = op[2]
        elif k == "CB":
            entry = py                                   # what the C helper sees at entry
            py = _model_ops(op[3], op[2], obs)           # the body starts from the errno C had set: w1
            obs.append(("CB", entry, py))                # ... and C sees the body's final value afterwards
        elif k == "CBD":
            py = _model_ops(op[2], py, obs)
            obs.append(("CBD",))
        elif k == "CBT":
            after = _model_ops(op[3], op[2], obs)        # runs in another OS thread
            obs.append(("CBT", py, 77, after))           # the caller's errno is not touched
        elif k == "V":
            obs.append(("V", py))
        elif k == "CBU":
            obs.append(("CBU", py, op[1]))      # errno seen at entry; errno after the (empty) extern call
            py = op[1]
        elif k == "GV":
            obs.append(("GV", 5 if op[1] == "rd" else 0))
        elif k == "RAISE":
            if len(op) > 1:
                py = _model_ops(op[2], py, obs)
            return py
        elif k in ("D", "VW"):
            pass                                         # only the real errno changes, never the slot
        else:
            raise InfraError("unknown op %r" % (op,))
    return py


def nontrivial(prog):
    """Does the program contain an operation that observes or moves errno (for the evidence counters)?"""
    return any(op[0] not in ("D", "GV") for op in prog)


# ---------------------------------------------------------------------------------------------
# execution
# ---------------------------------------------------------------------------------------------
TOKMUL = 100000
_ENVS = {}


def _dirty():
    """A failing syscall: the thread's real C errno becomes ENOENT."""
    try:
        os.stat("/nonexistent-c22/x")
    except OSError:
        pass


class _I(object):
    """An integer argument whose conversion fails a syscall in the middle of argument processing."""

    def __init__(self, v):
        self.v = v

    def __index__(self):
        _dirty()
        return self.v
    __int__ = __index__


class _DirtyErr(object):
    """sys.stderr of the workers: cffi prints the traceback of a raising callback here, between
    save_errno and restore_errno of invoke_callback."""

    def write(self, s):
        _dirty()
        return len(s)

    def flush(self):
        _dirty()


class _Raise(Exception):
    def __init__(self, hbody, env):
        Exception.__init__(self, "C22 body raises")
        self.hbody = hbody
        self.env = env


class Env(object):
    """Per-thread execution context."""

    def __init__(self, tid, point):
        self.tid = tid
        self.point = point
        self.out = []
        self.pending = {}
        self.ntok = 0
        self.cbs = {}
        _ENVS[tid] = self

    def token(self, body):
        self.ntok += 1
        tok = self.tid * TOKMUL + self.ntok
        self.pending[tok] = body
        return tok

    def cb(self, mech, oe):
        c = self.cbs.get((mech, oe))
        if c is None:
            f = {"callback": "ffi", "abi-callback": "ffi2", "ool-callback": "ffi3", "verify-callback": "ffiv"}[mech]
            if oe:
                c = _W[f].callback("int(int)", _pycb, error=-1, onerror=_onerror)
            else:
                c = _W[f].callback("int(int)", _pycb, error=-1)
            self.cbs[(mech, oe)] = c
        return c


def _pycb(tok):
    # runs between save_errno (entry) and restore_errno (exit) of invoke_callback / cffi_call_python
    env = _ENVS[tok // TOKMUL]
    body = env.pending.pop(tok)
    try:
        _run_body(body, env)
    except (_Raise, sched.SchedAbort):
        raise
    except BaseException as e:
        env.out.append(("EXC-in-body", repr(e)))
    return 0


def _onerror(exc, val, tb):
    if isinstance(val, _Raise) and val.hbody is not None:
        try:
            _run_body(val.hbody, val.env)
        except (_Raise, sched.SchedAbort):
            raise
        except BaseException as e:
            val.env.out.append(("EXC-in-onerror", repr(e)))
    return None


def _run_body(body, env):
    n = len(body)
    for j, op in enumerate(body):
        if j > 0 or n == 1:
            env.point(("in-callback",))          # other threads run while this callback is active
        do_op(op, env)


def _needs_oe(body):
    return any(op[0] == "RAISE" and len(op) > 1 for op in body)


def _get(fe):
    if fe == "backend":
        import _cffi_backend
        return _cffi_backend.get_errno()
    return _W[{"api": "ffi", "inline": "ffi2", "ool": "ffi3"}[fe]].errno


def _set(fe, v):
    if fe == "backend":
        import _cffi_backend
        _cffi_backend.set_errno(v)
    else:
        _W[{"api": "ffi", "inline": "ffi2", "ool": "ffi3"}[fe]].errno = v


def do_op(op, env):
    W = _W
    ffi, lib = W["ffi"], W["lib"]
    out = env.out
    k = op[0]
    if k == "S":
        _set(op[2] if len(op) > 2 else "api", op[1])
    elif k == "G":
        out.append(("G", _get(op[1] if len(op) > 1 else "api")))
    elif k == "SX":
        try:
            _set(op[2], BAD[op[1]])
        except (TypeError, OverflowError):
            out.append(("SX", "raised"))
        else:
            out.append(("SX", "accepted"))
    elif k == "D":
        _dirty()
    elif k == "C":
        path = op[1]
        kind = op[3] if len(op) > 3 else None
        L = {"api": lib, "ffi": None, "abi": W["lib2"], "ool": W["lib3"], "verify": W["libv"]}[path]
        if kind == "biglist":
            f = W["seterr_a_ffi"] if path == "ffi" else L.seterr_a
            # 200 ints = 800 bytes: the temporary is malloc()ed, and converting element 0 fails a syscall
            out.append(("C", f([_I(1)] + [0] * 199, _I(op[2]))))
        else:
            f = W["seterr_ffi"] if path == "ffi" else L.seterr
            out.append(("C", f(_I(op[2]) if kind == "dirtyarg" else op[2])))
    elif k in ("CB", "CBT"):
        mech, w1, body = op[1], op[2], op[3]
        oe = _needs_oe(body)
        tok = env.token(body)
        if mech == "extern":
            e, a = ffi.new("int *"), ffi.new("int *")
            r = (lib.helper_xp if k == "CB" else lib.in_cthread_xp)(int(oe), tok, w1, e, a)
        else:
            F, L = {"callback": (ffi, lib), "abi-callback": (W["ffi2"], W["lib2"]),
                    "ool-callback": (W["ffi3"], W["lib3"]), "verify-callback": (W["ffiv"], W["libv"])}[mech]
            e, a = F.new("int *"), F.new("int *")
            r = (L.helper if k == "CB" else L.in_cthread)(env.cb(mech, oe), tok, w1, e, a)
        if tok in env.pending:
            out.append(("callback-not-run",))
        if k == "CB":
            out.append(("CB", e[0], a[0]))
        else:
            if e[0] == -12345:
                raise InfraError("pthread_create failed")
            out.append(("CBT", r, e[0], a[0]))
    elif k == "CBD":
        mech, body = op[1], op[2]
        oe = _needs_oe(body)
        tok = env.token(body)
        if mech == "extern":
            (lib.xp_cb_oe if oe else lib.xp_cb)(tok)
        else:
            env.cb(mech, oe)(tok)
        if tok in env.pending:
            out.append(("callback-not-run",))
        out.append(("CBD",))
    elif k == "V":
        out.append(("V", lib.cerrno))
    elif k == "VW":
        lib.cerrno = op[1]
    elif k == "CBU":
        e, a = ffi.new("int *"), ffi.new("int *")
        lib.helper_xpu(op[1], e, a)
        out.append(("CBU", e[0], a[0]))
    elif k == "GV":
        L = {"ool": W["lib3"], "abi": W["lib2"], "api": lib}[op[2]]
        F = {"ool": W["ffi3"], "abi": W["ffi2"], "api": ffi}[op[2]]
        if op[1] == "rd":
            out.append(("GV", L.counter))
        elif op[1] == "wr":
            L.counter = 5
            out.append(("GV", 0))
        else:
            F.addressof(L, "counter")
            out.append(("GV", 0))
    elif k == "RAISE":
        raise _Raise(op[2] if len(op) > 1 else None, env)
    else:
        raise InfraError("unknown op %r" % (op,))


def run_one(progs, prefix):
    s = sched.Sched(prefix, reuse_threads=False)     # thread-local storage must be fresh
    results = [[] for _ in progs]
    _ENVS.clear()

    def body(i):
        env = Env(i, s.point)
        env.out = results[i]
        # as before the audit round: the plain callbacks exist before the first operation
        env.cb("callback", False)
        env.cb("abi-callback", False)
        for op in progs[i]:
            s.point(("op",))
            do_op(op, env)
        s.point(("end",))
        env.out.append(("END", _W["ffi"].errno))
    for i in range(len(progs)):
        s.spawn(body, i)
    s.results = results
    s.run()
    return s


def run_chain(chain, tid=0):
    """Run the programs of `chain` one after the other in ONE fresh thread, without the scheduler.
    Returns the list of observation lists (the errno slot is carried from one program to the next)."""
    res = []
    _ENVS.clear()

    def target():
        env = Env(tid, lambda label=None: None)
        for p in chain:
            env.out = out = []
            try:
                for op in p:
                    do_op(op, env)
                out.append(("END", _W["ffi"].errno))
            except InfraError:
                raise
            except BaseException as e:
                out.append(("EXC", repr(e)))
            res.append(out)
    err = []

    def guarded():
        try:
            target()
        except BaseException as e:
            err.append(e)
    t = threading.Thread(target=guarded)
    t.start()
    t.join()
    if err:
        raise InfraError("chain runner: %r" % (err[0],))
    return res


def chain_expected(chain):
    start = 0                                    # a fresh thread
    out = []
    for p in chain:
        m = model(p, start)
        start = m[-1][1]
        out.append(m)
    return out


BYSTANDER = 4242


def install_extern():
    ffi = _W["ffi"]
    ffi.def_extern(name="xp_cb", error=-1)(_pycb)
    ffi.def_extern(name="xp_cb_oe", error=-1, onerror=_onerror)(_pycb)


_BOUND = [2]


def _first_diff(got, want):
    for g, w in zip(got, want):
        if g != w:
            return str(w[0])
    return "length"


def work(item):
    progs = item
    viol = []
    logs = set()
    W = _W

    expected = [model(p) for p in progs]
    # the controller thread is a bystander: nothing the scheduled threads do may change ITS errno
    W["ffi"].errno = BYSTANDER

    def on_exec(s):
        logs.add(tuple(tuple(r) for r in s.results))
        if s.deadlock or s.errors:
            viol.append({"family": "sched", "progs": progs, "choices": list(s.choices), "what": "deadlock-or-error",
                         "errors": s.errors})
            return True
        for i, (got, want) in enumerate(zip(s.results, expected)):
            if got != want:
                viol.append({"family": "sched", "progs": progs, "choices": list(s.choices), "thread": i, "got": got,
                             "want": want, "op": _first_diff(got, want)})
                return len(viol) >= 2
        mine = W["ffi"].errno
        if mine != BYSTANDER:
            viol.append({"family": "sched", "progs": progs, "choices": list(s.choices), "what": "bystander-errno-changed",
                         "got": mine, "want": BYSTANDER})
            return True
        return False
    a = run_one(progs, [])
    b = run_one(progs, [])
    if a.results != b.results or a.points != b.points:
        # state leaking from one execution into the next (e.g. an errno that is not per thread)
        # shows up here first: it is a violation if a run disagrees with the model, and only
        # otherwise a loss of control by the harness
        if a.points != b.points or (a.results == expected and b.results == expected):
            raise InfraError("non-deterministic replay for %r" % (progs,))
    total_ops = sum(len(p) for p in progs)
    bound = None if (len(progs) == 2 and total_ops <= 3) else (1 if len(progs) >= 4 else _BOUND[0])
    st = sched.explore(lambda p: run_one(progs, p), bound, on_exec=on_exec)
    return {"executions": st["executions"], "decisions": st["decisions"], "viol": viol, "distinct": len(logs)}


def work_chain(chain):
    W = _W
    W["ffi"].errno = BYSTANDER
    got = run_chain(chain)
    want = chain_expected(chain)
    viol = []
    for k, (g, w) in enumerate(zip(got, want)):
        if g != w:
            viol.append({"family": "chain", "chain": chain[:k + 1], "index": k, "got": g, "want": w,
                         "op": _first_diff(g, w)})
            break                                 # later programs started from a state the model does not know
    mine = W["ffi"].errno
    if mine != BYSTANDER and not viol:
        viol.append({"family": "chain", "chain": chain, "index": len(chain) - 1, "what": "bystander-errno-changed",
                     "got": mine, "want": BYSTANDER})
    return {"executions": len(chain), "decisions": sum(len(p) for p in chain), "viol": viol,
            "distinct": len(set(p for p in chain if nontrivial(p)))}


def programs(tid, maxlen, alpha_idx=None):
    al = alphabet(tid)
    if alpha_idx is None:
        alpha_idx = range(N_OLD)
    al = [al[i] for i in alpha_idx]
    out = []
    for n in range(1, maxlen + 1):
        out.extend(itertools.product(al, repeat=n))
    return out


def work_block(item):
    fam, block = item
    tot = {"executions": 0, "decisions": 0, "distinct": 0, "chain_programs": 0}
    viol = []
    saved = sys.stderr
    sys.stderr = _DirtyErr()
    try:
        for x in block:
            if fam == "chain":
                r = work_chain(x)
                tot["chain_programs"] += len(x)
            else:
                r = work(x)
            for k in ("executions", "decisions", "distinct"):
                tot[k] += r[k]
            viol.extend(r["viol"])
            if len(viol) > 5:
                break
    finally:
        sys.stderr = saved
    tot["viol"] = viol
    tot["n"] = len(block)
    tot["fam"] = fam
    return tot


def run(ctx):
    setup()
    install_extern()
    sys.stderr.flush()
    _devnull = os.open(os.devnull, os.O_WRONLY)
    _saved2 = os.dup(2)
    os.dup2(_devnull, 2)           # cffi reports every call of the unattached extern "Python" function on fd 2
    try:
        return _run(ctx)
    finally:
        os.dup2(_saved2, 2)


# ---------------------------------------------------------------------------------------------
# families
# ---------------------------------------------------------------------------------------------
def chain_families(quick):
    """name -> list of single-thread programs (thread id 0 values)."""
    fam = {}
    al = alphabet(0)
    b = 100
    # (a) every operation alone and every ordered pair of operations of the full alphabet
    extra = [("C", p, b + 70 + i, kind) for i, (p, kind) in enumerate(
        (p, kind) for p in C_PATHS for kind in ("dirtyarg", "biglist"))]
    extra += [("CBD", m, (("G",), ("S", b + 81))) for m in CB_MECHS]
    extra += [("CBT", m, b + 82, (("G",), ("V",), ("S", b + 83))) for m in CB_MECHS]
    full = al + [x for x in extra if x not in al]
    fam["op-singles"] = [(x,) for x in full]
    fam["op-pairs"] = list(itertools.product(full, repeat=2))
    # (b) callback bodies: every body of length <= 2, for every mechanism, entered through the C helper /
    #     directly / from a C-made thread  (the chains are cheap: the same in both tiers)
    out = []
    for mech in CB_MECHS:
        for body in bodies(0, 2):
            out.append((("CB", mech, b + 90, body),))
            out.append((("CBD", mech, body),))
            out.append((("CBT", mech, b + 91, body), ("G",)))
    fam["callback-bodies"] = out
    # three levels: helper -> callback -> helper -> extern -> helper -> in-line callback
    deep = []
    for inner in bodies(0, 1, nested=False):
        deep.append((("CB", "callback", b + 92, (("G",), ("CB", "extern", b + 93, (
            ("CB", "abi-callback", b + 94, inner), ("G",))))),))
    fam["callback-depth3"] = deep
    # (c) front end x front end x value; rejected values through every front end
    out = []
    for v in values(0):
        for f1 in FRONT_ENDS:
            for f2 in FRONT_ENDS:
                out.append((("S", v, f1), ("D",), ("G", f2), ("C", "api", b + 95)))
            for p in C_PATHS:
                out.append((("S", v, f1), ("C", p, v), ("G", f1)))
            out.append((("CB", "callback", v, (("G", f1), ("S", v, f1))), ("G", f1)))
    for key in sorted(BAD):
        for fe in FRONT_ENDS:
            for v in values(0)[:5]:
                out.append((("S", v), ("SX", key, fe), ("G", fe), ("C", "api", b + 96)))
            out.append((("CB", "extern", b + 97, (("SX", key, fe), ("G",))),))
    fam["front-ends-values"] = out
    return fam


def sched_families(quick):
    """name -> list of program combinations run under the scheduler."""
    fam = {}
    if quick:
        A0 = [0, 1, 2, 7, 10, 11, 12]
        A1 = [1, 3, 8, 13, 14, 15]
        p0 = programs(0, 2, alpha_idx=A0)
        p1 = programs(1, 2, alpha_idx=A1)
        pairs = [(a, b) for a in p0 for b in p1 if len(a) + len(b) <= 3]
        pairs += [(a, b) for a in programs(0, 1, [5, 6, 9]) for b in programs(1, 1, [5, 6, 9, 10])]
        pairs += [(a, b) for a in programs(0, 2, [0, 7]) for b in programs(1, 2, [1, 3]) if len(a) + len(b) == 4]
        triples = [(a, b, c) for a in programs(0, 1, [0, 2, 7]) for b in programs(1, 1, [1, 3, 7])
                   for c in programs(2, 1, [0, 1, 7])]
        # audit-round operations, one per thread
        newpairs = [(a, b) for a in programs(0, 1, [17, 19, 22, 25, 27, 29, 31, 39])
                    for b in programs(1, 1, [18, 20, 21, 24, 26, 28, 30, 32])]
        # four threads: all call C through the API path, at most one of them through a callback
        quads = [tuple(((alphabet(t)[7 if t == k else 2]),) for t in range(4)) for k in (None, 0, 1, 2, 3)]
    else:
        p0 = programs(0, 2)
        p1 = programs(1, 2)
        pairs = [(a, b) for a in p0 for b in p1 if len(a) + len(b) <= 3]
        pairs += [(a, b) for a in programs(0, 2, [0, 1, 2, 3, 7, 8, 10]) for b in programs(1, 2, [0, 1, 4, 5, 7, 9, 10])
                  if len(a) + len(b) == 4]
        triples = [(a, b, c) for a in programs(0, 1) for b in programs(1, 1) for c in programs(2, 1, [0, 1, 2, 7, 10])]
        n = len(alphabet(0))
        newpairs = [(a, b) for i, a in enumerate(programs(0, 1, range(n))) for j, b in enumerate(programs(1, 1, range(n)))
                    if i >= N_OLD or j >= N_OLD]
        # (measured: the 10 + 10 subset first used here cost 2000 combinations / ~280 k executions, a third of
        # the whole thorough tier; 6 + 6 keeps every new kind of operation on at least one side)
        S0 = [2, 22, 25, 27, 29, 31]
        S1 = [1, 19, 21, 26, 28, 32]
        newpairs += [(a, b) for a in programs(0, 2, S0) for b in programs(1, 2, S1) if len(a) + len(b) == 3]
        q = [0, 1, 2, 7]
        quads = [(a, b, c, d) for a in programs(0, 1, q) for b in programs(1, 1, q) for c in programs(2, 1, [2, 7])
                 for d in programs(3, 1, [1, 7])]
    fam["pairs"] = pairs
    fam["triples"] = triples
    fam["audit-pairs"] = newpairs
    fam["quadruples"] = quads
    return fam


def _run(ctx):
    _BOUND[0] = 2
    sf = sched_families(ctx.quick)
    cf = chain_families(ctx.quick)
    only = getattr(ctx, "opts", {}).get("only")      # debugging aid: --opt only=chains | only=audit (a partial run)
    if only in ("chains", "audit"):
        sf["pairs"] = []
        sf["triples"] = []
        if only == "chains":
            sf["audit-pairs"] = []
            sf["quadruples"] = []
    elif only == "old":
        sf["audit-pairs"] = []
        sf["quadruples"] = []
        cf = {}
    allp = [p for name in ("pairs", "triples", "audit-pairs", "quadruples") for p in sf[name]]
    chains = []
    CHAIN = 40
    nchainprog = 0
    for name in sorted(cf):
        progs = cf[name]
        nchainprog += len(progs)
        ctx.count("chain:" + name, len(progs))
        for c in pool.chunks(progs, CHAIN):
            chains.append(tuple(c))
    # every thread starts from errno 0
    ctx.log("%d program combinations (%s); %d single-thread programs in %d chains" % (
        len(allp), ", ".join("%d %s" % (len(sf[k]), k) for k in sf), nchainprog, len(chains)))
    blocks = []
    for name in ("pairs", "triples", "audit-pairs", "quadruples"):
        per = max(1, len(allp) // 128) if name != "quadruples" else max(1, len(sf[name]) // 32)
        blocks += [("sched:" + name, b) for b in pool.chunks(sf[name], per)]
    cblocks = [("chain", b) for b in pool.chunks(chains, max(1, len(chains) // 32))]
    # spread the (cheap) chain blocks among the scheduler blocks
    step = max(1, len(blocks) // max(1, len(cblocks)))
    mixed = []
    for i, b in enumerate(blocks):
        mixed.append(b)
        if i % step == 0 and cblocks:
            mixed.append(cblocks.pop())
    mixed.extend(cblocks)
    tot_exec = tot_dec = distinct = chain_exec = 0
    for block, r in pool.pmap(work_block, [[b] for b in mixed], contain_crashes=True, item_timeout=7200):
        if isinstance(r, pool.WorkerError):
            raise InfraError(r.tb)
        if isinstance(r, pool.Crash):
            ctx.violation({"kind": "crash", "family": block[0]},
                          {"family": block[0], "block": "a block of programs", "how": r.describe()})
            continue
        tot_exec += r["executions"]
        tot_dec += r["decisions"]
        distinct += r["distinct"]
        if r["fam"] == "chain":
            chain_exec += r["executions"]
        ctx.count("executions:" + r["fam"], r["executions"])
        for v in r["viol"]:
            kind = v["what"] if "what" in v else "thread-observed-foreign-or-wrong-errno"
            # family: 'sched' / 'chain'; op: kind of the first observation that differs from the model
            ctx.violation({"kind": kind, "family": v["family"], "op": v.get("op")}, v)
    for p in allp[:: max(1, len(allp) // 6)]:
        ctx.sample({"programs": p})
    for c in chains[:: max(1, len(chains) // 4)]:
        ctx.sample({"chain-program": c[0]})
    for k in sf:
        ctx.count(k, len(sf[k]))
    for p in allp:
        for t in p:
            for op in t:
                ctx.count("sched-op:" + op[0])
    cov = {
        "states": tot_dec, "transitions": tot_dec, "traces_validated_against_impl": tot_exec,
        "schedules": tot_exec - chain_exec, "evaluations": tot_exec, "distinct_nontrivial": distinct,
        "rule": "one evaluation = one complete interleaving of one combination of thread programs, or one single-thread "
                "program of a chain (chain families: every operation alone and in ordered pairs, every callback body "
                "of length <= 2 x mechanism x {helper, direct call, C-created thread}, three-level nested callbacks, "
                "front end x front end x value and rejected values); all interleavings at operation and in-callback "
                "granularity are run for every combination (pairs, triples, audit-pairs = the audit-round operations, "
                "quadruples = 4 threads); distinct_nontrivial = distinct result tuples summed over combinations plus "
                "distinct programs per chain",
        "program_combinations": len(allp),
        "chain_programs": nchainprog,
        "preemption_bound": "none (all schedules) for two threads with <= 3 operations in total; %d preemptions for "
                            "longer pairs and for three threads; 1 preemption for four threads" % _BOUND[0],
        "exhaustive": True,
    }
    if only:
        cov["partial_run"] = "only=" + only
    return ctx.finish(cov, ["real OS threads under a baton scheduler; switch points = operation boundaries and callback "
                            "bodies; a callback body run in a C-created thread is atomic for the scheduler"])


def _tup(x):
    if isinstance(x, (list, tuple)):
        return tuple(_tup(v) for v in x)
    return x


def replay(detail):
    setup()
    install_extern()
    saved = sys.stderr
    bad = 0
    if detail.get("family") == "chain":
        chain = _tup(detail["chain"])
        sys.stderr = _DirtyErr()
        try:
            _W["ffi"].errno = BYSTANDER
            got = run_chain(chain)
            mine = _W["ffi"].errno
        finally:
            sys.stderr = saved
        want = chain_expected(chain)
        for k, p in enumerate(chain):
            if got[k] != want[k] or k == len(chain) - 1:
                print("program", k, "of the chain:", p)
                print("   got ", got[k])
                print("   want", want[k])
            if got[k] != want[k]:
                bad = 1
                break
        if mine != BYSTANDER:
            print("bystander thread: errno", mine, "want", BYSTANDER)
            bad = 1
        return bad
    progs = _tup(detail["progs"])
    sys.stderr = _DirtyErr()
    try:
        _W["ffi"].errno = BYSTANDER
        s = run_one(progs, detail["choices"])
        mine = _W["ffi"].errno
    finally:
        sys.stderr = saved
    for i, p in enumerate(progs):
        want = model(p)
        print("thread", i, "program", p)
        print("   got ", s.results[i])
        print("   want", want)
        if s.results[i] != want:
            bad = 1
    if mine != BYSTANDER:
        print("bystander thread: errno", mine, "want", BYSTANDER)
        bad = 1
    if s.deadlock or s.errors:
        print("deadlock" if s.deadlock else "errors", s.errors)
        bad = 1
    return bad
