"""C30 -- declaration and type-string errors are reported as cffi errors; the C
type-string parser never crashes or reads outside its input.

Engine E1 (bounded exhaustive enumeration), two halves.

Python side (cparser.py / api.py):
  * FFI.typeof(): every sequence of <= 3 (thorough 4) tokens over a 53-token
    alphabet, plus every sequence of <= 2 (thorough 3) tokens inside the frames
    `int [ ... ]` and `void ( ... )`;
  * FFI.cdef(): every single-slot deletion / substitution / insertion of every
    token of the shared 47-cdef corpus, and every token sequence inside
    `struct fs { ... };`, `enum fe { ... };`, `#define FX ...`, `int fa[ ... ];`
    (thorough: length <= 3 over the 53 tokens; quick: length <= 2 over the 53
    tokens and length 3 over the 28 tokens that can occur in a field list or a
    constant expression);
  * a few structured families outside the token space: one token repeated
    600/1300/6000 times, array lengths around every integer limit;
  * the families of _c30x.py (added after the audit round, all of them finite
    products executed completely): constructs that pycparser returns as a node
    that is not a declaration (#pragma, _Pragma, _Static_assert) at every token
    gap of the corpus and in sequences inside struct / union / enum / argument
    frames; magnitudes (literals in the four bases, every binary operator and
    growing chains around 63/64 bits, the constant folder's 1024-bit bound and
    the 4300-digit limit of int()/str()) in every place a constant expression
    can stand; every C operator over every literal spelling; specifier and
    common-type keywords; 89 further tokens at the slots of the corpus;
    characters outside printable ASCII; cdef() on an FFI that is not fresh
    (after the same declarations, after a failed cdef(), override, packed).
  Oracle: the call returns or raises an exception whose type the statement
  allows.  Every escaping exception is classified by (type, innermost frame in
  the cffi package[, raising frame inside pycparser]).

C side (parse_c_type.c / ffi_obj.c / realize_c_type.c):
  * a stand-alone ASan+UBSan executable that #includes the tree's
    parse_c_type.c and commontypes.c enumerates every sequence of <= 5
    (thorough 6) symbols over a 36-symbol alphabet (one byte per class the
    tokenizer distinguishes + keywords), every sequence of <= 3 bytes over all
    255 byte values, and (thorough) of <= 4 bytes over the 97 printable bytes;
    input in an exactly-sized heap block; every parse repeated with an output
    array of exactly the needed size and of one slot less;
  * every symbol string of length <= 3 (thorough 4), every accepted string of
    length <= 4 (thorough 5) and ~900 structured strings (non-ASCII, NUL, lone
    surrogate, lengths around 500 / 1000 / 1200, array lengths around every
    integer limit) go through typeof() of a compiled (out-of-line) FFI in
    crash-contained workers; thorough repeats this with the ASan+UBSan build
    of _cffi_backend preloaded into the interpreter;
  * (audit round) a second alphabet of 30 symbols with the keywords the first
    one cannot spell (signed volatile _Bool bool __cdecl, three standard names)
    to length 4 (thorough 5), and ~245 000 explicit strings: the 36 standard
    names of search_standard_typename, the common-type names and the 18
    keywords with every one-character deletion / substitution / insertion,
    alone (the name ends the exactly-sized block) and followed / preceded by
    another token;
  * (audit round) compiled FFIs that are NOT fresh: every block of realised
    strings three times on one shared FFI (forward, reversed, forward), all
    ordered pairs of ~90 short strings (a, b, a on one FFI), and ~6700 strings
    on an API-mode module compiled with gcc whose C constants agree / disagree
    with the cdef (getter answers 0, 1, 2, 3); the oracle is the contract per
    call; whether the answer equals the one of a fresh FFI is counted.
"""
import collections
import ctypes
import hashlib
import itertools
import os
import re
import shutil
import subprocess
import sys
import time
import traceback

from .. import build, pool
from ..build import InfraError
from ._corpus import CORPUS, tokenize
from . import _c30x

ID = "C30"
LEVEL = "exploration"
META = dict(
    engine="E1-enum", level="exploration",
    technique="bounded exhaustive enumeration of token sequences (Python parser) and of byte-class sequences (C parser "
              "under ASan/UBSan with exactly-sized buffers), exception-type contract as oracle",
    text="Every sequence of <=3 (thorough 4) tokens over a 53-token C/cffi alphabet through FFI.typeof(); every "
         "single-token substitution, insertion and deletion of the 47-cdef corpus and every sequence of <=3 tokens inside "
         "struct/enum/#define/array-length frames through FFI.cdef() (quick: length 3 over 28 of the 53 tokens); plus "
         "enumerated families for what that alphabet cannot spell: #pragma / _Pragma / _Static_assert at every token gap "
         "of the corpus and inside aggregate frames, constant expressions around 64 bits, 1024 bits and 4300 digits "
         "(literals in four bases, every binary operator, growing products / sums / shifts) in every place a constant "
         "can stand, every C operator over every literal spelling, specifier and common-type keywords, 89 further tokens "
         "at the corpus slots, non-ASCII / control characters, and cdef() on an FFI that already holds declarations or "
         "a failed cdef() (override, packed): the call must return or raise CDefError, FFIError, NotImplementedError, "
         "VerificationError or VerificationMissing.  "
         "Every sequence of <=5 (thorough 6) symbols over 36 byte classes/keywords, of <=4 (5) over a second 30-symbol "
         "keyword alphabet, of <=3 bytes over all 255 byte values, and ~245000 one-character edits of every standard "
         "type name and keyword, through the tree's parse_c_type.c compiled stand-alone with ASan+UBSan, input and "
         "output arrays in exactly-sized heap blocks (output bound straddled for every string); every string of <=3 "
         "(thorough 4) symbols, every accepted string of <=4 (thorough 5) and every edited name is realised by a "
         "compiled FFI's typeof() in crash-contained workers, on a fresh FFI and again on shared ones (blocks forward / "
         "reversed, all ordered pairs of ~90 short strings, an API-mode module whose C constants disagree with the "
         "cdef): ctype, ffi.error, TypeError or ValueError, never a dead process.  Expected duration on the idle "
         "16-core machine: quick about 20 s, thorough about 15 min.",
    note="allowed exception sets are copied from the statement; the stand-alone parser runs against a hand-written "
         "context (checked for consistency against the real backend on every realised string); ASan dedups reports per "
         "faulting PC, so one input per faulting instruction and process is recorded")

# ===========================================================================
# Python side
# ===========================================================================

TOKENS = [
    # keywords
    "int", "char", "long", "unsigned", "double", "void", "_Complex", "const", "struct", "enum",
    "typedef", "extern", "__stdcall",
    # identifiers: unknown name, typedef name, integer constant (both from the base FFI)
    "x", "T", "K",
    # numbers: zero, plain, bad octal, bare hex prefix, float, huge shift
    "0", "5", "08", "0x", "1e3", "1<<70", "0x1.8p3", "0b12",
    # literals
    "'a'", '"s"',
    # punctuation
    "*", "(", ")", "[", "]", "{", "}", ",", ";", ":", "=", "-", "/", "%", "<<", "...", "#",
    # comments and continuation
    "/*", "*/", "//", "\\", "\\\n",
    # cffi pseudo-syntax, preprocessor, internal names
    "#define", 'extern "Python"', "\n", '# 7 "f.h"', "__dotdotdot__",
]
assert len(TOKENS) == len(set(TOKENS))

BASE_CDEF = "typedef int T;\n#define K 3\nstruct s { int a; };\nenum e { E1 };\n"

TYPEOF_FRAMES = [("int [ %s ]", "typeof_array"), ("void ( %s )", "typeof_args")]
CDEF_FRAMES = [("struct fs { %s };", "struct"), ("enum fe { %s };", "enum"),
               ("#define FX %s\n", "define"), ("int fa[ %s ];", "array"),
               ("%s", "bare"), ("int before(void); %s", "tail")]      # the sequence IS (the end of) the cdef

FRAME_TOKENS_QUICK = ("int", "char", "x", "T", "K", "0", "5", "08", "0x", "1e3", "1<<70", "'a'", "-", "/", "%", "<<",
                      "...", "=", ",", ";", ":", "[", "]", "{", "}", "*", "(", ")")
assert all(t in TOKENS for t in FRAME_TOKENS_QUICK)

ALLOWED_NAMES = ("CDefError", "FFIError", "NotImplementedError", "VerificationError", "VerificationMissing")

_state = {}


def _py_init():
    import warnings
    warnings.simplefilter("ignore")
    import cffi
    from cffi import FFI
    if "base" not in _state:
        base = FFI()
        base.cdef(BASE_CDEF)
        _state["base"] = base
        _state["allowed"] = (cffi.CDefError, cffi.FFIError, NotImplementedError, cffi.VerificationError,
                             cffi.VerificationMissing)
        _state["cffi_dir"] = os.path.dirname(os.path.abspath(cffi.__file__)) + os.sep
    return _state


def _frames_of(exc):
    out = []
    tb = exc.__traceback__
    while tb is not None:
        co = tb.tb_frame.f_code
        out.append((co.co_filename, co.co_name, tb.tb_frame))
        tb = tb.tb_next
    return out


def classify(exc, st):
    """(site, raised_in, extra): site = innermost frame inside the cffi package
    (module.function); raised_in = the frame that actually raised when it is deeper
    (pycparser), else ''."""
    frames = _frames_of(exc)
    cdir = st["cffi_dir"]
    site, idx, frame = "?", -1, None
    for i, (fn, name, fr) in enumerate(frames):
        if fn.startswith(cdir) and "_pycparser" not in fn:
            site = "%s.%s" % (os.path.splitext(os.path.basename(fn))[0], name)
            idx, frame = i, fr
    raised_in = ""
    if idx != len(frames) - 1 and frames:
        fn, name, _ = frames[-1]
        raised_in = "%s.%s" % (os.path.splitext(os.path.basename(fn))[0], name)
    extra = None
    if site == "model.global_cache" and not raised_in and frame is not None:
        extra = frame.f_locals.get("funcname")
    return site, raised_in, extra


def run_py_case(api, text, st=None, plan=None):
    """Execute one case on a fresh FFI.  Returns (outcome, excname, site, raised_in, extra).
    plan = None or {"pre": [[text, opts], ...], "opts": {...}}: cdef() calls made first on the
    same FFI (whatever they raise is the business of their own case) and the keyword options
    of the measured call."""
    st = st or _py_init()
    from cffi import FFI
    f = FFI()
    f.include(st["base"])
    opts = {}
    if plan:
        for ptext, popts in plan.get("pre", ()):
            try:
                f.cdef(ptext, **popts)
            except Exception:
                pass
        opts = plan.get("opts", {})
    try:
        if api == "typeof":
            f.typeof(text)
        else:
            f.cdef(text, **opts)
        return ("ok", "", "", "", None)
    except st["allowed"] as e:
        site, raised_in, extra = classify(e, st)
        return ("allowed", type(e).__name__, site, raised_in, extra)
    except Exception as e:
        site, raised_in, extra = classify(e, st)
        return ("escape", type(e).__name__, site, raised_in, extra)


def py_sig(excname, site, raised_in, extra):
    if excname == "RecursionError":
        # the frame in which the interpreter's limit is reached is arbitrary
        return {"kind": "escape", "site": "recursion_limit", "exc": excname}
    if site == "model.global_cache" and not raised_in:
        return {"kind": "escape", "site": "backend_new_type", "exc": excname}
    if site == "model.finish_backend_type" and not raised_in:
        # the backend's complete_struct_or_union() refusing the fields of an in-line struct/union
        return {"kind": "escape", "site": "backend_complete_struct", "exc": excname}
    sig = {"kind": "escape", "site": site, "exc": excname}
    if raised_in:
        sig["raised_in"] = raised_in
    return sig


def _join(seq):
    return " ".join(seq)


def py_work(item):
    """item = (family, api, template, prefix_tokens, depth): run every completion of
    prefix with `depth` more tokens.  Returns (ncases, histogram, escapes)."""
    family, api, template, prefix, depth, alphabet = item
    st = _py_init()
    hist = collections.Counter()
    escapes = []
    n = 0
    for tail in itertools.product(alphabet or TOKENS, repeat=depth):
        seq = tuple(prefix) + tail
        text = template % _join(seq) if template else _join(seq)
        r = run_py_case(api, text, st)
        n += 1
        if r[0] == "ok":
            hist["%s:ok" % api] += 1
        elif r[0] == "allowed":
            hist["%s:%s@%s" % (api, r[1], r[2])] += 1
        else:
            hist["%s:ESCAPE" % api] += 1
            escapes.append((family, api, text, r[1], r[2], r[3], r[4], ""))
    return n, hist, escapes


def family_group(family):
    """'magnitude_expr_t_array' -> 'magnitude': the name under which a family is counted."""
    for g in ("agg_gap", "agg_frame", "magnitude", "expr_ops", "spec_seq", "xtok", "nonascii", "state"):
        if family.startswith(g):
            return g
    return None


def mut_work(item):
    """item = list of (family, api, text) or (family, api, text, plan)."""
    import json
    st = _py_init()
    hist = collections.Counter()
    escapes = []
    for case in item:
        family, api, text = case[:3]
        plan = case[3] if len(case) > 3 else None
        r = run_py_case(api, text, st, plan)
        g = family_group(family)
        if g:
            # the added families are also counted per family: executed / not a plain syntax error
            hist["family:%s" % g] += 1
            if not (r[0] == "allowed" and r[2] == "cparser.convert_pycparser_error"):
                hist["family:%s:nontrivial" % g] += 1
        if r[0] == "ok":
            hist["%s:ok" % api] += 1
        elif r[0] == "allowed":
            hist["%s:%s@%s" % (api, r[1], r[2])] += 1
        else:
            hist["%s:ESCAPE" % api] += 1
            escapes.append((family, api, text, r[1], r[2], r[3], r[4],
                            json.dumps(plan, sort_keys=True) if plan else ""))
    return len(item), hist, escapes


def seq_items(family, api, template, maxlen, alphabet=None):
    """Work items covering all sequences of length 0..maxlen: split on the first two tokens."""
    items = []
    for L in range(0, maxlen + 1):
        if L <= 2:
            items.append((family, api, template, (), L, alphabet))
        else:
            for a in alphabet or TOKENS:
                for b in alphabet or TOKENS:
                    items.append((family, api, template, (a, b), L - 2, alphabet))
    return items


def corpus_mutants():
    """Every single-slot deletion / substitution / insertion of every token of the corpus."""
    out = []
    ntok = 0
    for name, text in CORPUS:
        toks, _ = tokenize(text)
        ntok += len(toks)
        for i, t in enumerate(toks):
            out.append(("mut_delete", "cdef", text[:t.start] + " " + text[t.end:]))
            for a in TOKENS:
                if a != t.text:
                    out.append(("mut_subst", "cdef", text[:t.start] + " " + a + " " + text[t.end:]))
                out.append(("mut_insert", "cdef", text[:t.start] + " " + a + " " + text[t.start:]))
        for a in TOKENS:
            out.append(("mut_insert", "cdef", text + " " + a + " "))
    seen = set()
    uniq = []
    for m in out:
        if m[2] not in seen:
            seen.add(m[2])
            uniq.append(m)
    return uniq, ntok


LONG_REPEATS = (600, 1300, 6000)


def long_inputs():
    """Deep / long inputs: one token repeated; straddles the recursion depth of the model
    builder (about 1000 frames) and the int-string digit limit (4300)."""
    out = []
    for n in LONG_REPEATS:
        out.append(("long", "typeof", "int " + "*" * n))
        out.append(("long", "typeof", "int " + "[2]" * n))
        out.append(("long", "typeof", "int " + "(" * n + "*" + ")" * n))
        out.append(("long", "typeof", "int [" + "(" * n + "5" + ")" * n + "]"))
        out.append(("long", "typeof", "int [" + "-" * n + "5]"))
        out.append(("long", "typeof", "int [" + "5" * n + "]"))
        out.append(("long", "cdef", "#define FX " + "5" * n + "\n"))
        out.append(("long", "cdef", "struct fs { " + "struct { " * n + "int a;" + " };" * n + " };"))
        out.append(("long", "cdef", "enum fe { A = " + "1 + " * n + "1 };"))
    return out


def array_boundaries():
    vals = [0, 1, 2 ** 31 - 1, 2 ** 31, 2 ** 32, 2 ** 62, 2 ** 63 - 1, 2 ** 63, 2 ** 64 - 1, 2 ** 64, 10 ** 30]
    out = []
    for v in vals:
        for lit in ("%d" % v, "0x%x" % v, "0%o" % v, "%dU" % v, "-%d" % v):
            for el in ("int", "char", "void", "T", "struct s"):
                out.append("%s[%s]" % (el, lit))
    return out


# ===========================================================================
# C side: stand-alone parser harness
# ===========================================================================

SYMS = [b" ", b"\n", b"*", b"(", b")", b"[", b"]", b",", b".", b"0", b"3", b"9", b"x", b"a", b"t", b"_",
        b"\x01", b"\xe9",
        b"int", b"char", b"long", b"short", b"unsigned", b"double", b"float", b"_Complex", b"void", b"const",
        b"struct", b"union", b"enum", b"__stdcall", b"...", b"FILE", b"size_t", b"9223372036854775808"]
NSYM = len(SYMS)
# second alphabet: the keywords and name tables that SYMS cannot spell (signed, volatile, _Bool,
# __cdecl, the common type 'bool' that is parsed through a nested tokenizer, three standard
# names of search_standard_typename) among the specifiers and declarator symbols they combine with
SYMS2 = [b" ", b"*", b"(", b")", b"[", b"]", b",", b"0", b"x", b"t",
         b"int", b"char", b"long", b"short", b"unsigned", b"const", b"double", b"float", b"_Complex", b"void",
         b"__stdcall", b"struct",
         b"signed", b"volatile", b"_Bool", b"bool", b"__cdecl", b"int8_t", b"wchar_t", b"uint_least16_t"]
assert len(SYMS2) == len(set(SYMS2))
# the same symbols as Python str for the real backend (a lone 0xE9 byte is not valid UTF-8:
# the str version is U+00E9, two high bytes; both versions are rejected by the tokenizer)
SYMS_STR = [s.decode("latin-1") for s in SYMS]

OOL_CDEF = """
typedef int t; typedef int tt(int);
struct t { int a; }; union tt { int a; char x; }; struct ta;
enum t { x = 2 }; enum tt { xx = -1 };
#define a 0
#define a0 0x8000000000000000
int a3(int);
#define aa 3
#define ax -1
"""

MAXL, OUTMAX, MAXMSG, MAXVIOL = 8, 64, 64, 32


class _Viol(ctypes.Structure):
    _fields_ = [("kind", ctypes.c_int), ("len", ctypes.c_int), ("seq", ctypes.c_ubyte * MAXL),
                ("a", ctypes.c_long), ("b", ctypes.c_long)]


class _Stats(ctypes.Structure):
    _fields_ = [("evaluated", ctypes.c_ulonglong), ("parses", ctypes.c_ulonglong),
                ("accepted", ctypes.c_ulonglong * (MAXL + 1)), ("rejected", ctypes.c_ulonglong * (MAXL + 1)),
                ("maxslots", ctypes.c_ulonglong), ("limit_hits", ctypes.c_ulonglong),
                ("other_small_errors", ctypes.c_ulonglong), ("san_reports", ctypes.c_ulonglong),
                ("acc_bytes", ctypes.c_ulonglong), ("acc_overflow", ctypes.c_ulonglong),
                ("nmsg", ctypes.c_int), ("msg", (ctypes.c_char * 96) * MAXMSG),
                ("msgcount", ctypes.c_ulonglong * MAXMSG),
                ("nviol", ctypes.c_int), ("viol", _Viol * MAXVIOL),
                ("cur_len", ctypes.c_int), ("cur_seq", ctypes.c_ubyte * MAXL), ("cur_phase", ctypes.c_int),
                ("finished", ctypes.c_int)]


HVIOL_KINDS = {1: "output_index_beyond_size", 2: "result_index_not_written", 3: "failure_without_message",
               4: "error_location_outside_string", 5: "HARNESS_OUTMAX_TOO_SMALL", 6: "exact_fit_differs",
               7: "accepted_with_too_small_output"}

SAN_FLAGS = ["-fsanitize=address,undefined", "-fsanitize-recover=address,undefined", "-O1", "-g",
             "-fno-omit-frame-pointer", "-w"]


def _syms_header():
    def cstr(b):
        return '"' + "".join("\\x%02x" % c for c in b) + '"'
    return ("#define NSYM %d\nstatic const char *const SYM[NSYM] = {%s};\nstatic const int SYMLEN[NSYM] = {%s};\n"
            % (NSYM, ", ".join(cstr(s) for s in SYMS), ", ".join(str(len(s)) for s in SYMS)) +
            "#define NSYM2 %d\nstatic const char *const SYM2[NSYM2] = {%s};\nstatic const int SYM2LEN[NSYM2] = {%s};\n"
            % (len(SYMS2), ", ".join(cstr(s) for s in SYMS2), ", ".join(str(len(s)) for s in SYMS2)))


def build_harness():
    """Compile harness/c30_parse_harness.c against <REPO>/src/c (cached by content)."""
    src = os.path.join(build.HARNESS, "c30_parse_harness.c")
    h = hashlib.sha256()
    for fn in (src, os.path.join(build.REPO, "src/c/parse_c_type.c"), os.path.join(build.REPO, "src/c/commontypes.c"),
               os.path.join(build.REPO, "src/cffi/parse_c_type.h")):
        with open(fn, "rb") as f:
            h.update(f.read())
    hdr = _syms_header()
    h.update(hdr.encode())
    h.update(repr(SAN_FLAGS).encode())
    d = os.path.join(build.CACHE, "c30h-%s" % h.hexdigest()[:20])
    exe = os.path.join(d, "c30_harness")
    if os.path.exists(exe):
        return exe
    tmpd = d + ".tmp%d" % os.getpid()
    os.makedirs(tmpd, exist_ok=True)
    with open(os.path.join(tmpd, "c30_syms.h"), "w") as f:
        f.write(hdr)
    cmd = ["gcc"] + SAN_FLAGS + ["-I" + os.path.join(build.REPO, "src/c"), "-I" + tmpd, src,
                                 "-o", os.path.join(tmpd, "c30_harness")]
    p = subprocess.run(cmd, stdout=subprocess.PIPE, stderr=subprocess.STDOUT, text=True)
    if p.returncode != 0:
        shutil.rmtree(tmpd, ignore_errors=True)
        raise InfraError("cannot build the parser harness:\n" + p.stdout[-3000:])
    try:
        os.rename(tmpd, d)
    except OSError:
        shutil.rmtree(tmpd, ignore_errors=True)
    # keep only the 4 most recent harness builds
    ents = sorted((os.path.join(build.CACHE, x) for x in os.listdir(build.CACHE) if x.startswith("c30h-")
                   and ".tmp" not in x), key=os.path.getmtime)
    for old in ents[:-4]:
        shutil.rmtree(old, ignore_errors=True)
    return exe


HARNESS_ENV = {"ASAN_OPTIONS": "halt_on_error=0:detect_leaks=0:abort_on_error=0:allocator_may_return_null=1",
               "UBSAN_OPTIONS": "halt_on_error=0:print_stacktrace=1"}

_r_marker = re.compile(r"^C30-(ASAN|UBSAN)-INPUT phase=(\d+) seq=([\d,]*)$", re.M)


MODES = {
    "sym": SYMS,
    "sym2": SYMS2,
    "bytes": [bytes([c]) for c in range(1, 256)],
    "ascii": [bytes([c]) for c in range(1, 256) if c in (9, 10) or 0x20 <= c <= 0x7e],
}


_list_strings = []       # mode "list": the explicit strings given to the harness (set by run())


def list_index(seq):
    return (seq[0] << 24) | (seq[1] << 16) | (seq[2] << 8) | seq[3]


def seq_bytes(seq, mode="sym"):
    if mode == "list":
        return _list_strings[list_index(seq)]
    tab = MODES[mode]
    return b"".join(tab[i] for i in seq)


def standard_names():
    """The names of search_standard_typename() and of commontypes.c, read from the tree's source."""
    with open(os.path.join(build.REPO, "src/c/parse_c_type.c")) as f:
        src = f.read()
    m = re.search(r"int search_standard_typename\(.*?\n}\n", src, re.S)
    if not m:
        raise InfraError("search_standard_typename not found in parse_c_type.c")
    names = [lit + "_t" for lit, n in re.findall(r'size == \d+ && !memcmp\(p, "(\w+)",\s*(\d+)\)', m.group(0))
             if len(lit) == int(n)]
    if len(names) < 30:
        raise InfraError("only %d standard names found in parse_c_type.c" % len(names))
    with open(os.path.join(build.REPO, "src/c/commontypes.c")) as f:
        common = re.findall(r'EQ\("(\w+)"', f.read())
    # on this platform only the entries outside '#ifdef MS_WIN32' exist; the others are ordinary
    # unknown identifiers (kept: they are short and cost nothing)
    return sorted(set(names)), sorted(set(common))


def write_list_file(path, strings):
    with open(path, "wb") as f:
        f.write(len(strings).to_bytes(4, "big"))
        for b in strings:
            if b"\0" in b or len(b) > MAXL * 16:
                raise InfraError("bad list string %r" % (b,))
            f.write(len(b).to_bytes(2, "big") + b)


def seq_str(seq, mode="sym"):
    return seq_bytes(seq, mode).decode("latin-1")


def _first_user_frame(body):
    """First frame of the faulting stack that is not inside the sanitizer runtime."""
    ma = re.search(r"^(?:READ|WRITE) of size \d+.*\n((?:\s+#\d+ .*\n)+)", body, re.M)
    for fl in (ma.group(1).splitlines() if ma else []):
        mm = re.match(r"\s+#\d+ \S+ in (\w+) (\S+?):(\d+)", fl)
        if mm and "libsanitizer" not in mm.group(2) and not mm.group(1).startswith("__interceptor"):
            return mm
    return None


def parse_san_reports(text):
    """Split the harness's stderr into tagged sanitizer reports."""
    out = []
    ms = list(_r_marker.finditer(text))
    for k, m in enumerate(ms):
        body = text[m.end():ms[k + 1].start() if k + 1 < len(ms) else len(text)]
        seq = [int(x) for x in m.group(3).split(",") if x]
        rep = {"tool": m.group(1).lower(), "phase": int(m.group(2)), "seq": seq, "excerpt": body.strip()[:1500]}
        if rep["tool"] == "asan":
            e = re.search(r"AddressSanitizer: ([\w-]+)", body)
            a = re.search(r"^(READ|WRITE) of size (\d+)", body, re.M)
            f0 = _first_user_frame(body)
            loc = re.search(r"is located (\d+) bytes (to the left of|to the right of|before|after|inside of|inside) "
                            r"(\d+)-byte region", body)
            rep["error"] = e.group(1) if e else "?"
            rep["access"] = a.group(1) if a else "?"
            rep["size"] = int(a.group(2)) if a else 0
            rep["func"] = f0.group(1) if f0 else "?"
            rep["line"] = "%s:%s" % (os.path.basename(f0.group(2)), f0.group(3)) if f0 else "?"
            side = loc.group(2) if loc else "?"
            rep["side"] = {"to the left of": "before", "to the right of": "after", "inside of": "inside"}.get(side, side)
            rep["distance"] = int(loc.group(1)) if loc else -1
        else:
            e = re.search(r"^(\S+?):(\d+):\d+: runtime error: (.*)$", body, re.M)
            rep["error"] = re.sub(r"0x[0-9a-f]+|-?\d+", "N", e.group(3))[:80] if e else "?"
            rep["line"] = "%s:%s" % (os.path.basename(e.group(1)), e.group(2)) if e else "?"
            rep["func"] = "?"
            f0 = re.search(r"#0 \S+ in (\w+)", body)
            if f0:
                rep["func"] = f0.group(1)
        out.append(rep)
    return out


def san_sig(rep):
    if rep["tool"] == "asan":
        return {"kind": "sanitizer", "tool": "asan", "error": rep["error"], "access": rep["access"],
                "func": rep["func"], "side": rep["side"]}
    return {"kind": "sanitizer", "tool": "ubsan", "error": rep["error"], "func": rep["func"]}


def run_harness_jobs(ctx, exe, maxlen, accmax, njobs, workdir, mode="sym", modearg=None):
    """Run the njobs shares of the enumeration concurrently; resume after fatal signals.
    Returns (list of _Stats, accepted list per length, sanitizer reports, crashes)."""
    procs = {}
    files = {}
    resumes = collections.Counter()
    crashes = []
    env = dict(os.environ)
    env.update(HARNESS_ENV)
    env.pop("LD_PRELOAD", None)

    def start(j, resume):
        st, acc, err = files[j]
        cmd = [exe, str(maxlen), str(accmax), str(j), str(njobs), st, acc, modearg or mode] + (
            ["resume"] if resume else [])
        ef = open(err, "ab")
        procs[j] = (subprocess.Popen(cmd, stdout=subprocess.DEVNULL, stderr=ef, env=env), ef)

    for j in range(njobs):
        files[j] = tuple(os.path.join(workdir, "%s-%s%02d" % (mode, p, j)) for p in ("stat", "acc", "err"))
        start(j, False)
    deadline = time.time() + (3600 if not ctx.quick else 900)
    while procs:
        time.sleep(0.05)
        for j in list(procs):
            p, ef = procs[j]
            rc = p.poll()
            if rc is None:
                if time.time() > deadline:
                    for q, _ in procs.values():
                        q.kill()
                    raise InfraError("parser harness job %d did not finish in time" % j)
                continue
            ef.close()
            del procs[j]
            st = read_stats(files[j][0])
            if rc == 0 and st.finished:
                continue
            if rc == 3:
                with open(files[j][2], "rb") as f:
                    raise InfraError("parser harness failed: " + f.read()[-500:].decode("latin-1"))
            # fatal signal / abort while parsing the journalled string
            seq = list(st.cur_seq[:st.cur_len])
            crashes.append({"seq": seq, "phase": st.cur_phase, "rc": rc})
            resumes[j] += 1
            if resumes[j] > 40:
                raise InfraError("parser harness job %d died more than 40 times; last input %r" % (
                    j, seq_bytes(seq, mode)))
            start(j, True)
    stats = [read_stats(files[j][0]) for j in range(njobs)]
    accepted = []
    reports = []
    for j in range(njobs):
        st = stats[j]
        if st.acc_overflow:
            raise InfraError("accepted-string file overflow in job %d" % j)
        with open(files[j][1], "rb") as f:
            data = f.read(st.acc_bytes)
        i = 0
        while i < len(data):
            L = data[i]
            accepted.append(tuple(data[i + 1:i + 1 + L]))
            i += 1 + L
        with open(files[j][2], "rb") as f:
            reports.extend(parse_san_reports(f.read().decode("latin-1")))
    return stats, accepted, reports, crashes


def read_stats(path):
    with open(path, "rb") as f:
        data = f.read(ctypes.sizeof(_Stats))
    if len(data) < ctypes.sizeof(_Stats):
        raise InfraError("short statistics file %s" % path)
    return _Stats.from_buffer_copy(data)


# ---------------------------------------------------------------------------
# realisation through the real backend

_ool = {}


def _ool_code():
    if "code" not in _ool:
        import io
        import warnings
        warnings.simplefilter("ignore")
        from cffi import FFI
        f = FFI()
        f.cdef(OOL_CDEF)
        f.set_source("c30_ool", None)
        buf = io.StringIO()
        so = sys.stdout
        sys.stdout = io.StringIO()
        try:
            f.emit_python_code(buf)
        finally:
            sys.stdout = so
        _ool["code"] = compile(buf.getvalue(), "c30_ool.py", "exec")
    return _ool["code"]


def fresh_compiled_ffi():
    ns = {}
    exec(_ool_code(), ns)
    return ns["ffi"]


def realise_one(s):
    """typeof(s) on a fresh compiled FFI -> (class, exception name, is_parse_error)."""
    return realise_on(fresh_compiled_ffi(), s)


def realise_on(ffi, s):
    """typeof(s) on the given compiled FFI -> (class, exception name, is_parse_error)."""
    ctype_cls = _ool.get("ctype_cls")
    if ctype_cls is None:
        ctype_cls = _ool["ctype_cls"] = type(fresh_compiled_ffi().typeof("int"))
    try:
        r = ffi.typeof(s)
    except ffi.error as e:
        msg = str(e)
        return ("ffi.error", "error", "\n" in msg and msg.rstrip().endswith("^"))
    except (TypeError, ValueError) as e:
        # (UnicodeEncodeError for a string that cannot be encoded is a ValueError)
        return ("type_or_value", type(e).__name__, False)
    except Exception as e:
        return ("escape", type(e).__name__, False)
    if type(r) is not ctype_cls:
        return ("escape", "returned " + type(r).__name__, False)
    return ("ctype", "", False)


def realise_work(item):
    """item = list of (string, harness_verdict) with verdict in {'acc', 'rej', None}.  Every
    string on a fresh compiled FFI; then (blocks of more than one string) the whole block on ONE
    further FFI: forward, reversed, forward again (see seq_work for the oracle)."""
    hist = collections.Counter()
    bad = []
    incons = []
    badseq = []
    fresh = {}
    for s, verdict in item:
        cls, exc, is_parse = realise_one(s)
        fresh[s] = (cls, exc)
        hist["compiled:%s%s" % (cls, (":" + exc) if cls in ("type_or_value", "escape") else "")] += 1
        if cls == "escape":
            bad.append((s, exc))
        if verdict is None and not (cls == "ffi.error" and is_parse):
            hist[("noparse", s)] = 1          # an extra string that got past the parser
        if verdict == "acc" and cls == "ffi.error" and is_parse:
            incons.append((s, "harness accepts, backend reports a parse error"))
        if verdict == "rej" and cls != "ffi.error":
            incons.append((s, "harness rejects, backend answers %s" % cls))
    ncalls = 0
    if len(item) > 1:
        calls = seq_calls("shared", [s for s, _ in item])
        shared = fresh_compiled_ffi()
        for i, s in enumerate(calls):
            cls, exc = realise_on(shared, s)[:2]
            ncalls += 1
            hist["compiled_shared:%s%s" % (cls, (":" + exc) if cls in ("type_or_value", "escape") else "")] += 1
            if cls == "escape" and fresh[s] != (cls, exc):
                # (the same escape on the fresh FFI is reported once, by the fresh case)
                badseq.append(("shared", calls[:i + 1], exc))
            if fresh[s] != (cls, exc):
                hist["compiled_shared:answer_differs_from_fresh_ffi"] += 1
    return len(item) + ncalls, hist, bad, incons, badseq


# ---------------------------------------------------------------------------
# a compiled FFI that is not fresh: state carried from one typeof() to the next (the cache
# keyed by the string, the ctypes written back into ctx.types[] by realize_c_type.c), and
# an API-mode module (static tables sorted by the C compiler, generated constant getters
# that can answer "disagreement")

API_CDEF = """
typedef int t; typedef int tt(int);
struct t { int fa; }; union tt { int fa; char fx; }; struct ta;
enum et { x = 2 }; enum ett { xx = -1 };
#define a 0
#define a0 0x8000000000000000
int a3(int);
#define aa 3
#define ax -1
#define a_ 7
typedef struct { int q; } x0;
typedef struct { int q; ...; } x3;
enum em { xm = 4 };
"""
API_SRC = """
typedef int t; typedef int tt(int);
struct t { int fa; }; union tt { int fa; char fx; }; struct ta;
enum et { x = 2 }; enum ett { xx = -1 };
#define a 0
#define a0 0x8000000000000000ULL
static int a3(int v) { return v; }
#define aa 5          /* the cdef says 3: the generated getter reports the disagreement */
#define ax 0          /* the cdef says -1 */
#define a_ (-7)       /* the cdef says 7 */
typedef struct { int q; } x0;
typedef struct { char c; int q; } x3;
enum em { xm = 6 };   /* the cdef says 4 */
"""
_api = {}


def build_api_module():
    """Compile (gcc, cached by content) the API-mode module; returns the path of the .so."""
    h = hashlib.sha256()
    h.update(build.source_hash().encode())
    for fn in ("recompiler.py", "cffi_opcode.py", "model.py", "cparser.py"):
        with open(os.path.join(build.REPO, "src/cffi", fn), "rb") as f:
            h.update(f.read())
    h.update((API_CDEF + "\0" + API_SRC + "\0" + sys.version).encode())
    d = os.path.join(build.CACHE, "c30api-%s" % h.hexdigest()[:20])
    so = os.path.join(d, "c30_api" + build.EXT_SUFFIX)
    if os.path.exists(so):
        return so
    import warnings
    warnings.simplefilter("ignore")
    from cffi import FFI
    tmpd = d + ".tmp%d" % os.getpid()
    shutil.rmtree(tmpd, ignore_errors=True)
    os.makedirs(tmpd)
    f = FFI()
    f.cdef(API_CDEF)
    f.set_source("c30_api", API_SRC)
    try:
        out = f.compile(tmpdir=tmpd)
    except Exception as e:
        shutil.rmtree(tmpd, ignore_errors=True)
        raise InfraError("cannot build the API-mode module: %s: %s" % (type(e).__name__, e))
    if os.path.basename(out) != os.path.basename(so):
        shutil.move(out, os.path.join(tmpd, os.path.basename(so)))
    try:
        os.rename(tmpd, d)
    except OSError:
        shutil.rmtree(tmpd, ignore_errors=True)
    ents = sorted((os.path.join(build.CACHE, x) for x in os.listdir(build.CACHE) if x.startswith("c30api-")
                   and ".tmp" not in x), key=os.path.getmtime)
    for old in ents[:-4]:
        shutil.rmtree(old, ignore_errors=True)
    if not os.path.exists(so):
        raise InfraError("API-mode module not found after the build: %s" % so)
    return so


def api_ffi():
    """The FFI of the API-mode module (one per process: it cannot be re-created)."""
    if "ffi" not in _api:
        import importlib.util
        spec = importlib.util.spec_from_file_location(
            "c30_api", _api.get("so") or os.environ.get("C30_API_SO") or build_api_module())
        mod = importlib.util.module_from_spec(spec)
        spec.loader.exec_module(mod)
        _api["ffi"] = mod.ffi
    return _api["ffi"]


def seq_calls(kind, strings):
    """The order of the typeof() calls of one item."""
    strings = list(strings)
    if kind == "shared":
        return strings + strings[::-1] + strings      # forward, reversed, forward again
    if kind == "pair":
        return [strings[0], strings[1], strings[0]]
    if kind == "api":
        return strings + strings[::-1]
    raise InfraError("unknown sequence kind %r" % (kind,))


def run_calls(kind, calls):
    """Execute the calls on ONE compiled FFI (shared / pair: a fresh out-of-line FFI; api: the
    process's API-mode FFI).  Returns the list of (class, exception name) per call."""
    ffi = api_ffi() if kind == "api" else fresh_compiled_ffi()
    return [realise_on(ffi, s)[:2] for s in calls]


def seq_work(item):
    """item = (kind, strings).  Oracle per call: the contract of the statement (ctype, ffi.error,
    TypeError / ValueError).  Whether the answer is the one a FRESH FFI gives is counted, not
    judged (the statement does not promise it).  Returns (ncalls, hist, bad) with
    bad = [(kind, calls up to and including the escaping one, exception name)]."""
    kind, strings = item
    calls = seq_calls(kind, strings)
    res = run_calls(kind, calls)
    hist = collections.Counter()
    bad = []
    first = {}
    cache = _ool.setdefault("fresh_cache", {})      # (the answer of a fresh FFI is a function of the string)
    for i, (s, (cls, exc)) in enumerate(zip(calls, res)):
        hist["compiled_%s:%s%s" % (kind, cls, (":" + exc) if cls in ("type_or_value", "escape") else "")] += 1
        if kind == "api":
            ref = first.setdefault(s, (cls, exc))           # no fresh API-mode FFI exists: first answer
            if cls == "escape" and s not in [c[1][-1] for c in bad]:
                bad.append((kind, calls[:i + 1], exc))
        else:
            if s not in cache:
                cache[s] = realise_one(s)[:2]
            ref = cache[s]
            if cls == "escape" and ref != (cls, exc):
                # (the same escape on the fresh FFI is reported once, by the fresh case)
                bad.append((kind, calls[:i + 1], exc))
        if ref != (cls, exc):
            hist["compiled_%s:answer_differs_from_%s" % (kind, "first_call" if kind == "api" else "fresh_ffi")] += 1
    return len(calls), hist, bad


PAIR_EXTRA = ["tt[2]", "struct ta[2]", "void[2]", "t[a0]", "t[ax]", "t[a3]", "t[zz]", "int(int)[2]", "struct t[2]",
              "union tt*", "enum t", "enum tt[x]", "t[x]", "t[xx]", "tt*", "tt(*)[a]", "int(tt)", "int(struct ta)",
              "struct ta(void)", "t(*)(t, ...)", "FILE*", "size_t[aa]", "_Bool[a]", "t[", "zz", "struct zz*", ""]

API_NAMES = ["a", "a0", "a3", "a_", "aa", "ax", "x", "xx", "xm", "x0", "x3", "zz", "et"]
API_ELEMS = ["int", "t", "char", "struct t", "t*", "tt", "void", "x0", "x3", "enum et", "enum ett", "enum em", "union tt"]
API_FORMS = ["%s[%s]", "%s[%s][2]", "%s(*)[%s]", "%s[%s", "%s[ %s ]*", "%s[2][%s]", "%s(%s)", "%s(*)(%s[%s])"]


def api_strings():
    out = ["x0", "x3", "x0*", "x3[2]", "struct $1", "struct $x0", "$x0", "enum et", "enum ett", "enum et[x]", "et", "a3",
           "struct t", "union tt", "struct ta", "struct ta*", "t", "tt", "tt*", "FILE", "bool", "a", "struct x0"]
    for c in API_NAMES:
        for el in API_ELEMS:
            for form in API_FORMS:
                out.append(form % ((el, c) if form.count("%s") == 2 else (el, el, c)))
    return out


def real_dispatch(item):
    """One pool for both kinds of item: a list is a block of (string, verdict) for realise_work, a
    tuple is (kind, strings) for seq_work."""
    return seq_work(item) if isinstance(item, tuple) else realise_work(item)


def realise_item(it):
    """A string (fresh FFI) or [kind, strings] (one FFI for the whole sequence) -> (class, exc)."""
    if isinstance(it, str):
        return realise_one(it)[:2]
    kind, strings = it
    res = run_calls(kind, seq_calls(kind, strings))
    esc = [exc for cls, exc in res if cls == "escape"]
    return ("seq_%s_escape" % kind, esc[0]) if esc else ("seq_%s_ok" % kind, "")


def compiled_extra_strings():
    """Strings outside the symbol enumeration: non-ASCII / NUL / lone surrogate (the branch on
    PyUnicode_AsUTF8), lengths around the 500-character limit of _ffi_bad_type, sizes around
    FFI_COMPLEXITY_OUTPUT = 1200 slots and the 1000-level realisation limit, array lengths
    around every integer limit."""
    out = []
    uni = ["int", "\x00", "é", "\ud800", "\U0001f600", "*"]
    for L in (1, 2):
        for seq in itertools.product(uni, repeat=L):
            out.append("".join(seq))
    for n in (495, 496, 497, 498, 499, 500, 501, 502, 1000):
        out.append("int" + " " * (n - 3))                 # accepted, long
        out.append("int" + " " * (n - 4) + ")")           # error at the very end
        out.append(")" + " " * (n - 1))                   # error at the start
        out.append("é" * n)
    for n in (590, 598, 599, 600, 601, 998, 999, 1000, 1001, 1195, 1197, 1198, 1199, 1200, 1201, 2500):
        out.append("int" + "*" * n)
        out.append("int" + "[]" * n)
        out.append("int" + "[3]" * n)
        out.append("int(" + "," * n)
        out.append("int(" + "int," * n + "int)")
        out.append("int" + "(*" * n + ")" * n)
        out.append("int(" * n)
        out.append("int(*)(" * n + ")" * n)
    vals = [0, 1, 2 ** 31 - 1, 2 ** 31, 2 ** 32, 2 ** 62, 2 ** 63 - 1, 2 ** 63, 2 ** 64 - 1, 2 ** 64, 10 ** 30]
    for v in vals:
        for lit in ("%d" % v, "0x%x" % v, "0X%X" % v, "0%o" % v, "%dU" % v, "-%d" % v, "%dx" % v):
            for el in ("int", "char", "void", "t", "struct t", "struct ta", "tt", "t*", "t[2]"):
                out.append("%s[%s]" % (el, lit))
    seen = set()
    res = []
    for s in out:
        if s not in seen:
            seen.add(s)
            res.append(s)
    return res


ASAN_CHILD = r"""
import sys, json
sys.path.insert(0, %(verif)r)
from vlib.props import c30
items = json.load(open(sys.argv[1]))
start = int(sys.argv[2])
out = open(sys.argv[3], "a")
jr = open(sys.argv[4], "r+b")
for i in range(start, len(items)):
    jr.seek(0); jr.write(b"%%12d" %% i); jr.flush()
    r = c30.realise_item(items[i])
    out.write("%%d %%s %%s\n" %% (i, r[0], r[1]))
out.close()
jr.seek(0); jr.write(b"%%12d" %% -1); jr.flush()
"""


def realise_under_asan(ctx, strings, workdir):
    """Thorough tier: realise the accepted strings once more with the ASan+UBSan build of
    _cffi_backend, libasan preloaded into /venv/bin/python.  Returns (ran, results, deaths)
    or (False, reason, [])."""
    import json
    try:
        env = build.child_env("asan")
    except InfraError as e:
        return False, "asan backend build failed: %s" % e, []
    env["ASAN_OPTIONS"] = "detect_leaks=0:abort_on_error=1:allocator_may_return_null=1:handle_segv=1"
    probe = subprocess.run([build.PY, "-c", "import _cffi_backend, sys; sys.stdout.write(_cffi_backend.__file__)"],
                           env=env, stdout=subprocess.PIPE, stderr=subprocess.PIPE, text=True)
    if probe.returncode != 0 or env["VERIF_BACKEND_DIR"] not in probe.stdout:
        return False, "cannot import the asan backend under LD_PRELOAD: rc=%r %s" % (
            probe.returncode, probe.stderr[-300:]), []
    nshare = pool.NPROC
    shares = [strings[i::nshare] for i in range(nshare)]
    procs = []
    script = os.path.join(workdir, "asan_child.py")
    with open(script, "w") as f:
        f.write(ASAN_CHILD % {"verif": build.VERIF})
    for k, sh in enumerate(shares):
        lst = os.path.join(workdir, "asan_in%02d.json" % k)
        with open(lst, "w") as f:
            json.dump(sh, f)
        jr = os.path.join(workdir, "asan_jr%02d" % k)
        with open(jr, "wb") as f:
            f.write(b"%12d" % 0)
        procs.append([k, 0, 0, None])
    results = collections.Counter()
    deaths = []

    def launch(ent):
        k, start = ent[0], ent[1]
        ent[3] = subprocess.Popen(
            [build.PY, script, os.path.join(workdir, "asan_in%02d.json" % k), str(start),
             os.path.join(workdir, "asan_out%02d" % k), os.path.join(workdir, "asan_jr%02d" % k)],
            env=env, stdout=subprocess.DEVNULL, stderr=open(os.path.join(workdir, "asan_err%02d" % k), "ab"))
    for ent in procs:
        if shares[ent[0]]:
            launch(ent)
    live = [e for e in procs if e[3] is not None]
    while live:
        time.sleep(0.05)
        for ent in list(live):
            rc = ent[3].poll()
            if rc is None:
                continue
            live.remove(ent)
            k = ent[0]
            with open(os.path.join(workdir, "asan_jr%02d" % k), "rb") as f:
                cur = int(f.read(12))
            if rc == 0 and cur == -1:
                continue
            if cur < 0 or cur >= len(shares[k]):
                raise InfraError("asan realisation child %d died outside a case (rc=%r)" % (k, rc))
            with open(os.path.join(workdir, "asan_err%02d" % k), "rb") as f:
                err = f.read().decode("latin-1")
            deaths.append({"string": shares[k][cur] if isinstance(shares[k][cur], str) else shares[k][cur][1][0],
                           "item": shares[k][cur], "rc": rc,
                           "report": err if len(err) < 4000 else err[:1500] + "\n[...]\n" + err[-2500:]})
            ent[2] += 1
            if ent[2] > 20:
                raise InfraError("asan realisation child %d died more than 20 times" % k)
            open(os.path.join(workdir, "asan_err%02d" % k), "wb").close()
            ent[1] = cur + 1
            if ent[1] < len(shares[k]):
                launch(ent)
                live.append(ent)
    n = 0
    for k in range(nshare):
        p = os.path.join(workdir, "asan_out%02d" % k)
        if os.path.exists(p):
            with open(p) as f:
                for line in f:
                    parts = line.split(" ", 2)
                    results[parts[1] + (":" + parts[2].strip() if parts[2].strip() else "")] += 1
                    n += 1
    return True, (n, results), deaths


# ===========================================================================
# the check
# ===========================================================================

def run(ctx):
    quick = ctx.quick
    cov = {}
    root = {}          # sig key -> {sig, count, min_input, apis, families}

    def note_root(sig, text, api, family):
        import json
        key = json.dumps(sig, sort_keys=True)
        r = root.get(key)
        if r is None:
            r = root[key] = {"sig": sig, "count": 0, "min_input": text, "apis": set(), "families": set()}
        r["count"] += 1
        r["apis"].add(api)
        r["families"].add(family)
        if (len(text), text) < (len(r["min_input"]), r["min_input"]):
            r["min_input"] = text

    # ------------------------------------------------------------------ C side first (it only
    # needs the 16 harness processes; the Python side follows)
    t0 = time.time()
    exe = build_harness()
    ctx.log("harness ready (%.1fs)" % (time.time() - t0))
    maxlen = 5 if quick else 6
    accmax = 4 if quick else 5
    rall = 3 if quick else 4
    workdir = os.path.join(build.scratch(), "c30")
    os.makedirs(workdir, exist_ok=True)
    # "--opt phases=c,real,py" restricts a run to some phases (used while demonstrating
    # detection; the evidence then says so and is not marked exhaustive)
    phases = set(getattr(ctx, "opts", {}).get("phases", "c,real,py").split(","))
    # sym2: the keyword alphabet (30 symbols), one symbol shorter than the main pass
    passes = [("sym", maxlen, accmax), ("sym2", maxlen - 1, 3 if quick else 4), ("bytes", 3, 3)]
    if not quick:
        passes.append(("ascii", 4, 4))
    # explicit strings: every standard / common type name and keyword with every one-character edit
    std_names, common_names = standard_names()
    global _list_strings
    list_cases = _c30x.name_edits(std_names + common_names)
    _list_strings = [b.encode("ascii") for b, _ in list_cases]
    listfile = os.path.join(workdir, "list-in")
    write_list_file(listfile, _list_strings)
    passes.append(("list", 4, 4))
    if "c" not in phases:
        passes = []
    c_eval = c_parses = 0
    c_side_cov = {}
    msgs = collections.Counter()
    nrep = ncrash = 0
    accepted_by_mode = {}
    # the main pass alone on all the cores, then the small passes side by side (most of their
    # time is the start of 16 sanitizer processes)
    import threading
    pass_results = {}

    def run_pass(mode, mlen, amax):
        tp = time.time()
        try:
            njobs = pool.NPROC if mode in ("sym", "bytes", "ascii") else max(1, pool.NPROC // 4)
            pass_results[mode] = run_harness_jobs(ctx, exe, mlen, amax, njobs, workdir, mode,
                                                  "list:" + listfile if mode == "list" else None) + (
                                                      time.time() - tp,)
        except BaseException as e:
            pass_results[mode] = e
    for mode, mlen, amax in passes[:1]:
        run_pass(mode, mlen, amax)
    threads = [threading.Thread(target=run_pass, args=p_) for p_ in passes[1:]]
    for th in threads:
        th.start()
    for th in threads:
        th.join()
    for mode, mlen, amax in passes:
        if isinstance(pass_results[mode], BaseException):
            raise pass_results[mode]
        stats, accepted, reports, crashes, dt_pass = pass_results[mode]
        tp = time.time() - dt_pass
        nsym = len(MODES[mode]) if mode != "list" else len(_list_strings)
        ev = sum(s.evaluated for s in stats)
        expected = sum(nsym ** L for L in range(1, mlen + 1)) if mode != "list" else nsym
        if ev != expected and not crashes:
            raise InfraError("harness (%s) evaluated %d strings, expected %d" % (mode, ev, expected))
        c_eval += ev
        c_parses += sum(s.parses for s in stats)
        acc_per_len = [sum(s.accepted[L] for s in stats) for L in range(MAXL + 1)]
        if mode == "list":
            acc_per_len = [0, acc_per_len[4], 0, 0, 0]      # (one class: explicit strings)
            mlen = 1
        accepted_by_mode[mode] = set(accepted)
        ctx.count("cparse_strings:" + mode, ev)
        ctx.count("cparse_accepted:" + mode, sum(acc_per_len))
        for s in stats:
            for i in range(s.nmsg):
                msgs[s.msg[i].value.decode("latin-1")] += s.msgcount[i]
        ctx.count("cparse:small_output_limit_hit", sum(s.limit_hits for s in stats))
        ctx.count("cparse:small_output_other_error", sum(s.other_small_errors for s in stats))
        c_side_cov[mode] = {"symbols": nsym, "maxlen": mlen, "strings": ev,
                            "accepted_per_length": acc_per_len[1:mlen + 1],
                            "max_output_slots": max(s.maxslots for s in stats),
                            "sanitizer_reports": len(reports), "fatal_signals": len(crashes)}
        ctx.log("C side [%s]: %d strings over %d symbols, length <= %d, in %.1fs; accepted %s, %d sanitizer reports, "
                "%d fatal signals" % (mode, ev, nsym, mlen, time.time() - tp, acc_per_len[1:mlen + 1], len(reports),
                                      len(crashes)))
        if mode == "list":
            c_side_cov[mode]["what"] = ("%d standard names, %d common-type names and %d keywords with every "
                                        "one-character edit, alone / followed by '*' or '[3]' / after 'const '" % (
                                            len(std_names), len(common_names), len(_c30x.C_KEYWORDS)))
        nrep += len(reports)
        ncrash += len(crashes)
        for s in stats:
            for k in range(min(s.nviol, MAXVIOL)):
                v = s.viol[k]
                seq = list(v.seq[:v.len])
                kind = HVIOL_KINDS.get(v.kind, "?")
                if v.kind == 5:
                    raise InfraError("OUTMAX too small for %r" % seq_bytes(seq, mode))
                sig = {"kind": "cparse_contract", "what": kind}
                note_root(sig, seq_str(seq, mode), "parse_c_type", "cparse")
                ctx.violation(sig, {"side": "cparse", "mode": mode, "seq": seq, "string": seq_bytes(seq, mode),
                                    "a": v.a, "b": v.b})
        reports.sort(key=lambda r: (len(r["seq"]), r["seq"], r["phase"]))
        for rep in reports:
            sig = san_sig(rep)
            note_root(sig, seq_str(rep["seq"], mode), "parse_c_type", "cparse")
            ctx.violation(sig, {"side": "cparse", "mode": mode, "seq": rep["seq"],
                                "string": seq_bytes(rep["seq"], mode), "phase": rep["phase"], "line": rep["line"],
                                "report": rep["excerpt"]})
        for c in sorted(crashes, key=lambda c: (len(c["seq"]), c["seq"])):
            sig = {"kind": "crash", "where": "parse_c_type_standalone"}
            note_root(sig, seq_str(c["seq"], mode), "parse_c_type", "cparse")
            ctx.violation(sig, {"side": "cparse", "mode": mode, "seq": c["seq"], "string": seq_bytes(c["seq"], mode),
                                "phase": c["phase"], "rc": c["rc"]})
    for m, n in sorted(msgs.items()):
        ctx.count("cparse:" + m, n)
    accset = accepted_by_mode.get("sym", set())
    c_acc_total = sum(sum(v["accepted_per_length"]) for v in c_side_cov.values())

    # ------------------------------------------------------------------ realisation
    t1 = time.time()
    _ool_code()
    cases = []
    for L in range(1, rall + 1 if "real" in phases else 1):
        for seq in itertools.product(range(NSYM), repeat=L):
            cases.append((seq_str(seq), ("acc" if seq in accset else "rej") if "c" in phases else None))
    nall = len(cases)
    for seq in sorted(accset, key=lambda s: (len(s), s)):
        if len(seq) > rall:
            cases.append((seq_str(seq), "acc"))
    have = set(c[0] for c in cases)

    def add_case(text, verdict):
        if text not in have:
            have.add(text)
            cases.append((text, verdict))
    # the keyword alphabet: every string of <= 2 (thorough 3) symbols, accepted or not
    acc2 = accepted_by_mode.get("sym2", set())
    for L in range(1, rall if "real" in phases and "c" in phases else 1):
        for seq in itertools.product(range(len(SYMS2)), repeat=L):
            add_case(seq_str(seq, "sym2"), "acc" if seq in acc2 else "rej")
    # the explicit strings: the unedited names (accepted or not) and, below, every accepted edit
    accl = set(list_index(q) for q in accepted_by_mode.get("list", ()))
    if "real" in phases and "c" in phases:
        plain_names = set(std_names + common_names + _c30x.C_KEYWORDS)
        for k, (text, plain) in enumerate(list_cases):
            if text in plain_names or (plain and not quick):
                add_case(text, "acc" if k in accl else "rej")
    for mode in sorted(accepted_by_mode):
        if mode != "sym":
            for seq in sorted(accepted_by_mode[mode], key=lambda s: (len(s), s)):
                b = seq_bytes(seq, mode)
                if max(b) < 0x80:
                    add_case(b.decode("ascii"), "acc")
    extra = compiled_extra_strings() if "real" in phases else []
    # one item per block of enumerated strings; the extra strings are one item each (some
    # of them kill the process: the pool then attributes the death to exactly that string)
    blocks = [[cases[i::256]] for i in range(256) if cases[i::256]]
    blocks += [[[(s, None)] for s in extra[i:i + 16]] for i in range(0, len(extra), 16)]
    nenum = len(cases)
    cases.extend((s, None) for s in extra)
    nreal = 0
    suspects = []
    crashed_blocks = []
    comp_bad = []
    seq_bad = []
    extra_past_parser = []
    single_deaths = set()

    def dead(s, r):
        ctx.count("compiled:CRASH")
        single_deaths.add(s)
        sig = {"kind": "crash", "where": "compiled_typeof"}
        note_root(sig, s, "compiled typeof", "realise")
        ctx.violation(sig, {"side": "compiled", "string": s, "how": r.describe(), "confirmed": r.confirmed})

    def dead_seq(kind, strings, r):
        ctx.count("compiled_%s:CRASH" % kind)
        sig = {"kind": "crash", "where": "compiled_typeof", "ffi": kind}
        note_root(sig, strings[0] if strings else "", "compiled typeof (%s FFI)" % kind, "realise_" + kind)
        ctx.violation(sig, {"side": "compiled_seq", "kind": kind, "strings": list(strings), "how": r.describe(),
                            "confirmed": r.confirmed})

    # ---- a compiled FFI that is not fresh: extra strings shared, ordered pairs, API mode
    seq_items_ = []
    if "real" in phases:
        short_extra = [s for s in extra if len(s) <= 200]
        seq_items_ += [("shared", short_extra[i::16]) for i in range(16) if short_extra[i::16]]
        # (accepted strings of <= 2 symbols; quick: one per class of strings equal up to blanks)
        pair_set = [seq_str(q) for q in sorted(accset, key=lambda q: (len(q), q)) if len(q) <= 2]
        if quick:
            pair_set = [q.strip() for q in pair_set]
        pair_set = sorted(set(pair_set + PAIR_EXTRA), key=lambda q: (len(q), q))
        seq_items_ += [("pair", (a, b)) for a in pair_set for b in pair_set]
        npairs = len(pair_set) ** 2
        _api["so"] = os.environ["C30_API_SO"] = build_api_module()
        api_list = api_strings() + [seq_str(q) for L in (1, 2) for q in itertools.product(range(NSYM), repeat=L)]
        api_list += [c[0] for c in cases[:nenum] if "[" in c[0]]
        seen_ = set()
        api_list = [x for x in api_list if not (x in seen_ or seen_.add(x))]
        seq_items_ += [("api", api_list[i::32]) for i in range(32) if api_list[i::32]]
        cov_seq = {"shared_extra_strings": len(short_extra), "ordered_pairs": npairs, "pair_alphabet": len(pair_set),
                   "api_mode_strings": len(api_list)}
    else:
        cov_seq = {}
    nseq = 0
    # (one pool for both kinds of item: starting 16 workers costs more than the items)
    blocks += [seq_items_[i::64] for i in range(64) if seq_items_[i::64]]
    for blk, r in pool.pmap(real_dispatch, blocks):
        if isinstance(r, pool.WorkerError):
            raise InfraError(r.tb)
        if isinstance(blk, tuple):
            # an item on a non-fresh FFI: (kind, strings)
            if isinstance(r, pool.Crash):
                dead_seq(blk[0], list(blk[1]), r)
                continue
            n, hist, bad = r
            nseq += n
            for k, v in hist.items():
                ctx.count(k, v)
            seq_bad.extend(bad)
            continue
        if isinstance(r, pool.Crash):
            if len(blk) == 1:
                dead(blk[0][0], r)
                nreal += 1
            else:
                suspects.extend(blk)
                crashed_blocks.append((blk, r))
            continue
        n, hist, bad, incons, badseq = r
        nreal += n
        for k, v in hist.items():
            if isinstance(k, tuple):
                extra_past_parser.append(k[1])
            else:
                ctx.count(k, v)
        if incons:
            raise InfraError("stand-alone parser and backend disagree (harness context mismatch?): %r" % (incons[:3],))
        comp_bad.extend(bad)
        seq_bad.extend(badseq)
    if suspects:
        # a worker died inside a block: run that block's strings one per item
        for it, r in pool.pmap(realise_work, [[[c] for c in suspects[i:i + 16]] for i in range(0, len(suspects), 16)]):
            if isinstance(r, pool.WorkerError):
                raise InfraError(r.tb)
            if isinstance(r, pool.Crash):
                dead(it[0][0], r)
                nreal += 1
                continue
            n, hist, bad, incons, badseq = r
            nreal += n
            for k, v in hist.items():
                if not isinstance(k, tuple):
                    ctx.count(k, v)
            if incons:
                raise InfraError("stand-alone parser and backend disagree: %r" % (incons[:3],))
            comp_bad.extend(bad)
        for blk, r in crashed_blocks:
            if not any(c[0] in single_deaths for c in blk):
                # no string of the block kills a fresh FFI: the death needs the shared one
                dead_seq("shared", [c[0] for c in blk], r)
    comp_bad.sort(key=lambda b: (b[1], len(b[0]), b[0]))
    for s, exc in comp_bad:
        sig = {"kind": "compiled_escape", "exc": exc}
        note_root(sig, s, "compiled typeof", "realise")
        ctx.violation(sig, {"side": "compiled", "string": s, "exc": exc})
    ctx.count("compiled_shared:answer_differs_from_fresh_ffi", 0)
    ctx.log("realisation: %d calls (%d all<=%d, %d further enumerated/accepted/edited names, %d extra; each block also "
            "3 times on one shared FFI) in %.1fs" % (nreal, nall, rall, nenum - nall, len(extra), time.time() - t1))

    nreal += nseq
    seq_bad.sort(key=lambda b: (b[0], b[2], len(b[1]), b[1]))
    for kind, calls, exc in seq_bad:
        sig = {"kind": "compiled_escape", "exc": exc, "ffi": kind}
        note_root(sig, calls[-1], "compiled typeof (%s FFI)" % kind, "realise_" + kind)
        ctx.violation(sig, {"side": "compiled_seq", "kind": kind, "calls": list(calls), "exc": exc})
    if seq_items_:
        ctx.log("non-fresh compiled FFIs (same pool): %d calls (%s)" % (nseq, ", ".join(
            "%s=%d" % kv for kv in sorted(cov_seq.items()))))

    asan_note = "not run in the quick tier"
    if not quick and "real" in phases:
        t2 = time.time()
        # every string of <= 2 symbols (accepted or not), every accepted string, and the extra
        # strings that got past the parser in the plain build
        acc_strings = [seq_str(q) for L in (1, 2) for q in itertools.product(range(NSYM), repeat=L)]
        acc_strings += [seq_str(q) for q in sorted(accset, key=lambda q: (len(q), q)) if len(q) > 2]
        acc_strings += sorted(extra_past_parser, key=lambda q: (len(q), q))
        acc_strings += [seq_str(q, "sym2") for L in (1, 2) for q in itertools.product(range(len(SYMS2)), repeat=L)]
        acc_strings += [c[0] for c in cases[nall:nenum] if c[1] == "acc"]
        seen_ = set()
        acc_strings = [x for x in acc_strings if not (x in seen_ or seen_.add(x))]
        # ... and the non-fresh FFIs: every pair / API-mode block, the accepted strings in shared blocks
        acc_strings += [[k_, list(v_)] for k_, v_ in seq_items_]
        short_acc = [x for x in acc_strings if isinstance(x, str) and len(x) <= 200]
        acc_strings += [["shared", short_acc[i::512]] for i in range(512) if short_acc[i::512]]
        ok, res, deaths = realise_under_asan(ctx, acc_strings, workdir)
        if not ok:
            asan_note = "skipped: %s" % res
            ctx.log("asan realisation " + asan_note)
        else:
            n, hist = res
            for k, v in hist.items():
                ctx.count("compiled_asan:" + k, v)
            asan_note = "%d accepted/extra strings realised under the asan backend, %d process deaths" % (n, len(deaths))
            nreal += n
            for d in deaths:
                m = re.search(r"AddressSanitizer: ([\w-]+)", d["report"])
                f0 = (re.search(r"SUMMARY: \w+: \S+ \S+ in (\w+)", d["report"]) or _first_user_frame(d["report"])
                      or re.search(r"#0 \S+ in (\w+)", d["report"]))
                u = re.search(r"runtime error: (.*)", d["report"])
                sig = {"kind": "sanitizer_backend", "error": m.group(1) if m else (
                    re.sub(r"0x[0-9a-f]+|-?\d+", "N", u.group(1))[:60] if u else "death"),
                       "func": f0.group(1) if f0 else "?"}
                note_root(sig, d["string"], "compiled typeof (asan)", "realise_asan")
                ctx.violation(sig, {"side": "compiled_asan", "string": d["string"], "item": d["item"], "rc": d["rc"],
                                    "report": d["report"]})
            ctx.log("asan realisation: %s in %.1fs" % (asan_note, time.time() - t2))

    # ------------------------------------------------------------------ Python side
    t3 = time.time()
    tmax = 3 if quick else 4
    items = seq_items("typeof_seq", "typeof", None, tmax)
    if "py" not in phases:
        items = []
    fmax = 2 if quick else 3
    for tmpl, nm in TYPEOF_FRAMES if "py" in phases else []:
        items += seq_items("typeof_frame_" + nm, "typeof", tmpl, fmax)
    for tmpl, nm in CDEF_FRAMES if "py" in phases else []:
        if quick:
            # full alphabet up to 2 tokens, length 3 over the 28 tokens that can occur in a
            # constant expression / field list (the full alphabet at length 3 is the thorough tier)
            items += seq_items("cdef_frame_" + nm, "cdef", tmpl, 2)
            items += [i for i in seq_items("cdef_frame_" + nm, "cdef", tmpl, 3, FRAME_TOKENS_QUICK) if i[4] + len(i[3]) == 3]
        else:
            items += seq_items("cdef_frame_" + nm, "cdef", tmpl, 3)
    py_n = 0
    escapes = []
    for it, r in pool.pmap(py_work, [items[i::64] for i in range(64)]):
        if isinstance(r, pool.WorkerError):
            raise InfraError(r.tb)
        if isinstance(r, pool.Crash):
            ctx.violation({"kind": "crash", "where": "python_parser"}, {"side": "py_item", "item": it,
                                                                          "how": r.describe()})
            continue
        n, hist, esc = r
        py_n += n
        for k, v in hist.items():
            ctx.count(k, v)
        escapes.extend(esc)
    ctx.log("python sequences: %d cases in %.1fs" % (py_n, time.time() - t3))
    t4 = time.time()
    muts, ntok = corpus_mutants() if "py" in phases else ([], 0)
    if "py" in phases:
        have_texts = set(m[2] for m in muts)
        muts += long_inputs()
        muts += [("array_boundaries", "typeof", s) for s in array_boundaries()]
        # the families added after the audit round (see _c30x.py)
        muts += _c30x.xtok_mutants(CORPUS, tokenize, quick, have_texts)
        muts += _c30x.agg_frame(quick)
        muts += _c30x.magnitude(quick)
        muts += _c30x.expr_ops(quick)
        muts += _c30x.spec_seq(quick)
        muts += _c30x.nonascii(quick, TOKENS)
        muts += _c30x.state_cases(CORPUS, tokenize, TOKENS, quick)
        seen_ = set()
        uniq_ = []
        for m in muts:
            key = (m[1], m[2], repr(m[3]) if len(m) > 3 and m[3] else "")
            if key not in seen_:
                seen_.add(key)
                uniq_.append(m)
        muts = uniq_
    nm = 0
    nblk = 96 if quick else 1024
    # the deep inputs first, in 4 blocks of their own: each of them costs 0.1 - 1 s (several
    # seconds when all the workers fault in deep stacks at the same time)
    deep = [m for m in muts if len(m[2]) > 1000]
    muts = [m for m in muts if len(m[2]) <= 1000]
    mblocks = [[deep[i::4]] for i in range(4) if deep[i::4]] + [[muts[i::nblk]] for i in range(nblk)]
    muts = deep + muts
    for it, r in pool.pmap(mut_work, mblocks):
        if isinstance(r, pool.WorkerError):
            raise InfraError(r.tb)
        if isinstance(r, pool.Crash):
            ctx.violation({"kind": "crash", "where": "python_parser"}, {"side": "py_block", "block": it,
                                                                          "how": r.describe()})
            continue
        n, hist, esc = r
        nm += n
        for k, v in hist.items():
            ctx.count(k, v)
        escapes.extend(esc)
    ctx.log("python mutants/long/boundaries: %d cases in %.1fs" % (nm, time.time() - t4))

    # report: one minimal case per signature first, then the rest, in a canonical order
    import json
    bysig = collections.defaultdict(list)
    for family, api, text, exc, site, raised_in, extra_, plan in escapes:
        sig = py_sig(exc, site, raised_in, extra_)
        note_root(sig, text, api, family)
        # (a case with a plan sorts after the same text without one: the minimal case of a
        # signature is a single call on a fresh FFI whenever there is one)
        bysig[json.dumps(sig, sort_keys=True)].append((len(text) + len(plan), text, api, family, plan, sig, extra_))
    rest = []

    def py_detail(text, api, family, plan, extra_):
        d = {"side": "py", "api": api, "text": text, "family": family, "backend_func": extra_}
        if plan:
            d["plan"] = json.loads(plan)
        return d
    for key in sorted(bysig):
        lst = sorted(bysig[key], key=lambda x: x[:5])
        L, text, api, family, plan, sig, extra_ = lst[0]
        ctx.violation(sig, py_detail(text, api, family, plan, extra_))
        rest.extend(lst[1:])
    for L, text, api, family, plan, sig, extra_ in rest:
        ctx.violation(sig, py_detail(text, api, family, plan, extra_))

    # ------------------------------------------------------------------ evidence
    nontrivial_py = sum(v for k, v in ctx.counts.items()
                        if (k.startswith("typeof:") or k.startswith("cdef:"))
                        and not k.endswith("@cparser.convert_pycparser_error"))
    for s in [seq_str(x) for x in sorted(accset)[:40:7]]:
        ctx.sample({"accepted_by_parse_c_type": s})
    for family, api, text, *_ in escapes[:200:40]:
        ctx.sample({"api": api, "text": text, "family": family})
    for fam_, api, text, *_ in [m for m in muts if family_group(m[0])][::4001][:12]:
        ctx.sample({"api": api, "text": text if len(text) < 300 else text[:150] + "[...]" + text[-100:], "family": fam_})
    cov.update({
        "evaluations": py_n + nm + c_eval + nreal,
        "distinct_nontrivial": nontrivial_py + c_acc_total,
        "rule": "Python side: inputs whose outcome is not a converted pycparser syntax error (accepted, or an error raised "
                "by cffi's own model/constant code, or an escaping exception); C side: strings accepted by parse_c_type "
                "(all inputs of an enumeration are distinct by construction).  The families added after the audit round "
                "are counted one by one in class_histogram as family:<name> (executed) and family:<name>:nontrivial "
                "(same rule): agg_gap / agg_frame (#pragma, _Pragma, _Static_assert at every token gap of the corpus and "
                "inside struct / union / enum / argument-list frames), magnitude (literals in four bases, every binary "
                "operator and growing chains around 63/64 bits, the 1024-bit bound of the constant folder and the "
                "4300-digit limit), expr_ops (every C operator over every literal spelling), spec_seq (specifier and "
                "common-type keywords), xtok (%d further tokens at the slots of the corpus), nonascii, state (cdef() on "
                "an FFI that already holds the same declarations, after a failed cdef(), with override / packed / pack); "
                "compiled_shared / compiled_pair / compiled_api count typeof() calls on a compiled FFI that is not "
                "fresh, cparse_strings:sym2 / :list the keyword alphabet and the edited standard names"
                % len(_c30x.XTOKENS),
        "exhaustive": phases >= {"c", "real", "py"},
        "phases_run": sorted(phases),
        "python_side": {"token_alphabet": len(TOKENS), "typeof_sequence_maxlen": tmax,
                        "typeof_frame_maxlen": fmax, "cdef_frame_maxlen": 3, "cdef_frame_len3_alphabet": len(FRAME_TOKENS_QUICK) if quick else len(TOKENS), "sequence_cases": py_n,
                        "corpus_cdefs": len(CORPUS), "corpus_tokens": ntok, "mutant_long_boundary_cases": nm,
                        "added_families": {k[7:]: v for k, v in sorted(ctx.counts.items())
                                           if k.startswith("family:")},
                        "extra_tokens": len(_c30x.XTOKENS)},
        "c_side": {"alphabets": c_side_cov, "strings": c_eval, "parser_invocations": c_parses,
                   "sanitizer_reports": nrep, "fatal_signals": ncrash,
                   "realised_all_maxlen": rall, "realised_accepted_maxlen": accmax, "realised": nreal,
                   "non_fresh_ffi": cov_seq,
                   "asan_backend": asan_note},
        "root_causes": [dict(sig=r["sig"], count=r["count"], min_input=r["min_input"], apis=sorted(r["apis"]),
                             families=sorted(r["families"])) for _, r in sorted(root.items())],
    })
    return ctx.finish(cov, [
        "allowed exception types are those listed in the statement",
        "ASan reports are de-duplicated per faulting instruction inside each of the 16 harness processes: counts of "
        "sanitizer findings are lower bounds, the set of faulting sites is complete for the enumerated strings",
        "the stand-alone parser context (typedefs t/tt, struct t/ta, union tt, enums t/tt, constants a/a0/aa/ax/x/xx) "
        "mirrors the out-of-line module used for realisation; every realised string checks their agreement"])


def replay_list(exe, detail):
    """One explicit string through the stand-alone harness."""
    import tempfile
    b = detail["string"]
    b = b if isinstance(b, bytes) else b.encode("latin-1")
    print("parse_c_type(%r) in the ASan/UBSan harness:" % b)
    sys.stdout.flush()
    d = tempfile.mkdtemp(prefix="c30r-", dir=build.scratch())
    write_list_file(os.path.join(d, "in"), [b])
    env = dict(os.environ)
    env.update(HARNESS_ENV)
    env.pop("LD_PRELOAD", None)
    p = subprocess.run([exe, "4", "0", "0", "1", os.path.join(d, "st"), os.path.join(d, "acc"),
                        "list:" + os.path.join(d, "in")], env=env, stdout=subprocess.PIPE, stderr=subprocess.PIPE)
    reps = parse_san_reports(p.stderr.decode("latin-1"))
    st = read_stats(os.path.join(d, "st"))
    for rp in reps:
        print("  sanitizer: %s %s in %s (%s)" % (rp["tool"], rp["error"], rp["func"], rp["line"]))
    print("  rc=%d, harness contract violations=%d" % (p.returncode, st.nviol))
    return 1 if (reps or st.nviol or p.returncode != 0) else 0


def replay(detail):
    side = detail.get("side")
    if side == "py":
        st = _py_init()
        plan = detail.get("plan") or None
        r = run_py_case(detail["api"], detail["text"], st, plan)
        if plan:
            print("on an FFI prepared by %r, options %r:" % (plan.get("pre"), plan.get("opts")))
        print("%s(%r) -> %s %s site=%s raised_in=%s" % (detail["api"], detail["text"], r[0], r[1], r[2], r[3]))
        return 1 if r[0] == "escape" else 0
    if side == "compiled":
        s = detail["string"]
        print("compiled typeof(%r):" % s)
        sys.stdout.flush()
        pid = os.fork()
        if pid == 0:
            r = realise_one(s)
            os.write(1, ("  -> %s %s\n" % (r[0], r[1])).encode())
            os._exit(7 if r[0] == "escape" else 0)
        _, status = os.waitpid(pid, 0)
        if os.WIFSIGNALED(status):
            print("  -> process killed by signal %d" % os.WTERMSIG(status))
            return 1
        return 1 if os.WEXITSTATUS(status) == 7 else 0
    if side == "compiled_seq":
        kind = detail["kind"]
        calls = detail.get("calls") or seq_calls(kind, detail["strings"])
        print("%d typeof() calls on one %s FFI, the last one %r:" % (len(calls), kind, calls[-1]))
        sys.stdout.flush()
        pid = os.fork()
        if pid == 0:
            if "strings" in detail and kind != "shared":
                seq_work((kind, detail["strings"]))       # exactly what the worker did when it died
            elif "strings" in detail:
                realise_work([(s_, None) for s_ in detail["strings"]])
            res = run_calls(kind, calls)
            import gc
            gc.collect()
            esc = [(s_, r_[1]) for s_, r_ in zip(calls, res) if r_[0] == "escape"]
            os.write(1, ("  -> %s\n" % (esc[-1:] or res[-1:],)).encode())
            os._exit(7 if res and res[-1][0] == "escape" else 0)
        _, status = os.waitpid(pid, 0)
        if os.WIFSIGNALED(status):
            print("  -> process killed by signal %d" % os.WTERMSIG(status))
            return 1
        return 1 if os.WEXITSTATUS(status) == 7 else 0
    if side == "compiled_asan":
        print("string %r under the asan backend: re-run with the thorough tier" % detail["string"])
        return 1
    if side == "cparse":
        exe = build_harness()
        seq = list(detail["seq"])
        mode = detail.get("mode", "sym")
        if mode == "list":
            return replay_list(exe, detail)
        NS = len(MODES[mode])
        print("parse_c_type(%r) in the ASan/UBSan harness:" % seq_bytes(seq, mode))
        sys.stdout.flush()
        import tempfile
        d = tempfile.mkdtemp(prefix="c30r-", dir=build.scratch())
        # the harness enumerates; restrict it to the strings sharing this one's 2-symbol prefix
        # by choosing njobs = nsym*nsym (nsym for length 1) and the job number of that prefix
        L = len(seq)
        njobs = NS * NS if L >= 2 else NS
        job = seq[0] * NS + seq[1] if L >= 2 else seq[0]
        env = dict(os.environ)
        env.update(HARNESS_ENV)
        env.pop("LD_PRELOAD", None)
        p = subprocess.run([exe, str(L), "0", str(job), str(njobs), os.path.join(d, "st"), os.path.join(d, "acc"), mode],
                           env=env, stdout=subprocess.PIPE, stderr=subprocess.PIPE)
        err = p.stderr.decode("latin-1")
        reps = parse_san_reports(err)
        st = read_stats(os.path.join(d, "st"))
        for rp in reps:
            print("  sanitizer: %s %s in %s (%s) on %r" % (rp["tool"], rp["error"], rp["func"], rp["line"],
                                                           seq_bytes(rp["seq"], mode)))
        print("  rc=%d, harness contract violations=%d (block of %d strings sharing the 2-symbol prefix)" % (
            p.returncode, st.nviol, st.evaluated))
        return 1 if (reps or st.nviol or p.returncode != 0) else 0
    print("unknown replay detail")
    return 0
