"""C08 -- C type names round-trip through getctype and typeof.

E1: every distinct ctype denoted by a derivation of depth <= d of the C07 grammar
x the declarator-suffix alphabet, in the in-line FFI and in the FFI of an imported
out-of-line module.  Oracles: re-parse identity against a type built independently
with _cffi_backend.new_pointer_type / new_array_type / new_function_type; gcc
acceptance and sizeof of the emitted declarations.

Further families (helpers in _c08x.py): the string form of getctype, model.get_c_name,
an extended suffix alphabet read by a declarator interpreter, and side families of
ctypes outside the C07 grammar (unnamed aggregates, all primitive names, large array
lengths, function types with many parameters).
"""
import collections
import gc
import json
import os
import shutil
import subprocess

from .. import build, pool
from ..build import InfraError
from . import _typegrammar as G
from . import _c08x as X

ID = "C08"
LEVEL = "exploration"
META = dict(
    engine="E1-enum", level="exploration",
    technique="exhaustive enumeration of every ctype of the C07 grammar x a declarator-suffix alphabet; re-parse "
              "identity against independently constructed ctypes, gcc for the emitted declarations",
    text="For every distinct ctype that a derivation of depth <= 3 (thorough 4) of the C07 grammar denotes, in the "
         "in-line FFI and in an out-of-line module's FFI, and every suffix in {'', '*', '[3]', '[]', '(*)(int)', "
         "'*[2]', '(*)[2]', 'v', '*v', 'v[2]'}: typeof(getctype(T)) is T and typeof(getctype(T, x)) is the pointer / "
         "array / function-pointer type that x denotes, the expected object being built from T with the backend's "
         "new_pointer_type / new_array_type / new_function_type and never from a name.  For every non-function T "
         "with a size, `getctype(T, 'v');` is compiled by gcc next to the context's declarations and sizeof(v) is "
         "compared with ffi.sizeof(T).  Added families, all enumerated completely: (1) every getctype call is made in "
         "both forms, getctype(T, x) and getctype(<string denoting T>, x), which must give the same text; (2) in the "
         "in-line FFI the third implementation of the placement rule, model.get_c_name(x) of the parsed type, must "
         "give the same text or a text that re-parses to the same expected ctype; (3) an extended alphabet of %d more "
         "declarator texts (white space round and inside the text, `**`, `*const`, `* volatile*`, named forms "
         "`(*v)(int)`, `(*v[2])(int)`, `v[2][3]`, parameter lists `(void)`, `(int, ...)`, `(int, char *)`, nested "
         "`(*(*)(int))[2]`, `(*(*)[2])[3]`), whose expected ctype comes from a declarator interpreter (pointer / "
         "array / function applied inside-out with the backend's constructors; cross-checked against the table of "
         "the ten basic suffixes on every type), applied to the first %d ctypes of every (FFI, kind-of-type) class in "
         "the quick tier and to every ctype of derivation depth <= 3 in the thorough tier; (4) side families under "
         "all %d suffixes in a context that adds unnamed aggregates: ctypes whose struct/union/enum has no tag and "
         "no typedef name of its own (`typedef struct {..} *p;`, `typedef struct {..} *p, n;`, types of fields "
         "declared with an anonymous aggregate) and named controls, each also under pointer / array / function "
         "wrappers; every key of ALL_PRIMITIVE_TYPES (gcc: with <stdint.h>, <uchar.h>, ... and the two "
         "_cffi_*_complex_t typedefs of cffi's own header); array lengths 255 .. 2**63-1 in five positions of a "
         "name (gcc: _Static_assert on sizeof, nothing executed); function pointer types with 3..8 parameters, "
         "nested parameter lists, aggregate and array-written parameters." % (
             len(X.EXT_SUFFIXES), 6, len(X.ALL_SUFFIXES)),
    note="suffixes whose denoted type does not exist (array of void, function returning an array, ...) promise "
         "nothing and are counted, not compared; gcc 12 (-w, GNU C: zero-length arrays allowed) is the authority "
         "for the declarations; ctype identity relies on the backend's unique-type cache, which is what the "
         "statement's `is T` refers to; qualifiers in a suffix (`*const`) denote the unqualified cffi ctype (cffi "
         "ctypes carry no qualifiers); a name inside redundant grouping parentheses (`(v)`) is not a type string "
         "(C reads `int(v)` in a type name as a function type) and is not in the alphabet")

SUFFIXES = X.BASE_SUFFIXES
EXT_PER_CLASS = 6           # quick tier: the extended suffixes go to the first N ctypes of every (FFI, tkind) class
BLOCK1 = 1500
BLOCK2 = 150
BLOCK3 = 32

_PAIR = None


def _pair():
    global _PAIR
    if _PAIR is None or _PAIR[0] != os.getpid():
        d = os.path.join(_workdir(), "w%d" % os.getpid())
        os.makedirs(d, exist_ok=True)
        _PAIR = (os.getpid(), G.make_pair("decls", d), d)
    return _PAIR[1]


def _ffis(pair):
    return (("inline", pair.inline), ("compiled", pair.compiled))


def expected_type(T, x):
    """The type that declarator suffix x denotes when applied to T, built without any name.
    Raises when no such type exists."""
    import _cffi_backend as B
    P = B.new_pointer_type

    def A(item, n):
        return B.new_array_type(P(item), n)
    if x in ("", "v"):
        return T
    if x in ("*", "*v"):
        return P(T)
    if x == "[3]":
        return A(T, 3)
    if x == "[]":
        return A(T, None)
    if x == "v[2]":
        return A(T, 2)
    if x == "(*)(int)":
        return B.new_function_type((B.new_primitive_type("int"),), T, False)
    if x == "*[2]":
        return A(P(T), 2)
    if x == "(*)[2]":
        return P(A(T, 2))
    raise ValueError(x)


def key_of(T):
    return json.dumps(G.describe(T))


def collect(strings):
    """Phase 1: {ffi name: {type key: first string denoting it}} for a block of strings."""
    pair = _pair()
    out = {"inline": {}, "compiled": {}}
    nacc = 0
    for s in strings:
        for name, ffi in _ffis(pair):
            try:
                T = ffi.typeof(s)
            except Exception:
                continue
            nacc += 1
            out[name].setdefault(key_of(T), s)
    return nacc, out


def has_void_argument(desc):
    """A function type one of whose parameters is `void` occurs in the (described) type."""
    if desc[0] == "pointer":
        return has_void_argument(desc[1])
    if desc[0] == "array":
        return has_void_argument(desc[2])
    if desc[0] == "function":
        return (any(a == ["void", "void"] or has_void_argument(a) for a in desc[1])
                or has_void_argument(desc[2]))
    return False


def tkind(T):
    k = T.kind
    if k in ("pointer", "array"):
        return "%s_of_%s" % (k, T.item.kind)
    return k


def want_type(T, x):
    """Expected ctype of suffix x on T, or None when no such type exists.  The ten basic suffixes come from the
    table expected_type(); the interpreter X.denote() must agree with the table on them (checked on every type, a
    disagreement is a harness bug) and alone decides the extended ones."""
    try:
        d = X.denote(T, x)
    except X.NoSuchType:
        d = None
    if x in SUFFIXES:
        try:
            w = expected_type(T, x)
        except Exception:
            w = None
        if w is not d:
            raise InfraError("declarator interpreter and suffix table disagree on %r %r: %r / %r" % (T, x, d, w))
    return d


def _first_line(e):
    return "%s: %s" % (type(e).__name__, (str(e).splitlines() or [""])[0])


def desc_tkind(desc):
    """tkind() from the structural description."""
    if desc[0] == "pointer":
        return "pointer_of_%s" % desc[1][0]
    if desc[0] == "array":
        return "array_of_%s" % desc[2][0]
    return desc[0]


def check_type(ffi, T, s=None, suffixes=SUFFIXES, model=None):
    """s: a string that denotes T in ffi (the string form of getctype is then called too); model: the
    cffi.model type that the in-line parser made of s (its get_c_name is then checked too).
    -> (n comparisons, counts, [(sig kind, suffix, info)], gcc decl or None, sizeof or None)"""
    bad = []
    counts = collections.Counter()
    n = 0
    for x in suffixes:
        ext = "" if x in SUFFIXES else "ext:"
        try:
            name = ffi.getctype(T) if x == "" else ffi.getctype(T, x)
        except Exception as e:
            bad.append(("getctype_raises", x, {"error": "%s: %s" % (type(e).__name__, e)}))
            continue
        if s is not None:
            n += 1
            try:
                name2 = ffi.getctype(s) if x == "" else ffi.getctype(s, x)
            except Exception as e:
                bad.append(("string_form_raises", x, {"string": s, "error": _first_line(e)}))
            else:
                if name2 != name:
                    bad.append(("string_form_differs", x, {"string": s, "from_ctype": name, "from_string": name2}))
                else:
                    counts["string_form_same_text"] += 1
        want = want_type(T, x)
        if want is None:
            counts["no_such_type:%s%s" % (ext, x)] += 1
            continue
        n += 1
        try:
            got = ffi.typeof(name)
        except Exception as e:
            bad.append(("reparse_rejects", x, {"name": name, "error": _first_line(e), "expected": G.describe(want)}))
        else:
            if got is not want:
                bad.append(("reparse_differs", x, {"name": name, "got": G.describe(got),
                                                   "expected": G.describe(want),
                                                   "got_leaf": leaf_of(got), "expected_leaf": leaf_of(want)}))
            else:
                counts["roundtrip_ok:%s%s" % (ext, x)] += 1
        if model is not None:
            n += 1
            try:
                mname = model.get_c_name(x)
            except Exception as e:
                # get_c_name refuses `$` names on purpose ("cannot generate ... in a C file"): it emits no text,
                # and the statement is about the text that is emitted
                counts["model_name:refuses:%s" % type(e).__name__] += 1
                n -= 1
                continue
            if mname == name:
                counts["model_name:same_text"] += 1
                continue
            try:
                got = ffi.typeof(mname)
            except Exception as e:
                bad.append(("model_name_rejects", x, {"name": mname, "getctype": name, "error": _first_line(e),
                                                      "expected": G.describe(want)}))
                continue
            if got is not want:
                bad.append(("model_name_differs", x, {"name": mname, "getctype": name, "got": G.describe(got),
                                                      "expected": G.describe(want)}))
            else:
                counts["model_name:other_text_same_type"] += 1
    decl = size = None
    if T.kind != "function":
        try:
            size = ffi.sizeof(T)
        except Exception:
            counts["gcc_clause_skipped:no_size:%s" % T.kind] += 1
        else:
            try:
                decl = ffi.getctype(T, "v")
            except Exception:
                decl = None          # already reported above
    else:
        counts["gcc_clause_skipped:function"] += 1
    return n, counts, bad, decl, size


def leaf_of(ct):
    """Tells two struct/union ctypes of the same name apart in the report: the innermost named type and its
    field names (None: opaque)."""
    for _ in range(64):
        k = ct.kind
        if k in ("pointer", "array"):
            ct = ct.item
        elif k == "function":
            ct = ct.result
        else:
            break
    if ct.kind in ("struct", "union"):
        return [ct.cname, None if ct.fields is None else [f for f, _ in ct.fields]]
    return [ct.cname]


def model_of(ffi, s):
    """What the in-line parser makes of s, the way FFI._typeof_locked does."""
    tp = ffi._parser.parse_type(s)
    if tp.is_raw_function:
        tp = tp.as_function_pointer()
    return tp


C_HEAD = "#include <stdio.h>\n#include <stddef.h>\n" + G.DECLS + "\n"


def _gcc(src, exe):
    with open(exe + ".c", "w") as f:
        f.write(src)
    p = subprocess.run(["gcc", "-w", "-O0", exe + ".c", "-o", exe], stdout=subprocess.PIPE,
                       stderr=subprocess.STDOUT, text=True)
    return p.returncode == 0, p.stdout


def gcc_sizes(decls, workdir, tag):
    """decls: [text of `getctype(T, 'v')`].  -> [size or ('rejected', message)] per declaration.
    All declarations go into one file, one per line; the declarations on the lines for which gcc
    reports an error are recorded as rejected and taken out, and the rest is compiled again."""
    import re
    exe = os.path.join(workdir, "g%s" % tag)
    res = [None] * len(decls)
    live = list(range(len(decls)))
    head = C_HEAD + "int main(void) {\n"
    nhead = head.count("\n")
    for _round in range(8):
        src = head + "".join('{ %s; printf("%d %%zu\\n", sizeof(v)); }\n' % (decls[i], i) for i in live)
        src += "return 0;\n}\n"
        ok, msg = _gcc(src, exe)
        if ok:
            break
        hit = {}
        for line in msg.splitlines():
            m = re.match(r".*?\.c:(\d+):\d+: error: (.*)", line)
            if m:
                k = int(m.group(1)) - nhead - 1
                if 0 <= k < len(live):
                    hit.setdefault(live[k], m.group(2)[:200])
        if not hit:
            raise InfraError("gcc failed without naming a declaration line:\n" + msg[-1500:])
        for i, why in hit.items():
            res[i] = ("rejected", why)
        live = [i for i in live if i not in hit]
        if not live:
            return res
    else:
        raise InfraError("gcc still fails after removing the rejected declarations")
    def run_exe():
        p = subprocess.run([exe], stdout=subprocess.PIPE, text=True)
        if p.returncode != 0:
            raise InfraError("compiled sizeof program failed")
        for line in p.stdout.splitlines():
            i, sz = line.split()
            res[int(i)] = int(sz)
    run_exe()
    # an error can spill over to the following lines: a few rejected declarations are each confirmed alone
    rejected = [i for i, r in enumerate(res) if isinstance(r, tuple)]
    if len(rejected) <= 12:
        for i in rejected:
            ok, msg = _gcc(head + '{ %s; printf("%d %%zu\\n", sizeof(v)); }\nreturn 0;\n}\n' % (decls[i], i), exe)
            if ok:
                run_exe()
    if any(r is None for r in res):
        raise InfraError("sizeof program printed too little")
    return res


def sig_of(ffiname, desc, tk, kind, x, family=None):
    """The structured classification of a mismatch (one signature per root cause)."""
    if has_void_argument(desc):
        # one root cause, whatever the suffix: new_function_type() let a `void` parameter through, and the
        # name of that ctype reads as the function without parameters
        return {"kind": kind, "ffi": ffiname, "cause": "function_ctype_with_void_parameter"}
    if has_unnamed_aggregate(desc):
        # one root cause, whatever the suffix and the wrapper: the name of the ctype contains `struct $N` /
        # `union $N` / `enum $N`, which is neither C nor (in-line) a reference to the declared type
        return {"kind": kind, "ffi": ffiname, "unnamed_aggregate": True}
    sig = {"kind": kind, "suffix": x, "ffi": ffiname, "type": tk}
    if family is not None:
        sig["family"] = family
    return sig


def has_unnamed_aggregate(desc):
    """A struct/union/enum whose cffi name is `$N` occurs in the (described) type."""
    if desc[0] == "pointer":
        return has_unnamed_aggregate(desc[1])
    if desc[0] == "array":
        return has_unnamed_aggregate(desc[2])
    if desc[0] == "function":
        return any(has_unnamed_aggregate(a) for a in desc[1]) or has_unnamed_aggregate(desc[2])
    return desc[0] in ("struct", "union", "enum") and "$" in desc[1]


def verify(block):
    """Phase 2: block = [(ffi name, key, string, extended suffixes too?)]."""
    pair = _pair()
    ffis = dict(_ffis(pair))
    counts = collections.Counter()
    bad = []
    n = 0
    gcc_items = []
    for name, key, s, ext in block:
        ffi = ffis[name]
        T = ffi.typeof(s)
        if key_of(T) != key:
            raise InfraError("type of %r changed between the two phases" % (s,))
        model = model_of(ffi, s) if name == "inline" else None
        k, cnt, b, decl, size = check_type(ffi, T, s, X.ALL_SUFFIXES if ext else SUFFIXES, model)
        n += k
        counts.update(cnt)
        counts["types:%s:%s" % (name, tkind(T))] += 1
        if ext:
            counts["types_with_extended_suffixes:%s:%s" % (name, tkind(T))] += 1
        for kind, x, info in b:
            bad.append((name, key, s, tkind(T), kind, x, info))
        if decl is not None:
            gcc_items.append((name, key, s, tkind(T), decl, size))
    if gcc_items:
        sizes = gcc_sizes([it[4] for it in gcc_items], _PAIR[2], "%d" % os.getpid())
        for (name, key, s, tk, decl, size), r in zip(gcc_items, sizes):
            n += 1
            if isinstance(r, tuple):
                bad.append((name, key, s, tk, "gcc_rejects", "v", {"declaration": decl + ";", "gcc": r[1]}))
            elif r != size:
                bad.append((name, key, s, tk, "sizeof_differs", "v", {"declaration": decl + ";", "gcc_sizeof": r,
                                                                      "ffi_sizeof": size}))
            else:
                counts["gcc_sizeof_ok:%s" % tk] += 1
    return n, dict(counts), bad


# ---------------------------------------------------------------------------------------
# side families (context X.XDECLS)

_XPAIR = None


def _xpair():
    global _XPAIR
    if _XPAIR is None or _XPAIR[0] != os.getpid():
        d = os.path.join(_workdir(), "x%d" % os.getpid())
        os.makedirs(d, exist_ok=True)
        _XPAIR = (os.getpid(), X.make_pair(d), d)
    return _XPAIR[1]


def side_check(pair, directory, tag, block):
    """block = [(family, ffi name, spec)] -> (n, counts, [(family, ffi, spec, desc, tkind, kind, suffix, info)])"""
    ffis = dict(_ffis(pair))
    counts = collections.Counter()
    bad = []
    n = 0
    gcc_items = []
    for family, name, spec in block:
        ffi = ffis[name]
        try:
            T = X.resolve(ffi, spec)
        except (TypeError, ValueError, OverflowError) as e:
            # the backend has no such ctype (array length x item size overflows, ...)
            counts["side:%s:%s:no_such_ctype" % (family, name)] += 1
            continue
        s = spec[1] if spec[0] == "typeof" else None
        model = model_of(ffi, s) if (name == "inline" and s is not None) else None
        k, cnt, b, decl, size = check_type(ffi, T, s, X.ALL_SUFFIXES, model)
        n += k
        counts.update(cnt)
        desc = G.describe(T)
        tk = tkind(T)
        cls = ":unnamed" if has_unnamed_aggregate(desc) else (":named_control" if family == "unnamed" else "")
        counts["side:%s%s:%s:%s" % (family, cls, name, tk)] += 1
        for kind, x, info in b:
            bad.append((family, name, spec, desc, tk, kind, x, info))
        if decl is not None:
            gcc_items.append((family, name, spec, desc, tk, decl, size))
    if gcc_items:
        res = X.gcc_static_sizes([(it[5], it[6]) for it in gcc_items], directory, tag)
        for (family, name, spec, desc, tk, decl, size), r in zip(gcc_items, res):
            n += 1
            if r == "ok":
                counts["side:gcc_sizeof_ok:%s" % family] += 1
            else:
                kind = "gcc_rejects" if r[0] == "rejected" else "sizeof_differs"
                bad.append((family, name, spec, desc, tk, kind, "v",
                            {"declaration": decl + ";", "gcc": r[1], "ffi_sizeof": size}))
    return n, dict(counts), bad


def side_verify(block):
    pair = _xpair()
    return side_check(pair, _XPAIR[2], "%d" % os.getpid(), block)


def phase2(item):
    return side_verify(item[1]) if item[0] == "side" else verify(item[1])


def _workdir():
    d = os.path.join(build.scratch_shared(), "c08")
    os.makedirs(d, exist_ok=True)
    return d


def run(ctx):
    d = _workdir()          # created before the workers are forked; they inherit VERIF_SHARED_SCRATCH
    try:
        return _run(ctx)
    finally:
        shutil.rmtree(d, ignore_errors=True)


def _run(ctx):
    depth = 3 if ctx.quick else 4
    if "depth" in getattr(ctx, "opts", {}):
        depth = int(ctx.opts["depth"])
    g = G.Grammar()
    strings = [G.spaced(t) for c, t in g.typenames(depth)]
    order = {s: i for i, s in enumerate(strings)}
    ctx.log("depth %d: %d derivations" % (depth, len(strings)))
    gc.collect()
    gc.freeze()
    types = {"inline": {}, "compiled": {}}
    accepted = 0
    for block, r in pool.pmap(collect, [[b] for b in pool.chunks(strings, BLOCK1)]):
        if isinstance(r, (pool.WorkerError, pool.Crash)):
            raise InfraError("worker failed in phase 1: %r" % (r,))
        nacc, out = r
        accepted += nacc
        for name in out:
            d = types[name]
            for key, s in out[name].items():
                if key not in d or order[s] < order[d[key]]:
                    d[key] = s
    cost_of = {G.spaced(t): c for c, t in g.typenames(depth)}
    items = []
    next_ext = collections.Counter()
    for name in ("inline", "compiled"):
        for key in sorted(types[name], key=lambda k: order[types[name][k]]):
            s = types[name][key]
            if ctx.quick:
                cls = (name, desc_tkind(json.loads(key)))
                next_ext[cls] += 1
                ext = next_ext[cls] <= EXT_PER_CLASS
            else:
                ext = cost_of[s] <= 3
            items.append((name, key, s, ext))
    distinct = len(set(types["inline"]) | set(types["compiled"]))
    ctx.log("%d accepted parses, %d distinct ctypes in-line, %d compiled, %d distinct overall; %d (FFI, ctype) with "
            "the extended suffixes" % (accepted, len(types["inline"]), len(types["compiled"]), distinct,
                                       sum(1 for it in items if it[3])))
    for i in range(0, len(items), max(1, len(items) // 40)):
        ctx.sample({"ffi": items[i][0], "type": items[i][2],
                    "suffixes": X.ALL_SUFFIXES if items[i][3] else SUFFIXES})

    counts = collections.Counter()
    evaluated = 0
    bad = []
    # the (FFI, ctype) pairs with the extended alphabet cost 4x: spread them over the blocks
    items.sort(key=lambda it: not it[3])
    nblocks = max(1, (len(items) + BLOCK2 - 1) // BLOCK2)
    blocks = [items[i::nblocks] for i in range(nblocks)]
    # side families: in the same pool run as the grammar types (forking workers is the expensive part here)
    side = [(fam, name, spec) for name in ("inline", "compiled") for fam, spec in X.families(ctx.quick)]
    for i in range(0, len(side), max(1, len(side) // 12)):
        ctx.sample({"family": side[i][0], "ffi": side[i][1], "type": side[i][2], "suffixes": X.ALL_SUFFIXES})
    nside = max(1, (len(side) + BLOCK3 - 1) // BLOCK3)
    work = [("side", side[i::nside]) for i in range(nside)] + [("grammar", b) for b in blocks]
    side_bad = []
    side_eval = 0
    for item, r in pool.pmap(phase2, [[w] for w in work]):
        if isinstance(r, pool.WorkerError):
            raise InfraError("worker failed: %s" % r.tb)
        if isinstance(r, pool.Crash):
            raise InfraError("worker died (%s) in a %s block starting with %r" % (r.describe(), item[0], item[1][0]))
        n, cnt, b = r
        counts.update(cnt)
        if item[0] == "side":
            side_eval += n
            side_bad.extend(b)
        else:
            evaluated += n
            bad.extend(b)
    ctx.log("grammar types: %d evaluations; side families: %d (FFI, ctype) cases, %d evaluations" % (
        evaluated, len(side), side_eval))
    evaluated += side_eval

    for k, v in counts.items():
        ctx.count(k, v)
    groups = collections.defaultdict(list)
    for name, key, s, tk, kind, x, info in bad:
        sig = sig_of(name, json.loads(key), tk, kind, x)
        groups[tuple(sorted(sig.items()))].append(
            ((0, order[s]), s, {"ffi": name, "type": s, "suffix": x, "kind": kind, "info": info}))
    side_order = {json.dumps(spec): i for i, (fam, name, spec) in enumerate(side)}
    for fam, name, spec, desc, tk, kind, x, info in side_bad:
        sig = sig_of(name, desc, tk, kind, x, fam)
        groups[tuple(sorted(sig.items()))].append(
            ((1, side_order[json.dumps(spec)]), json.dumps(spec) + x,
             {"family": fam, "ffi": name, "spec": spec, "suffix": x, "kind": kind, "info": info}))
    first, rest = [], []
    for k in sorted(groups, key=lambda k: json.dumps(k)):
        lst = sorted(groups[k], key=lambda t: t[:2])
        first.append((k, lst[0]))
        rest.extend((k, t) for t in lst[1:])
    for k, (_, _, detail) in first + rest:
        ctx.violation(dict(k), detail)
    nontrivial = sum(v for k, v in counts.items() if k.startswith(("types:", "side:")) and not k.startswith("side:gcc")
                     and not k.endswith((":primitive", ":void", ":no_such_ctype")))
    cov = {
        "evaluations": evaluated,
        "distinct_nontrivial": nontrivial,
        "rule": "an evaluation is one (FFI, ctype, suffix) re-parse comparison or one (FFI, ctype) gcc sizeof "
                "comparison; ctypes = all distinct ctypes (by structure) denoted in the context 'decls' by the "
                "derivations of depth <= %d of grammar G, per FFI; non-trivial = (FFI, ctype) pairs whose ctype is "
                "not a bare primitive or void (pointer, array, function pointer, struct, union, enum).  Every getctype "
                "call is also made with the string form (one more evaluation: same text), and in the in-line FFI "
                "model.get_c_name of the parsed type is evaluated next to it (one more evaluation: same text, or "
                "re-parses to the expected ctype).  The %d extended suffixes (expected ctype from the declarator "
                "interpreter) are applied to %s.  Side families (context = the same declarations plus unnamed "
                "aggregates), each ctype under all %d suffixes in both FFIs with the gcc clause as a _Static_assert: "
                "%d unnamed-aggregate / named-control ctypes (%d bases x %d wrappers), the %d keys of "
                "ALL_PRIMITIVE_TYPES, %d array lengths x %d positions, %d function types with many / nested / "
                "aggregate parameters" % (
                    depth, len(X.EXT_SUFFIXES),
                    ("the first %d ctypes of every (FFI, kind) class" % EXT_PER_CLASS) if ctx.quick
                    else "every ctype of derivation depth <= 3",
                    len(X.ALL_SUFFIXES), len(X.UNNAMED_BASES) * len(X._wrapped(["typeof", "int"])),
                    len(X.UNNAMED_BASES), len(X._wrapped(["typeof", "int"])),
                    sum(1 for f, _ in X.families(ctx.quick) if f == "prim"),
                    len(X.BIG_LENGTHS), len(X.BIG_FORMS), len(X.FNARGS)),
        "exhaustive": True,
        "bound": {"derivation_depth": depth, "suffixes": SUFFIXES, "extended_suffixes": X.EXT_SUFFIXES,
                  "extended_on": ("first %d per (FFI, kind)" % EXT_PER_CLASS) if ctx.quick else "depth <= 3"},
        "side_family_cases": len(side),
        "side_family_evaluations": side_eval,
        "derivations": len(strings),
        "distinct_ctypes": distinct,
        "ctypes_inline": len(types["inline"]),
        "ctypes_compiled": len(types["compiled"]),
    }
    return ctx.finish(cov, [
        "gcc 12 with -w (GNU C) decides whether a declaration is acceptable and its sizeof",
        "the expected ctype of every suffix is built with _cffi_backend.new_pointer_type/new_array_type/"
        "new_function_type; identity of equal types rests on the backend's unique-type cache",
        "the declarator interpreter (vlib/props/_c08x.py) reads the extended suffixes as C does; it is compared with "
        "the hand-written table on the ten basic suffixes for every ctype",
        "_cffi_float_complex_t / _cffi_double_complex_t are declared for gcc as cffi's own header declares them",
    ])


def replay(detail):
    d = os.path.join(build.scratch_shared(), "replay%d" % os.getpid())
    os.makedirs(d, exist_ok=True)
    try:
        x = detail["suffix"]
        side = "spec" in detail
        if side:
            pair = X.make_pair(d)
            ffi = dict(_ffis(pair))[detail["ffi"]]
            spec = detail["spec"]
            T = X.resolve(ffi, spec)
            s = spec[1] if spec[0] == "typeof" else None
            print("context  : vlib/props/_c08x.py XDECLS (family %r)" % (detail.get("family"),))
            print("ffi      : %s" % detail["ffi"])
            print("T        : %r = %r" % (spec, T))
        else:
            pair = G.make_pair("decls", d)
            ffi = dict(_ffis(pair))[detail["ffi"]]
            s = detail["type"]
            T = ffi.typeof(s)
            print("ffi      : %s" % detail["ffi"])
            print("T        : typeof(%r) = %r" % (s, T))
        model = model_of(ffi, s) if (detail["ffi"] == "inline" and s is not None) else None
        n, counts, bad, decl, size = check_type(ffi, T, s, X.ALL_SUFFIXES, model)
        hit = [b for b in bad if b[1] == x and b[0] == detail["kind"]]
        for b in bad:
            print("MISMATCH : suffix %r %s %s" % (b[1], b[0], b[2]))
        if detail["kind"] in ("gcc_rejects", "sizeof_differs") and decl is not None:
            if side:
                r = X.gcc_static_sizes([(decl, size)], d, "r")[0]
                print("gcc      : `%s; _Static_assert(sizeof(v) == %d)` -> %r" % (decl, size, r))
                if r != "ok":
                    hit.append(r)
            else:
                r = gcc_sizes([decl], d, "r")[0]
                print("gcc      : `%s;` -> %r ; ffi.sizeof(T) = %r" % (decl, r, size))
                if isinstance(r, tuple) or r != size:
                    hit.append(r)
        if not hit:
            print("no mismatch for suffix %r" % (x,))
        return 1 if hit else 0
    finally:
        shutil.rmtree(d, ignore_errors=True)
