"""C08 -- C type names round-trip through getctype and typeof.

E1: every distinct ctype denoted by a derivation of depth <= d of the C07 grammar
x the declarator-suffix alphabet, in the in-line FFI and in the FFI of an imported
out-of-line module.  Oracles: re-parse identity against a type built independently
with _cffi_backend.new_pointer_type / new_array_type / new_function_type; gcc
acceptance and sizeof of the emitted declarations.
"""
import collections
import gc
import json
import os
import shutil
import subprocess

from .. import build, pool
from ..build import InfraError
from . import _typegrammar as G

ID = "C08"
LEVEL = "exploration"
META = dict(
    engine="E1-enum", level="exploration",
    technique="exhaustive enumeration of every ctype of the C07 grammar x a declarator-suffix alphabet; re-parse "
              "identity against independently constructed ctypes, gcc for the emitted declarations",
    text="For every distinct ctype that a derivation of depth <= 3 (thorough 4) of the C07 grammar denotes, in the "
         "in-line FFI and in an out-of-line module's FFI, and every suffix in {'', '*', '[3]', '[]', '(*)(int)', "
         "'*[2]', '(*)[2]', 'v', '*v', 'v[2]'}: typeof(getctype(T)) is T and typeof(getctype(T, x)) is the pointer / "
         "array / function-pointer type that x denotes, the expected object being built from T with the backend's "
         "new_pointer_type / new_array_type / new_function_type and never from a name.  For every non-function T "
         "with a size, `getctype(T, 'v');` is compiled by gcc next to the context's declarations and sizeof(v) is "
         "compared with ffi.sizeof(T).",
    note="suffixes whose denoted type does not exist (array of void, function returning an array, ...) promise "
         "nothing and are counted, not compared; gcc 12 (-w, GNU C: zero-length arrays allowed) is the authority "
         "for the declarations; ctype identity relies on the backend's unique-type cache, which is what the "
         "statement's `is T` refers to")

SUFFIXES = ["", "*", "[3]", "[]", "(*)(int)", "*[2]", "(*)[2]", "v", "*v", "v[2]"]
BLOCK1 = 1500
BLOCK2 = 150

_PAIR = None


def _pair():
    global _PAIR
    if _PAIR is None or _PAIR[0] != os.getpid():
        d = os.path.join(_workdir(), "w%d" % os.getpid())
        os.makedirs(d, exist_ok=True)
        _PAIR = (os.getpid(), G.make_pair("decls", d), d)
    return _PAIR[1]


def _ffis(pair):
    return (("inline", pair.inline), ("compiled", pair.compiled))


def expected_type(T, x):
    """The type that declarator suffix x denotes when applied to T, built without any name.
    Raises when no such type exists."""
    import _cffi_backend as B
    P = B.new_pointer_type

    def A(item, n):
        return B.new_array_type(P(item), n)
    if x in ("", "v"):
        return T
    if x in ("*", "*v"):
        return P(T)
    if x == "[3]":
        return A(T, 3)
    if x == "[]":
        return A(T, None)
    if x == "v[2]":
        return A(T, 2)
    if x == "(*)(int)":
        return B.new_function_type((B.new_primitive_type("int"),), T, False)
    if x == "*[2]":
        return A(P(T), 2)
    if x == "(*)[2]":
        return P(A(T, 2))
    raise ValueError(x)


def key_of(T):
    return json.dumps(G.describe(T))


def collect(strings):
    """Phase 1: {ffi name: {type key: first string denoting it}} for a block of strings."""
    pair = _pair()
    out = {"inline": {}, "compiled": {}}
    nacc = 0
    for s in strings:
        for name, ffi in _ffis(pair):
            try:
                T = ffi.typeof(s)
            except Exception:
                continue
            nacc += 1
            out[name].setdefault(key_of(T), s)
    return nacc, out


def has_void_argument(desc):
    """A function type one of whose parameters is `void` occurs in the (described) type."""
    if desc[0] == "pointer":
        return has_void_argument(desc[1])
    if desc[0] == "array":
        return has_void_argument(desc[2])
    if desc[0] == "function":
        return (any(a == ["void", "void"] or has_void_argument(a) for a in desc[1])
                or has_void_argument(desc[2]))
    return False


def tkind(T):
    k = T.kind
    if k in ("pointer", "array"):
        return "%s_of_%s" % (k, T.item.kind)
    return k


def check_type(ffi, T):
    """-> (n comparisons, counts, [(sig kind, suffix, info)], gcc decl or None, sizeof or None)"""
    bad = []
    counts = collections.Counter()
    n = 0
    for x in SUFFIXES:
        try:
            name = ffi.getctype(T) if x == "" else ffi.getctype(T, x)
        except Exception as e:
            bad.append(("getctype_raises", x, {"error": "%s: %s" % (type(e).__name__, e)}))
            continue
        try:
            want = expected_type(T, x)
        except Exception:
            counts["no_such_type:%s" % x] += 1
            continue
        n += 1
        try:
            got = ffi.typeof(name)
        except Exception as e:
            bad.append(("reparse_rejects", x, {"name": name, "error": "%s: %s" % (
                type(e).__name__, (str(e).splitlines() or [""])[0]), "expected": G.describe(want)}))
            continue
        if got is not want:
            bad.append(("reparse_differs", x, {"name": name, "got": G.describe(got), "expected": G.describe(want)}))
        else:
            counts["roundtrip_ok:%s" % x] += 1
    decl = size = None
    if T.kind != "function":
        try:
            size = ffi.sizeof(T)
        except Exception:
            counts["gcc_clause_skipped:no_size:%s" % T.kind] += 1
        else:
            try:
                decl = ffi.getctype(T, "v")
            except Exception:
                decl = None          # already reported above
    else:
        counts["gcc_clause_skipped:function"] += 1
    return n, counts, bad, decl, size


C_HEAD = "#include <stdio.h>\n#include <stddef.h>\n" + G.DECLS + "\n"


def _gcc(src, exe):
    with open(exe + ".c", "w") as f:
        f.write(src)
    p = subprocess.run(["gcc", "-w", "-O0", exe + ".c", "-o", exe], stdout=subprocess.PIPE,
                       stderr=subprocess.STDOUT, text=True)
    return p.returncode == 0, p.stdout


def gcc_sizes(decls, workdir, tag):
    """decls: [text of `getctype(T, 'v')`].  -> [size or ('rejected', message)] per declaration.
    All declarations go into one file, one per line; the declarations on the lines for which gcc
    reports an error are recorded as rejected and taken out, and the rest is compiled again."""
    import re
    exe = os.path.join(workdir, "g%s" % tag)
    res = [None] * len(decls)
    live = list(range(len(decls)))
    head = C_HEAD + "int main(void) {\n"
    nhead = head.count("\n")
    for _round in range(8):
        src = head + "".join('{ %s; printf("%d %%zu\\n", sizeof(v)); }\n' % (decls[i], i) for i in live)
        src += "return 0;\n}\n"
        ok, msg = _gcc(src, exe)
        if ok:
            break
        hit = {}
        for line in msg.splitlines():
            m = re.match(r".*?\.c:(\d+):\d+: error: (.*)", line)
            if m:
                k = int(m.group(1)) - nhead - 1
                if 0 <= k < len(live):
                    hit.setdefault(live[k], m.group(2)[:200])
        if not hit:
            raise InfraError("gcc failed without naming a declaration line:\n" + msg[-1500:])
        for i, why in hit.items():
            res[i] = ("rejected", why)
        live = [i for i in live if i not in hit]
        if not live:
            return res
    else:
        raise InfraError("gcc still fails after removing the rejected declarations")
    def run_exe():
        p = subprocess.run([exe], stdout=subprocess.PIPE, text=True)
        if p.returncode != 0:
            raise InfraError("compiled sizeof program failed")
        for line in p.stdout.splitlines():
            i, sz = line.split()
            res[int(i)] = int(sz)
    run_exe()
    # an error can spill over to the following lines: a few rejected declarations are each confirmed alone
    rejected = [i for i, r in enumerate(res) if isinstance(r, tuple)]
    if len(rejected) <= 12:
        for i in rejected:
            ok, msg = _gcc(head + '{ %s; printf("%d %%zu\\n", sizeof(v)); }\nreturn 0;\n}\n' % (decls[i], i), exe)
            if ok:
                run_exe()
    if any(r is None for r in res):
        raise InfraError("sizeof program printed too little")
    return res


def verify(block):
    """Phase 2: block = [(ffi name, key, string)]."""
    pair = _pair()
    ffis = dict(_ffis(pair))
    counts = collections.Counter()
    bad = []
    n = 0
    gcc_items = []
    for name, key, s in block:
        ffi = ffis[name]
        T = ffi.typeof(s)
        if key_of(T) != key:
            raise InfraError("type of %r changed between the two phases" % (s,))
        k, cnt, b, decl, size = check_type(ffi, T)
        n += k
        counts.update(cnt)
        counts["types:%s:%s" % (name, tkind(T))] += 1
        for kind, x, info in b:
            bad.append((name, key, s, tkind(T), kind, x, info))
        if decl is not None:
            gcc_items.append((name, key, s, tkind(T), decl, size))
    if gcc_items:
        sizes = gcc_sizes([it[4] for it in gcc_items], _PAIR[2], "%d" % os.getpid())
        for (name, key, s, tk, decl, size), r in zip(gcc_items, sizes):
            n += 1
            if isinstance(r, tuple):
                bad.append((name, key, s, tk, "gcc_rejects", "v", {"declaration": decl + ";", "gcc": r[1]}))
            elif r != size:
                bad.append((name, key, s, tk, "sizeof_differs", "v", {"declaration": decl + ";", "gcc_sizeof": r,
                                                                      "ffi_sizeof": size}))
            else:
                counts["gcc_sizeof_ok:%s" % tk] += 1
    return n, dict(counts), bad


def _workdir():
    d = os.path.join(build.scratch_shared(), "c08")
    os.makedirs(d, exist_ok=True)
    return d


def run(ctx):
    d = _workdir()          # created before the workers are forked; they inherit VERIF_SHARED_SCRATCH
    try:
        return _run(ctx)
    finally:
        shutil.rmtree(d, ignore_errors=True)


def _run(ctx):
    depth = 3 if ctx.quick else 4
    if "depth" in getattr(ctx, "opts", {}):
        depth = int(ctx.opts["depth"])
    g = G.Grammar()
    strings = [G.spaced(t) for c, t in g.typenames(depth)]
    order = {s: i for i, s in enumerate(strings)}
    ctx.log("depth %d: %d derivations" % (depth, len(strings)))
    gc.collect()
    gc.freeze()
    types = {"inline": {}, "compiled": {}}
    accepted = 0
    for block, r in pool.pmap(collect, [[b] for b in pool.chunks(strings, BLOCK1)]):
        if isinstance(r, (pool.WorkerError, pool.Crash)):
            raise InfraError("worker failed in phase 1: %r" % (r,))
        nacc, out = r
        accepted += nacc
        for name in out:
            d = types[name]
            for key, s in out[name].items():
                if key not in d or order[s] < order[d[key]]:
                    d[key] = s
    items = []
    for name in ("inline", "compiled"):
        for key in sorted(types[name], key=lambda k: order[types[name][k]]):
            items.append((name, key, types[name][key]))
    distinct = len(set(types["inline"]) | set(types["compiled"]))
    ctx.log("%d accepted parses, %d distinct ctypes in-line, %d compiled, %d distinct overall" % (
        accepted, len(types["inline"]), len(types["compiled"]), distinct))
    for i in range(0, len(items), max(1, len(items) // 40)):
        ctx.sample({"ffi": items[i][0], "type": items[i][2], "suffixes": SUFFIXES})

    counts = collections.Counter()
    evaluated = 0
    bad = []
    for block, r in pool.pmap(verify, [[b] for b in pool.chunks(items, BLOCK2)]):
        if isinstance(r, pool.WorkerError):
            raise InfraError("worker failed: %s" % r.tb)
        if isinstance(r, pool.Crash):
            raise InfraError("worker died (%s) in a block starting with %r" % (r.describe(), block[0]))
        n, cnt, b = r
        evaluated += n
        counts.update(cnt)
        bad.extend(b)
    for k, v in counts.items():
        ctx.count(k, v)
    groups = collections.defaultdict(list)
    for name, key, s, tk, kind, x, info in bad:
        if has_void_argument(json.loads(key)):
            # one root cause, whatever the suffix: new_function_type() let a `void` parameter through, and the
            # name of that ctype reads as the function without parameters
            sig = {"kind": kind, "ffi": name, "cause": "function_ctype_with_void_parameter"}
        else:
            sig = {"kind": kind, "suffix": x, "ffi": name, "type": tk}
        groups[tuple(sorted(sig.items()))].append((order[s], s, name, x, kind, info))
    first, rest = [], []
    for k in sorted(groups):
        lst = sorted(groups[k], key=lambda t: t[:2])
        first.append((k, lst[0]))
        rest.extend((k, t) for t in lst[1:])
    for k, (_, s, name, x, kind, info) in first + rest:
        ctx.violation(dict(k), {"ffi": name, "type": s, "suffix": x, "kind": kind, "info": info})
    nontrivial = sum(v for k, v in counts.items() if k.startswith("types:") and not k.endswith((":primitive", ":void")))
    cov = {
        "evaluations": evaluated,
        "distinct_nontrivial": nontrivial,
        "rule": "an evaluation is one (FFI, ctype, suffix) re-parse comparison or one (FFI, ctype) gcc sizeof "
                "comparison; ctypes = all distinct ctypes (by structure) denoted in the context 'decls' by the "
                "derivations of depth <= %d of grammar G, per FFI; non-trivial = (FFI, ctype) pairs whose ctype is "
                "not a bare primitive or void (pointer, array, function pointer, struct, union, enum)" % depth,
        "exhaustive": True,
        "bound": {"derivation_depth": depth, "suffixes": SUFFIXES},
        "derivations": len(strings),
        "distinct_ctypes": distinct,
        "ctypes_inline": len(types["inline"]),
        "ctypes_compiled": len(types["compiled"]),
    }
    return ctx.finish(cov, [
        "gcc 12 with -w (GNU C) decides whether a declaration is acceptable and its sizeof",
        "the expected ctype of every suffix is built with _cffi_backend.new_pointer_type/new_array_type/"
        "new_function_type; identity of equal types rests on the backend's unique-type cache",
    ])


def replay(detail):
    d = os.path.join(build.scratch_shared(), "replay%d" % os.getpid())
    os.makedirs(d, exist_ok=True)
    try:
        pair = G.make_pair("decls", d)
        ffi = dict(_ffis(pair))[detail["ffi"]]
        s, x = detail["type"], detail["suffix"]
        T = ffi.typeof(s)
        print("ffi      : %s" % detail["ffi"])
        print("T        : typeof(%r) = %r" % (s, T))
        n, counts, bad, decl, size = check_type(ffi, T)
        hit = [b for b in bad if b[1] == x and b[0] == detail["kind"]]
        for b in bad:
            print("MISMATCH : suffix %r %s %s" % (b[1], b[0], b[2]))
        if detail["kind"] in ("gcc_rejects", "sizeof_differs") and decl is not None:
            r = gcc_sizes([decl], d, "r")[0]
            print("gcc      : `%s;` -> %r ; ffi.sizeof(T) = %r" % (decl, r, size))
            if isinstance(r, tuple) or r != size:
                hit.append(r)
        if not hit:
            print("no mismatch for suffix %r" % (x,))
        return 1 if hit else 0
    finally:
        shutil.rmtree(d, ignore_errors=True)
